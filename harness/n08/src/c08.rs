//! C08 — a crash at any point of block import recovers to a consistent, convergent state.
//!
//! The harness re-executes ITSELF as a child process (`vh-c08 C08 --out DIR child …`) that runs a real
//! node on a directory and delivers a list of blocks serialised; with `VERIF_CRASH_AT=n[:after]` the
//! child is aborted (SIGABRT, `ckb_db::verif_crash`) just before / right after its n-th RocksDB commit.
//! The parent then (1) opens the crashed database without services and evaluates the consistency
//! oracle, (2) restarts a real node on it (InitLoadUnverified), (3) re-delivers the whole history and
//! checks convergence to the crash-free reference run.
//!
//! Protocol (model side: lean/CkbVerif/Driver/C01.lean, shared with C01):
//!   blk <id> <parent> <num> <epoch> <work> <nc> <ok>                 -> ok
//!   deliver <id> <hint>       serialised delivery                    -> state line
//!   commits                   RocksDB commits since the start        -> <n>
//!   crashdeliver <id> <k>     delivery killed just before its k-th commit -> persisted state line
//!   restart <maxEpochLen> <scan order>                               -> state line after start-up
//!   burst <ids>               (repeated crashes) final answer only   -> td=<n>
//!   crashsome <id> <observed> (repeated crashes) delivery on a RESTARTED node killed at some commit: the persisted state between two commits of that delivery -> persisted state line
//!   (lean/CkbVerif/Driver/C08.lean adds:)
//!   burstcrash <ids> <i> <v>  family `fork`: i blocks handed over back to back, v verified, process dead -> persisted state line
//!   requeued <mel> <order>    the blocks the start-up scan re-submitted, as OBSERVED (ext / deleted / pooled) -> ids
//!   consts                    max_epoch_length / EXPIRED_EPOCH / BLOCK_DOWNLOAD_WINDOW of the real code -> mel=.. expired=.. bdw=..
//!   longchain <ids>           family `edge`: the prepared chain                -> ok
//!   crash2 <mel> <order> <observed state, | for spaces>  second-level crash during start-up re-verification -> state line
//!
//!   win <close> <far>         the proposal window (first line of a case)               -> ok
//!   prop <id> <own> <uncles>  names of the ids in the block's own proposals zone / in its uncles' zones -> ok
//!   pview <close> <far>       `Snapshot::proposals()` of the restarted node (after `restart` and after every later `deliver`) -> gap=<names> set=<names>
//!
//! Families (generate): random trees and `deep` (serialised deliveries, crash at commit indexes, restart, first
//! only the never-stored blocks, then everything), `fork` (burst delivery of competing branches, crash inside
//! the burst / plain stop, restart WITHOUT re-delivery, reconstruction oracles `restart-state` and
//! `restart-vs-reference`), `edge` (true lower edge of the scan window on a prepared 10 806-block database),
//! second-level crashes during the start-up re-verification (`crash2`).
//! state line: cb=<id>:<new|known|err|drop>,.. tip=<id> td=<n> orph=<k> stored=<ids> ext=<id>:<td>,..
//!             ver=<ids> inv=<ids>
//!
//! Case labels carry what a replay needs: `el=<epoch length>` (and `n1= n2=` for repeated crashes).
//!
//! Canonicalisation of callbacks after a restart: InitLoadUnverified submits blocks WITHOUT callback,
//! the model gives every delivery a notional callback. For a block sitting in the orphan pool without
//! a harness callback ("foreign"), the harness synthesises the verdict the model reports from the
//! observable outcome: `drop` when it is re-delivered while pooled (entry replaced), `new` when it was
//! released and got an ext, `err` when it was released and deleted.
use crate::common::*;
use crate::node::*;
#[path = "c08_dump.rs"]
mod dump8;
#[path = "c08_pool.rs"]
mod pool8;
use ckb_chain::{LonelyBlock, VerifyResult};
use ckb_db::RocksDB;
use ckb_db_schema::{COLUMNS, COLUMN_BLOCK_HEADER};
use ckb_shared::block_status::BlockStatus;
use ckb_store::{ChainDB, ChainStore};
use ckb_types::core::{BlockView, TransactionView};
use ckb_types::packed::{self, Byte32, OutPoint};
use ckb_types::prelude::*;
use ckb_types::U256;
use std::collections::{BTreeMap, BTreeSet, HashMap, HashSet};
use std::io::Write as IoWrite;
use std::path::{Path, PathBuf};
use std::sync::{Arc, Mutex};
use std::time::{Duration, Instant};

/// "hang" = a wait exceeding 60 s. On an overloaded machine (1-minute load average above twice the
/// number of CPUs; other people's builds) the limit is stretched in proportion, so that starvation of
/// the node's threads is not reported as a property violation.
fn wait_timeout() -> Duration {
    let cpus = std::thread::available_parallelism().map(|n| n.get()).unwrap_or(1) as f64;
    let load = std::fs::read_to_string("/proc/loadavg").ok().and_then(|s| s.split(' ').next().and_then(|x| x.parse::<f64>().ok())).unwrap_or(0.0);
    let factor = if load > 2.0 * cpus { (load / cpus).ceil().min(30.0) } else { 1.0 };
    Duration::from_secs_f64(60.0 * factor)
}
const WINDOW: (u64, u64) = (2, 4);
const GCELLS: u64 = 32;
const SIGABRT: i32 = 6;

static T_INSPECT_US: std::sync::atomic::AtomicU64 = std::sync::atomic::AtomicU64::new(0);
static T_START_US: std::sync::atomic::AtomicU64 = std::sync::atomic::AtomicU64::new(0);
static T_REDELIVER_US: std::sync::atomic::AtomicU64 = std::sync::atomic::AtomicU64::new(0);
static T_STOP_US: std::sync::atomic::AtomicU64 = std::sync::atomic::AtomicU64::new(0);

fn tick(acc: &std::sync::atomic::AtomicU64, t: Instant) {
    acc.fetch_add(t.elapsed().as_micros() as u64, std::sync::atomic::Ordering::Relaxed);
}

fn node_cfg_w(epoch_len: u64, wfar: u64) -> NodeCfg {
    NodeCfg { epoch_len, window: (WINDOW.0, wfar), genesis_cells: GCELLS, maturity_epochs: 0, with_pool: false, tx_pool: None }
}

fn node_cfg(epoch_len: u64) -> NodeCfg {
    NodeCfg { epoch_len, window: WINDOW, genesis_cells: GCELLS, maturity_epochs: 0, with_pool: false, tx_pool: None }
}

// ------------------------------------------------------------------------------------------------
// callbacks (copied from c01.rs)
// ------------------------------------------------------------------------------------------------

#[derive(Clone, Copy, PartialEq, Eq, PartialOrd, Ord, Debug)]
enum Verdict {
    New,
    Known,
    Err,
    Drop,
}

impl Verdict {
    fn as_str(self) -> &'static str {
        match self {
            Verdict::New => "new",
            Verdict::Known => "known",
            Verdict::Err => "err",
            Verdict::Drop => "drop",
        }
    }
}

#[derive(Default)]
struct CbLog {
    events: Vec<(usize, Verdict)>,
    fired: usize,
    dropped: usize,
}

struct Guard {
    id: usize,
    log: Arc<Mutex<CbLog>>,
    called: bool,
}

impl Guard {
    fn fire(mut self, r: VerifyResult) {
        self.called = true;
        let v = match r {
            Ok(true) => Verdict::New,
            Ok(false) => Verdict::Known,
            Err(_) => Verdict::Err,
        };
        let mut l = self.log.lock().unwrap();
        l.events.push((self.id, v));
        l.fired += 1;
    }
}

impl Drop for Guard {
    fn drop(&mut self) {
        if !self.called {
            let mut l = self.log.lock().unwrap();
            l.events.push((self.id, Verdict::Drop));
            l.dropped += 1;
        }
    }
}

// ------------------------------------------------------------------------------------------------
// blocks
// ------------------------------------------------------------------------------------------------

#[derive(Clone, Copy, PartialEq, Eq, Debug)]
enum Kind {
    Valid,
    Ctx,
    Nc,
}

impl Kind {
    fn nc(self) -> bool {
        self != Kind::Nc
    }
    fn ok(self) -> bool {
        self == Kind::Valid
    }
    fn from_flags(nc: bool, ok: bool) -> Kind {
        if !nc {
            Kind::Nc
        } else if !ok {
            Kind::Ctx
        } else {
            Kind::Valid
        }
    }
}

fn tweak_for(kind: Kind, id: usize, number: u64, fdl: u64) -> Tweak {
    match kind {
        Kind::Valid => Tweak::None,
        Kind::Nc => unreachable!("built by build_nc_invalid"),
        Kind::Ctx => {
            let n = if number > fdl { 3 } else { 2 };
            match id % n {
                0 => Tweak::Dao,
                1 => Tweak::Extension,
                _ => Tweak::CellbaseCapacity(1),
            }
        }
    }
}

#[derive(Clone)]
struct Blk {
    id: usize,
    parent: usize,
    block: Arc<BlockView>,
    hash: Byte32,
    num: u64,
    epoch: u64,
    work: u128,
    kind: Kind,
    /// the transaction this block proposes — itself or only through an embedded uncle — (committed by its grandchild)
    tx: Option<TransactionView>,
    /// `union_proposal_ids` under small numeric names: the ids in the block's OWN proposals zone …
    own_props: Vec<(u64, packed::ProposalShortId)>,
    /// … and the ids in the proposals zones of its embedded UNCLES (flattened, in uncle order)
    uncle_props: Vec<(u64, packed::ProposalShortId)>,
}

impl Blk {
    /// names of `union_proposal_ids`, sorted, without duplicates
    fn union_names(&self) -> Vec<u64> {
        let mut v: Vec<u64> = self.own_props.iter().chain(self.uncle_props.iter()).map(|(n, _)| *n).collect();
        v.sort();
        v.dedup();
        v
    }
    /// names that reach the proposal table ONLY through an uncle of this block
    fn uncle_only_names(&self) -> Vec<u64> {
        let mut v: Vec<u64> = self.uncle_props.iter().map(|(n, _)| *n).filter(|n| !self.own_props.iter().any(|(m, _)| m == n)).collect();
        v.sort();
        v.dedup();
        v
    }
}

/// name of an id that only an uncle of block `id` proposes (k = 0, 1)
fn extra_name(id: usize, k: u64) -> u64 {
    100_000 + 2 * id as u64 + k
}

/// An uncle for a child of `sibling`: `sibling`'s header with another nonce and its own proposals zone
/// (`UnclesVerifier` looks at the target, the epoch, the number, the parent being on the main chain, double
/// inclusion, the proposals zone and the PoW of an uncle — nothing else).
fn make_uncle(sibling: &BlockView, salt: u64, proposals: Vec<packed::ProposalShortId>) -> ckb_types::core::UncleBlockView {
    sibling.as_advanced_builder().set_uncles(vec![]).set_proposals(proposals).nonce(salt as u128).build().as_uncle()
}

fn u256_u128(x: &U256) -> u128 {
    x.to_string().parse::<u128>().expect("difficulty fits u128")
}

fn genesis_blk(consensus: &ckb_chain_spec::consensus::Consensus) -> Blk {
    let g = consensus.genesis_block().clone();
    Blk { id: 0, parent: 0, hash: g.hash(), num: 0, epoch: g.epoch().number(), work: u256_u128(&g.header().difficulty()), kind: Kind::Valid, block: Arc::new(g), tx: None, own_props: vec![], uncle_props: vec![] }
}

/// see c01.rs: a block failing the merkle-root check, registered in the builder so that children can be built
fn build_nc_invalid(b: &mut ChainBuilder, parent: &Byte32, spec: BlockSpec) -> BlockView {
    let v = b.build(parent, &BlockSpec { tweak: Tweak::TxRoot, ..spec });
    let raw = v.data().header().raw().as_builder().transactions_root(Byte32::zero()).build();
    let header = v.data().header().as_builder().raw(raw).build();
    let block = v.data().as_builder().header(header).build().into_view_without_reset_header();
    assert!(block.transactions_root() != block.calc_transactions_root());
    b.blocks.remove(&v.hash());
    b.blocks.insert(block.hash(), block.clone());
    block
}

/// Deterministic in (id, parent chain): the block at height h proposes a transaction spending genesis
/// cell h-1 (salted by its id) and commits the one proposed by its grandparent, so that forks differ in
/// their live-cell sets. UNCLES (id mod 4, when the block is in its parent's epoch and has a grandparent;
/// the uncles are siblings of the parent): 1 = the block proposes NOTHING itself, one embedded uncle
/// proposes the block's transaction (its only source: the grandchild's commit rests on the uncle);
/// 3 = the block proposes its transaction, a first uncle proposes an extra id, a second uncle proposes
/// another extra id and the block's transaction again (the extra ids are never proposed on a main chain
/// by a block itself and never committed); 0, 2 = no uncle.
fn build_blk(b: &mut ChainBuilder, id: usize, parent: &Blk, grand: Option<&Blk>, kind: Kind) -> Blk {
    let fdl = b.consensus.finalization_delay_length();
    let cells = genesis_cells(&b.consensus);
    let h = parent.num + 1;
    let has_cell = ((h - 1) as usize) < cells.len();
    let tx = if has_cell { Some(spend_tx(&cells[(h - 1) as usize..h as usize], 1, 1000, id as u64)) } else { None };
    let mut spec = BlockSpec { salt: id as u64, ..Default::default() };
    let pe = parent.block.epoch();
    let uncle_ok = kind != Kind::Nc && parent.id != 0 && grand.is_some() && pe.index() + 1 < pe.length() && tx.is_some();
    let mut own_props = vec![];
    let mut uncle_props = vec![];
    if let Some(t) = &tx {
        let pid = t.proposal_short_id();
        let extra = |k: u64| spend_tx(&cells[(h - 1) as usize..h as usize], 1, 2000 + k, 9_000_000 + 2 * id as u64 + k).proposal_short_id();
        match if uncle_ok { id % 4 } else { 0 } {
            1 => {
                spec.uncles = vec![make_uncle(&parent.block, 7_000_000 + 4 * id as u64, vec![pid.clone()])];
                uncle_props.push((id as u64, pid));
            }
            3 => {
                let (x0, x1) = (extra(0), extra(1));
                spec.proposals = vec![pid.clone()];
                spec.uncles = vec![
                    make_uncle(&parent.block, 7_000_000 + 4 * id as u64 + 1, vec![x0.clone()]),
                    make_uncle(&parent.block, 7_000_000 + 4 * id as u64 + 2, vec![x1.clone(), pid.clone()]),
                ];
                own_props.push((id as u64, pid.clone()));
                uncle_props.extend([(extra_name(id, 0), x0), (extra_name(id, 1), x1), (id as u64, pid)]);
            }
            _ => {
                spec.proposals = vec![pid.clone()];
                own_props.push((id as u64, pid));
            }
        }
    }
    if parent.id != 0 {
        if let Some(t) = grand.and_then(|g| g.tx.clone()) {
            spec.txs = vec![t];
        }
    }
    let block = if kind == Kind::Nc {
        build_nc_invalid(b, &parent.hash, spec)
    } else {
        spec.tweak = tweak_for(kind, id, h, fdl);
        b.build(&parent.hash, &spec)
    };
    Blk { id, parent: parent.id, hash: block.hash(), num: block.number(), epoch: block.epoch().number(), work: u256_u128(&block.header().difficulty()), kind, block: Arc::new(block), tx, own_props, uncle_props }
}

/// `prop <id> <own ids|-> <uncles' ids|->`: the proposals zone of the block and of its uncles (names)
fn prop_line(b: &Blk) -> Option<String> {
    if b.own_props.is_empty() && b.uncle_props.is_empty() {
        return None;
    }
    let show = |v: &[(u64, packed::ProposalShortId)]| if v.is_empty() { "-".to_string() } else { v.iter().map(|(n, _)| n.to_string()).collect::<Vec<_>>().join(",") };
    Some(format!("prop {} {} {}", b.id, show(&b.own_props), show(&b.uncle_props)))
}

fn blk_line(b: &Blk) -> String {
    let ok = if b.kind == Kind::Nc { true } else { b.kind.ok() };
    format!("blk {} {} {} {} {} {} {}", b.id, b.parent, b.num, b.epoch, b.work, b.kind.nc() as u8, ok as u8)
}

fn show_ids(v: &[usize]) -> String {
    if v.is_empty() { "-".into() } else { v.iter().map(|i| i.to_string()).collect::<Vec<_>>().join(",") }
}

fn parse_ids(s: &str) -> Vec<usize> {
    if s == "-" || s.is_empty() {
        return vec![];
    }
    s.split(',').map(|x| x.parse::<usize>().unwrap_or_else(|_| panic!("bad id list {s}"))).collect()
}

// blocks file: u32 n, then per block (ids 1..=n): 32-byte hash, u32 length, molecule bytes of packed::Block
fn write_blocks(path: &Path, blks: &[Blk]) {
    let mut buf: Vec<u8> = vec![];
    buf.extend_from_slice(&((blks.len() - 1) as u32).to_le_bytes());
    for b in blks.iter().skip(1) {
        buf.extend_from_slice(b.hash.as_slice());
        let bytes = b.block.data().as_slice().to_vec();
        buf.extend_from_slice(&(bytes.len() as u32).to_le_bytes());
        buf.extend_from_slice(&bytes);
    }
    std::fs::write(path, buf).expect("write blocks file");
}

fn read_blocks(path: &Path, consensus: &ckb_chain_spec::consensus::Consensus) -> Vec<Blk> {
    let buf = std::fs::read(path).expect("read blocks file");
    let mut p = 0usize;
    let rd_u32 = |p: &mut usize| {
        let v = u32::from_le_bytes(buf[*p..*p + 4].try_into().unwrap());
        *p += 4;
        v as usize
    };
    let n = rd_u32(&mut p);
    let mut v = vec![genesis_blk(consensus)];
    for id in 1..=n {
        let hash = Byte32::from_slice(&buf[p..p + 32]).unwrap();
        p += 32;
        let len = rd_u32(&mut p);
        let block = packed::Block::from_compatible_slice(&buf[p..p + len]).expect("block bytes").into_view_without_reset_header();
        p += len;
        assert_eq!(block.hash(), hash, "child: block {id} hash differs from the parent's");
        v.push(Blk { id, parent: 0, hash, num: block.number(), epoch: block.epoch().number(), work: 0, kind: Kind::Valid, block: Arc::new(block), tx: None, own_props: vec![], uncle_props: vec![] });
    }
    v
}

// ------------------------------------------------------------------------------------------------
// state lines
// ------------------------------------------------------------------------------------------------

#[derive(Default, Clone)]
struct StateView {
    tip: Option<usize>,
    td: u128,
    orph: usize,
    stored: Vec<usize>,
    ext: Vec<(usize, u128)>,
    ver: Vec<usize>,
    inv: Vec<usize>,
    ext_false: Vec<usize>,
}

fn fill_rows<S: ChainStore>(store: &S, blks: &[Blk], v: &mut StateView) {
    for b in blks {
        if store.get(COLUMN_BLOCK_HEADER, b.hash.as_slice()).is_some() {
            v.stored.push(b.id);
        }
        if let Some(ext) = store.get_block_ext(&b.hash) {
            v.ext.push((b.id, u256_u128(&ext.total_difficulty)));
            match ext.verified {
                Some(true) => v.ver.push(b.id),
                Some(false) => v.ext_false.push(b.id),
                None => {}
            }
        }
    }
}

fn view_of_node(node: &Node, blks: &[Blk], by_hash: &HashMap<Byte32, usize>) -> StateView {
    let snap = node.shared.snapshot();
    let mut v = StateView { tip: by_hash.get(&snap.tip_hash()).copied(), td: u256_u128(snap.total_difficulty()), orph: node.controller().orphan_blocks_len(), ..Default::default() };
    fill_rows(node.store(), blks, &mut v);
    for b in blks {
        if node.shared.get_block_status(&b.hash) == BlockStatus::BLOCK_INVALID {
            v.inv.push(b.id);
        }
    }
    v
}

/// the persisted state of a database opened without services
fn view_of_store(db: &ChainDB, blks: &[Blk], by_hash: &HashMap<Byte32, usize>) -> StateView {
    let mut v = StateView::default();
    if let Some(t) = db.get_tip_header() {
        v.tip = by_hash.get(&t.hash()).copied();
        if let Some(e) = db.get_block_ext(&t.hash()) {
            v.td = u256_u128(&e.total_difficulty);
        }
    }
    fill_rows(db, blks, &mut v);
    v
}

fn fmt_line(cbs: &[(usize, Verdict)], v: &StateView) -> String {
    let cb = if cbs.is_empty() { "-".to_string() } else { cbs.iter().map(|(i, v)| format!("{}:{}", i, v.as_str())).collect::<Vec<_>>().join(",") };
    let ext = if v.ext.is_empty() { "-".to_string() } else { v.ext.iter().map(|(i, t)| format!("{i}:{t}")).collect::<Vec<_>>().join(",") };
    format!(
        "cb={} tip={} td={} orph={} stored={} ext={} ver={} inv={}",
        cb,
        v.tip.map(|t| t.to_string()).unwrap_or("?".into()),
        v.td,
        v.orph,
        show_ids(&v.stored),
        ext,
        show_ids(&v.ver),
        show_ids(&v.inv)
    )
}

fn line_field<'a>(line: &'a str, key: &str) -> Option<&'a str> {
    line.split(' ').find_map(|t| t.strip_prefix(key))
}

fn hash_map(blks: &[Blk]) -> HashMap<Byte32, usize> {
    blks.iter().map(|b| (b.hash.clone(), b.id)).collect()
}

// ------------------------------------------------------------------------------------------------
// driving a live node (child process on a fresh directory: callback counting; restarted node: fences)
// ------------------------------------------------------------------------------------------------

struct Delivery {
    hint: Vec<usize>,
    cbs: Vec<(usize, Verdict)>,
    view: StateView,
}

struct Runner<'a> {
    node: &'a Node,
    blks: &'a [Blk],
    by_hash: HashMap<Byte32, usize>,
    log: Arc<Mutex<CbLog>>,
    handed: usize,
    handed_by_id: HashMap<usize, usize>,
    /// restarted node: InitLoadUnverified's deliveries carry no callback, so quiescence is established
    /// by a fence through the verify queue instead of callback counting
    fenced: bool,
    /// ids in the orphan pool without a harness callback
    foreign: BTreeSet<usize>,
    /// after a restart with tip = genesis: blocks InitLoadUnverified must have resubmitted; the poll
    /// waits (bounded) until each has an ext, is deleted or is pooled
    await_resolved: Vec<usize>,
    /// commits caused by `poke` (not part of the protocol): subtracted from the counts the child logs
    poke_commits: u64,
}

impl<'a> Runner<'a> {
    fn new(node: &'a Node, blks: &'a [Blk], fenced: bool) -> Runner<'a> {
        Runner { node, blks, by_hash: hash_map(blks), log: Arc::new(Mutex::new(CbLog::default())), handed: 0, handed_by_id: HashMap::new(), fenced, foreign: BTreeSet::new(), await_resolved: vec![], poke_commits: 0 }
    }

    fn view(&self) -> StateView {
        view_of_node(self.node, self.blks, &self.by_hash)
    }

    fn in_pool(&self, id: usize) -> bool {
        self.node.controller().get_orphan_block(self.node.store(), &self.blks[id].hash).is_some()
    }

    fn lonely(&mut self, id: usize) -> LonelyBlock {
        let block = self.blks[id].block.clone();
        self.handed += 1;
        *self.handed_by_id.entry(id).or_insert(0) += 1;
        let g = Guard { id, log: self.log.clone(), called: false };
        LonelyBlock { block, switch: None, verify_callback: Some(Box::new(move |r: VerifyResult| g.fire(r))) }
    }

    /// c01.rs's probe: outstanding callbacks == orphan pool size (sound when every pool entry and every
    /// queued block carries a harness callback, i.e. on a node that started on a fresh directory)
    fn wait_counting(&self) -> Result<(), String> {
        let start = Instant::now();
        let mut step = Duration::from_micros(200);
        loop {
            let (fired, dropped) = {
                let l = self.log.lock().unwrap();
                (l.fired, l.dropped)
            };
            let outstanding = self.handed - fired - dropped;
            let pool = self.node.controller().orphan_blocks_len();
            if outstanding == pool {
                return Ok(());
            }
            if start.elapsed() > wait_timeout() {
                return Err(format!("no quiescence after 60s: handed={} fired={fired} dropped={dropped} orphan_pool={pool}", self.handed));
            }
            std::thread::sleep(step);
            step = (step * 2).min(Duration::from_millis(1));
        }
    }

    /// a block that looks like unfinished work: stored, no ext, not pooled, parent has an ext and is not invalid
    fn pending_looking(&self) -> Vec<usize> {
        let store = self.node.store();
        let mut v = vec![];
        for b in self.blks.iter().skip(1) {
            let p = b.block.parent_hash();
            if store.get(COLUMN_BLOCK_HEADER, b.hash.as_slice()).is_some()
                && store.get_block_ext(&b.hash).is_none()
                && store.get_block_ext(&p).is_some()
                && self.node.shared.get_block_status(&p) != BlockStatus::BLOCK_INVALID
                && !self.in_pool(b.id)
            {
                v.push(b.id);
            }
        }
        v
    }

    /// pooled blocks whose parent has an ext and is not BLOCK_INVALID (impossible in the model)
    fn stranded(&self) -> Vec<usize> {
        if self.node.controller().orphan_blocks_len() == 0 {
            return vec![];
        }
        let store = self.node.store();
        self.blks.iter().skip(1).filter(|b| {
            // (the child process does not know the ids of parents: use the block's own parent hash)
            let p = b.block.parent_hash();
            self.in_pool(b.id) && store.get_block_ext(&p).is_some() && self.node.shared.get_block_status(&p) != BlockStatus::BLOCK_INVALID
        }).map(|b| b.id).collect()
    }

    /// hands the (verified) tip block over once more, with a private callback, and waits for its answer
    fn poke(&mut self) -> Result<(), String> {
        let tip = self.node.shared.snapshot().tip_hash();
        let Some(i) = self.by_hash.get(&tip).copied() else { return Ok(()) };
        if i == 0 {
            return Ok(());
        }
        let (tx, rx) = crossbeam_channel::bounded::<bool>(1);
        let lb = LonelyBlock { block: self.blks[i].block.clone(), switch: None, verify_callback: Some(Box::new(move |r: VerifyResult| { let _ = tx.send(r.is_ok()); })) };
        let before = ckb_db::verif_crash::count();
        if !self.node.controller().verif_process_lonely_block_sync(lb) {
            return Err("the chain service has gone".into());
        }
        match rx.recv_timeout(wait_timeout()) {
            Ok(_) => {
                self.poke_commits += ckb_db::verif_crash::count().saturating_sub(before).min(1);
                Ok(())
            }
            Err(_) => Err("the extra tip delivery was not answered".into()),
        }
    }

    fn unresolved_awaited(&self) -> Vec<usize> {
        let store = self.node.store();
        self.await_resolved.iter().copied().filter(|c| {
            let hash = &self.blks[*c].hash;
            store.get(COLUMN_BLOCK_HEADER, hash.as_slice()).is_some() && store.get_block_ext(hash).is_none() && !self.in_pool(*c)
        }).collect()
    }

    fn my_outstanding_outside_pool(&self) -> bool {
        let l = self.log.lock().unwrap();
        for (id, n) in &self.handed_by_id {
            let done = l.events.iter().filter(|(i, _)| i == id).count();
            if *n > done && !self.in_pool(*id) {
                return true;
            }
        }
        false
    }

    /// Quiescence on a restarted node. The chain-service thread is idle (a synchronous request has
    /// returned). Tip != genesis: re-deliver the (verified) tip block with a private callback; it is
    /// answered Ok(false) after every earlier queued block was verified (FIFO). Tip == genesis:
    /// nothing verified exists to fence with; poll until the state is stable for 50 ms and no harness
    /// callback is outstanding outside the pool (after a restart also, bounded, until the blocks that
    /// must have been resubmitted are resolved); as soon as the tip moves, fence.
    fn settle(&self) -> Result<(), String> {
        let t0 = Instant::now();
        let genesis = self.blks[0].hash.clone();
        loop {
            let tip = self.node.shared.snapshot().tip_hash();
            if tip != genesis {
                let block = match self.by_hash.get(&tip) {
                    Some(i) => self.blks[*i].block.clone(),
                    None => Arc::new(self.node.store().get_block(&tip).ok_or("tip block not in the store")?),
                };
                let (tx, rx) = crossbeam_channel::bounded::<bool>(1);
                let lb = LonelyBlock { block, switch: None, verify_callback: Some(Box::new(move |r: VerifyResult| { let _ = tx.send(r.is_ok()); })) };
                if !self.node.controller().verif_process_lonely_block_sync(lb) {
                    return Err("the chain service has gone".into());
                }
                let f0 = Instant::now();
                loop {
                    match rx.recv_timeout(Duration::from_secs(1)) {
                        Ok(_) => return Ok(()),
                        Err(crossbeam_channel::RecvTimeoutError::Disconnected) => {
                            return Err(format!("the verify-queue fence's callback was dropped without being called (pipeline dead?); unfinished={:?}", self.pending_looking()));
                        }
                        Err(crossbeam_channel::RecvTimeoutError::Timeout) => {
                            if f0.elapsed() > wait_timeout() {
                                return Err(format!("verify-queue fence not answered after {:?}; unfinished={:?}", f0.elapsed(), self.pending_looking()));
                            }
                        }
                    }
                }
            }
            let mut last = fmt_line(&[], &self.view());
            let mut since = Instant::now();
            loop {
                std::thread::sleep(Duration::from_millis(5));
                let cur = fmt_line(&[], &self.view());
                if cur != last {
                    last = cur;
                    since = Instant::now();
                } else if since.elapsed() >= Duration::from_millis(50) && !self.my_outstanding_outside_pool() && (t0.elapsed() > wait_timeout() / 12 || self.unresolved_awaited().is_empty()) {
                    break;
                }
                if self.node.shared.snapshot().tip_hash() != genesis {
                    break;
                }
                if t0.elapsed() > wait_timeout() {
                    return Err(format!("no quiescence (tip = genesis) after 60s; unfinished={:?}", self.pending_looking()));
                }
            }
            if self.node.shared.snapshot().tip_hash() == genesis {
                return Ok(());
            }
        }
    }

    /// after a restart: everything InitLoadUnverified queued is handled; records the foreign pool entries
    fn after_restart(&mut self) -> Result<(), String> {
        let fence = LonelyBlock { block: self.blks[0].block.clone(), switch: None, verify_callback: None };
        if !self.node.controller().verif_process_lonely_block_sync(fence) {
            return Err("the chain service has gone".into());
        }
        self.settle()?;
        self.foreign = self.blks.iter().skip(1).filter(|b| self.in_pool(b.id)).map(|b| b.id).collect();
        Ok(())
    }

    fn deliver(&mut self, id: usize) -> Result<Delivery, String> {
        let first = self.log.lock().unwrap().events.len();
        let lb = self.lonely(id);
        let commits_before = ckb_db::verif_crash::count();
        if !self.node.controller().verif_process_lonely_block_sync(lb) {
            return Err("the chain service has gone".into());
        }
        // No commit at all = `asynchronous_process_block` returned early (genesis, non-contextual
        // failure): nothing was queued and `search_orphan_leaders` did not run. The fence would run it
        // (it is a delivery), which the protocol does not have at this point; it is not needed either.
        let early_return = ckb_db::verif_crash::count() == commits_before;
        if self.fenced {
            if !early_return {
                self.settle()?;
            }
        } else {
            self.wait_counting()?;
        }
        // `search_orphan_leader` reads the leader's status BEFORE `is_pending_verify`; when the verify thread
        // finishes the leader between the two reads (seen under heavy load) both answers are negative and the
        // leader's descendants stay in the orphan pool although their parent has an ext, until the NEXT delivery
        // runs the search again (the model's steps are atomic and connect them at once: C01 orphans_connected).
        // Counted and reported, not failed (not a listed finding): one more delivery (the verified tip) is handed
        // over, as the next block from the network would be.
        for _ in 0..3 {
            let stranded = self.stranded();
            let late: Vec<usize> = if self.fenced { self.pending_looking().into_iter().filter(|c| self.foreign.contains(c) || self.handed_by_id.contains_key(c)).collect() } else { vec![] };
            if stranded.is_empty() && late.is_empty() {
                break;
            }
            STRANDED_ORPHANS.fetch_add(1, std::sync::atomic::Ordering::Relaxed);
            eprintln!("C08: note: after the delivery of {id} the orphans {stranded:?} were still pooled although their parent has an ext (released late: {late:?}); search_orphan_leader status/pending read order");
            if self.fenced {
                self.settle()?;
            } else {
                self.poke()?;
                self.wait_counting()?;
            }
        }
        let mut events: Vec<(usize, Verdict)> = self.log.lock().unwrap().events[first..].to_vec();
        let mut hint: Vec<usize> = events.iter().filter(|(i, v)| *v != Verdict::Drop && *i != id).map(|(i, _)| *i).collect();
        if !self.foreign.is_empty() {
            let store = self.node.store();
            if self.foreign.remove(&id) && self.in_pool(id) {
                events.push((id, Verdict::Drop));
            }
            for f in self.foreign.clone() {
                if !self.in_pool(f) {
                    let h = &self.blks[f].hash;
                    if store.get_block_ext(h).is_some() {
                        events.push((f, Verdict::New));
                    } else if store.get(COLUMN_BLOCK_HEADER, h.as_slice()).is_none() {
                        events.push((f, Verdict::Err));
                    } else {
                        continue;
                    }
                    hint.push(f);
                    self.foreign.remove(&f);
                }
            }
        }
        events.sort();
        Ok(Delivery { hint, cbs: events, view: self.view() })
    }
}

// ------------------------------------------------------------------------------------------------
// child process
// ------------------------------------------------------------------------------------------------

fn logln(f: &mut std::fs::File, s: &str) {
    f.write_all(format!("{s}\n").as_bytes()).expect("child: write log");
    let _ = f.flush();
}

/// `child <node_dir> <blocks_file> <log_file> <epoch_len> <ids> [fenced]`
fn child_main(opts: &Opts) -> ! {
    let a = &opts.extra;
    assert!(a.len() >= 6, "child: bad arguments");
    let node_dir = PathBuf::from(&a[1]);
    let blocks_file = PathBuf::from(&a[2]);
    let log_file = PathBuf::from(&a[3]);
    let el: u64 = a[4].parse().expect("epoch_len");
    let ids = parse_ids(&a[5]);
    let fenced = a.get(6).map(|s| s == "fenced").unwrap_or(false);
    let cfg = node_cfg(el);
    let consensus = make_consensus(&cfg);
    let blks = read_blocks(&blocks_file, &consensus);
    let mut log = std::fs::OpenOptions::new().create(true).append(true).open(&log_file).expect("child: open log");
    let node = Node::start(&node_dir, consensus, &cfg);
    let t0 = Instant::now();
    while node.controller().is_verifying_unverified_blocks_on_startup() {
        if t0.elapsed() > wait_timeout() {
            logln(&mut log, "hang startup");
            std::process::exit(3);
        }
        std::thread::sleep(Duration::from_micros(500));
    }
    {
        let mut r = Runner::new(&node, &blks, fenced);
        if fenced {
            if let Err(e) = r.after_restart() {
                logln(&mut log, &format!("hang startup {e}"));
                std::process::exit(3);
            }
        }
        if fenced {
            logln(&mut log, &format!("restarted {}", fmt_line(&[], &r.view())));
        }
        logln(&mut log, &format!("start {}", ckb_db::verif_crash::count()));
        for id in ids {
            assert!(id < blks.len(), "child: unknown id {id}");
            logln(&mut log, &format!("begin {} {}", id, ckb_db::verif_crash::count()));
            match r.deliver(id) {
                Ok(d) => {
                    if r.poke_commits > 0 {
                        logln(&mut log, &format!("poked {}", r.poke_commits));
                    }
                    logln(&mut log, &format!("done {} {} {} {}", id, ckb_db::verif_crash::count(), show_ids(&d.hint), fmt_line(&d.cbs, &d.view)))
                }
                Err(e) => {
                    logln(&mut log, &format!("hang {id} {e}"));
                    std::process::exit(3);
                }
            }
        }
        logln(&mut log, &format!("final {}", final_line(&node)));
        logln(&mut log, &format!("end {}", ckb_db::verif_crash::count()));
    }
    node.stop();
    std::process::exit(0)
}


/// `child2 <node_dir> <blocks_file> <log_file> <epoch_len> <w_far> <serial ids> <burst ids> <post ids> <stop|wait>`
/// (family `fork`): the serial ids are delivered one by one (quiescence after each), then the burst ids are
/// handed to the chain service back to back WITHOUT waiting for their verification (`sent` is logged when
/// the chain-service thread has handled the block, i.e. after its insert commit). `stop`: the node is then
/// stopped at once (a plain stop: whatever is still queued stays stored without ext). `wait`: quiescence,
/// then the post ids one by one. With VERIF_CRASH_AT the process dies somewhere in the burst.
fn child2_main(opts: &Opts) -> ! {
    let a = &opts.extra;
    assert!(a.len() >= 10, "child2: bad arguments");
    let node_dir = PathBuf::from(&a[1]);
    let blocks_file = PathBuf::from(&a[2]);
    let log_file = PathBuf::from(&a[3]);
    let el: u64 = a[4].parse().expect("epoch_len");
    let wfar: u64 = a[5].parse().expect("w_far");
    let serial = parse_ids(&a[6]);
    let burst = parse_ids(&a[7]);
    let post = parse_ids(&a[8]);
    let stop = a[9] == "stop";
    let cfg = node_cfg_w(el, wfar);
    let consensus = make_consensus(&cfg);
    let blks = read_blocks(&blocks_file, &consensus);
    let mut log = std::fs::OpenOptions::new().create(true).append(true).open(&log_file).expect("child2: open log");
    let node = Node::start(&node_dir, consensus, &cfg);
    let t0 = Instant::now();
    while node.controller().is_verifying_unverified_blocks_on_startup() {
        if t0.elapsed() > wait_timeout() {
            logln(&mut log, "hang startup");
            std::process::exit(3);
        }
        std::thread::sleep(Duration::from_micros(500));
    }
    {
        let mut r = Runner::new(&node, &blks, false);
        logln(&mut log, &format!("start {}", ckb_db::verif_crash::count()));
        let one = |r: &mut Runner, log: &mut std::fs::File, id: usize| {
            assert!(id < blks.len(), "child2: unknown id {id}");
            logln(log, &format!("begin {} {}", id, ckb_db::verif_crash::count()));
            match r.deliver(id) {
                Ok(d) => {
                    if r.poke_commits > 0 {
                        logln(log, &format!("poked {}", r.poke_commits));
                    }
                    logln(log, &format!("done {} {} {} {}", id, ckb_db::verif_crash::count(), show_ids(&d.hint), fmt_line(&d.cbs, &d.view)))
                }
                Err(e) => {
                    logln(log, &format!("hang {id} {e}"));
                    std::process::exit(3);
                }
            }
        };
        for id in serial {
            one(&mut r, &mut log, id);
        }
        logln(&mut log, &format!("burst {}", ckb_db::verif_crash::count()));
        for id in burst {
            assert!(id < blks.len(), "child2: unknown id {id}");
            let lb = r.lonely(id);
            if !node.controller().verif_process_lonely_block_sync(lb) {
                logln(&mut log, &format!("hang {id} the chain service has gone"));
                std::process::exit(3);
            }
            logln(&mut log, &format!("sent {} {}", id, ckb_db::verif_crash::count()));
        }
        if !stop {
            if let Err(e) = r.wait_counting() {
                logln(&mut log, &format!("hang burst {e}"));
                std::process::exit(3);
            }
            logln(&mut log, &format!("quiet {} {}", ckb_db::verif_crash::count(), fmt_line(&[], &r.view())));
            for id in post {
                one(&mut r, &mut log, id);
            }
        }
    }
    logln(&mut log, &format!("final {}", final_line(&node)));
    node.stop();
    logln(&mut log, &format!("end {}", ckb_db::verif_crash::count()));
    std::process::exit(0)
}

#[derive(Clone, Debug, PartialEq)]
enum ChildExit {
    Code(i32),
    Signal(i32),
    Timeout,
}

#[derive(Clone)]
struct ChildJob {
    node_dir: PathBuf,
    log: PathBuf,
    stderr: PathBuf,
    ids: Vec<usize>,
    crash: Option<String>,
    fenced: bool,
    /// family `fork`: the child runs `child2` (serial prefix, burst, post) instead of `child`
    fork: Option<ForkArgs>,
}

#[derive(Clone)]
struct ForkArgs {
    wfar: u64,
    serial: Vec<usize>,
    burst: Vec<usize>,
    post: Vec<usize>,
    stop: bool,
}

struct ChildEnv {
    exe: PathBuf,
    out: PathBuf,
    blocks_file: PathBuf,
    el: u64,
}

static ABORT_STALLED: std::sync::atomic::AtomicU64 = std::sync::atomic::AtomicU64::new(0);
static STRANDED_ORPHANS: std::sync::atomic::AtomicU64 = std::sync::atomic::AtomicU64::new(0);

/// every child writes its stderr to its own file (next to its log)
fn own_stderr(job: &ChildJob) -> PathBuf {
    job.log.with_extension("err")
}

fn run_child(env: &ChildEnv, job: &ChildJob) -> ChildExit {
    use std::os::unix::process::ExitStatusExt;
    use std::process::{Command, Stdio};
    let mut c = Command::new(&env.exe);
    c.arg("C08").arg("--out").arg(&env.out);
    if let Some(f) = &job.fork {
        c.arg("child2").arg(&job.node_dir).arg(&env.blocks_file).arg(&job.log).arg(env.el.to_string()).arg(f.wfar.to_string());
        c.arg(show_ids(&f.serial)).arg(show_ids(&f.burst)).arg(show_ids(&f.post)).arg(if f.stop { "stop" } else { "wait" });
    } else {
        c.arg("child").arg(&job.node_dir).arg(&env.blocks_file).arg(&job.log).arg(env.el.to_string()).arg(show_ids(&job.ids));
        if job.fenced {
            c.arg("fenced");
        }
    }
    c.env_remove("VERIF_CRASH_AT");
    if let Some(s) = &job.crash {
        c.env("VERIF_CRASH_AT", s);
    }
    c.stdin(Stdio::null()).stdout(Stdio::null());
    let own = own_stderr(job);
    let _ = std::fs::remove_file(&own);
    match std::fs::OpenOptions::new().create(true).append(true).open(&own) {
        Ok(f) => {
            c.stderr(f);
        }
        Err(_) => {
            c.stderr(Stdio::null());
        }
    }
    let mut ch = c.spawn().expect("spawn child");
    let t0 = Instant::now();
    loop {
        match ch.try_wait().expect("wait child") {
            Some(st) => {
                // this child's stderr goes to the run's collected file as well
                let txt = std::fs::read_to_string(&own).unwrap_or_default();
                if let Ok(mut f) = std::fs::OpenOptions::new().create(true).append(true).open(&job.stderr) {
                    let _ = f.write_all(txt.as_bytes());
                }
                return match (st.code(), st.signal()) {
                    // The crash hook announced the abort (`std::process::abort()` entered at the chosen commit)
                    // but the process was still there when the child's own 60 s watchdog ended it with
                    // exit(3): the thread inside abort() never returns, nothing was shut down cleanly, so
                    // this IS the process death at that commit (seen once on a machine with load > 40).
                    (Some(3), _) if job.crash.is_some() && txt.contains("VERIF_CRASH_AT: abort") => {
                        ABORT_STALLED.fetch_add(1, std::sync::atomic::Ordering::Relaxed);
                        ChildExit::Signal(SIGABRT)
                    }
                    (Some(c), _) => ChildExit::Code(c),
                    (None, Some(s)) => ChildExit::Signal(s),
                    _ => ChildExit::Code(-1),
                };
            }
            None => {
                if t0.elapsed() > 5 * wait_timeout() {
                    let _ = ch.kill();
                    let _ = ch.wait();
                    return ChildExit::Timeout;
                }
                std::thread::sleep(Duration::from_millis(2));
            }
        }
    }
}

/// runs the jobs on `par` worker threads; `consume(i, exit)` is called on this thread in job order
fn run_jobs<F: FnMut(usize, ChildExit)>(env: &ChildEnv, jobs: &[ChildJob], par: usize, mut consume: F) {
    let next = std::sync::atomic::AtomicUsize::new(0);
    let (tx, rx) = std::sync::mpsc::channel::<(usize, ChildExit)>();
    std::thread::scope(|s| {
        for _ in 0..par.clamp(1, 8).min(jobs.len().max(1)) {
            let tx = tx.clone();
            let next = &next;
            s.spawn(move || loop {
                let i = next.fetch_add(1, std::sync::atomic::Ordering::SeqCst);
                if i >= jobs.len() {
                    break;
                }
                let r = run_child(env, &jobs[i]);
                if tx.send((i, r)).is_err() {
                    break;
                }
            });
        }
        drop(tx);
        let mut buf: BTreeMap<usize, ChildExit> = BTreeMap::new();
        let mut want = 0usize;
        while want < jobs.len() {
            if let Some(r) = buf.remove(&want) {
                consume(want, r);
                want += 1;
                continue;
            }
            match rx.recv() {
                Ok((i, r)) => {
                    buf.insert(i, r);
                }
                Err(_) => break,
            }
        }
    });
}

#[derive(Clone)]
struct Done {
    id: usize,
    count: u64,
    hint: String,
    line: String,
    /// commits of extra tip deliveries (`Runner::poke`) so far: not part of the protocol
    pokes: u64,
}

#[derive(Default)]
struct ChildLog {
    start: Option<u64>,
    dones: Vec<Done>,
    inflight: Option<(usize, u64)>,
    end: Option<u64>,
    hang: Option<String>,
    /// `child2`: commit counter when the burst started, ids handed over, the quiescent state after the burst
    burst_at: Option<u64>,
    sent: Vec<usize>,
    quiet: Option<(u64, String)>,
    /// number of `done` lines before the burst
    serial_dones: usize,
    /// commits of extra tip deliveries so far (see `Runner::poke`)
    pokes: u64,
    /// `final_line` of the node when the child had delivered everything
    final_line: Option<String>,
    /// fenced child (a restart): the state line after the start-up phase
    restarted: Option<String>,
}

fn parse_log(path: &Path) -> ChildLog {
    let mut l = ChildLog::default();
    let txt = std::fs::read_to_string(path).unwrap_or_default();
    for line in txt.lines() {
        if let Some(f) = line.strip_prefix("final ") {
            l.final_line = Some(f.to_string());
            continue;
        }
        if let Some(f) = line.strip_prefix("restarted ") {
            l.restarted = Some(f.to_string());
            continue;
        }
        let mut it = line.splitn(5, ' ');
        match it.next() {
            Some("start") => l.start = it.next().and_then(|x| x.parse().ok()),
            Some("begin") => {
                let id = it.next().and_then(|x| x.parse().ok());
                let c = it.next().and_then(|x| x.parse().ok());
                if let (Some(id), Some(c)) = (id, c) {
                    l.inflight = Some((id, c));
                }
            }
            Some("done") => {
                let id = it.next().and_then(|x| x.parse().ok());
                let c = it.next().and_then(|x| x.parse().ok());
                let hint = it.next();
                let rest = it.next();
                if let (Some(id), Some(count), Some(hint), Some(rest)) = (id, c, hint, rest) {
                    l.dones.push(Done { id, count, hint: hint.to_string(), line: rest.to_string(), pokes: l.pokes });
                    l.inflight = None;
                }
            }
            Some("end") => l.end = it.next().and_then(|x| x.parse().ok()),
            Some("hang") => l.hang = Some(line.to_string()),
            Some("poked") => l.pokes = it.next().and_then(|x| x.parse().ok()).unwrap_or(l.pokes),
            Some("burst") => {
                l.burst_at = it.next().and_then(|x| x.parse().ok());
                l.serial_dones = l.dones.len();
                l.inflight = None;
            }
            Some("sent") => {
                if let Some(id) = it.next().and_then(|x| x.parse().ok()) {
                    l.sent.push(id);
                }
            }
            Some("quiet") => {
                let c = it.next().and_then(|x| x.parse::<u64>().ok());
                let rest: Vec<&str> = it.collect();
                if let Some(c) = c {
                    l.quiet = Some((c, rest.join(" ")));
                }
            }
            _ => {}
        }
    }
    l
}

// ------------------------------------------------------------------------------------------------
// histories
// ------------------------------------------------------------------------------------------------

struct Hist {
    el: u64,
    cfg: NodeCfg,
    consensus: ckb_chain_spec::consensus::Consensus,
    /// index = id
    blks: Vec<Blk>,
    by_hash: HashMap<Byte32, usize>,
}

impl Hist {
    fn path(&self, id: usize) -> Vec<usize> {
        let mut v = vec![];
        let mut x = id;
        loop {
            v.push(x);
            if x == 0 {
                break;
            }
            x = self.blks[x].parent;
        }
        v.reverse();
        v
    }

    fn total_work(&self, id: usize) -> u128 {
        self.path(id).iter().map(|i| self.blks[*i].work).sum()
    }

    fn valid(&self, id: usize, delivered: &HashSet<usize>) -> bool {
        self.path(id).iter().all(|i| *i == 0 || (delivered.contains(i) && self.blks[*i].kind == Kind::Valid))
    }

    /// (maximal total work of a delivered fully valid chain, its head when unique)
    fn best(&self, delivered: &HashSet<usize>) -> (u128, Option<usize>) {
        let mut m = 0u128;
        let mut heads = vec![];
        for b in &self.blks {
            if self.valid(b.id, delivered) {
                let w = self.total_work(b.id);
                if w > m {
                    m = w;
                    heads = vec![b.id];
                } else if w == m {
                    heads.push(b.id);
                }
            }
        }
        (m, if heads.len() == 1 { Some(heads[0]) } else { None })
    }

    fn is_ancestor_or_self(&self, a: usize, mut b: usize) -> bool {
        loop {
            if a == b {
                return true;
            }
            if b == 0 {
                return false;
            }
            b = self.blks[b].parent;
        }
    }

    /// how the NUMBER_HASH column iterates: (number, hash bytes)
    fn scan_order(&self) -> Vec<usize> {
        let mut v: Vec<usize> = (1..self.blks.len()).collect();
        v.sort_by(|a, b| (self.blks[*a].num, self.blks[*a].hash.as_slice().to_vec()).cmp(&(self.blks[*b].num, self.blks[*b].hash.as_slice().to_vec())));
        v
    }

    fn fingerprint(&self, order: &[usize], extra: &[u64]) -> String {
        let mut h = 0xcbf29ce484222325u64;
        let mut eat = |x: u64| {
            for b in x.to_le_bytes() {
                h ^= b as u64;
                h = h.wrapping_mul(0x100000001b3);
            }
        };
        for b in &self.blks {
            eat(b.parent as u64);
            eat(b.kind as u64);
        }
        eat(u64::MAX);
        for a in order {
            eat(*a as u64);
        }
        eat(u64::MAX);
        for e in extra {
            eat(*e);
        }
        format!("{:016x}", h)
    }
}

struct TreeSpec {
    parent: Vec<usize>,
    kind: Vec<Kind>,
    height: Vec<u64>,
}

fn gen_tree(rng: &mut Rng, n: usize) -> TreeSpec {
    let mut parent = vec![0usize];
    let mut height = vec![0u64];
    for id in 1..=n {
        let r = rng.below(100);
        let p = if r < 55 {
            let mh = *height.iter().max().unwrap();
            let deepest: Vec<usize> = (0..id).filter(|i| height[*i] == mh).collect();
            *rng.pick(&deepest)
        } else if r < 85 {
            // a sibling of / just below the deepest blocks: forks that overtake, ties
            let mh = *height.iter().max().unwrap();
            let near: Vec<usize> = (0..id).filter(|i| height[*i] + 2 >= mh && height[*i] < mh).collect();
            if near.is_empty() { id - 1 } else { *rng.pick(&near) }
        } else {
            rng.below(id as u64) as usize
        };
        parent.push(p);
        height.push(height[p] + 1);
    }
    let mut kind = vec![Kind::Valid; n + 1];
    let mh = *height.iter().max().unwrap();
    let leaf = (0..=n).find(|i| height[*i] == mh).unwrap();
    let mut path = vec![];
    let mut x = leaf;
    while x != 0 {
        path.push(x);
        x = parent[x];
    }
    path.reverse();
    for _ in 0..rng.below(3) {
        let id = if !path.is_empty() && rng.chance(3, 4) {
            if rng.chance(2, 3) && path.len() >= 4 {
                let lo = path.len() / 4;
                let hi = path.len() - 1 - path.len() / 4;
                path[rng.range(lo as u64, hi as u64) as usize]
            } else {
                *rng.pick(&path)
            }
        } else {
            rng.range(1, n as u64) as usize
        };
        kind[id] = if rng.chance(3, 5) { Kind::Ctx } else { Kind::Nc };
    }
    TreeSpec { parent, kind, height }
}

/// The restrictions that keep the commit order of a serialised delivery deterministic: the orphan pool
/// holds at most one linear chain, and a non-contextually invalid block arrives before its children.
fn order_ok(t: &TreeSpec, order: &[usize]) -> bool {
    let mut delivered: HashSet<usize> = HashSet::new();
    delivered.insert(0);
    for id in order {
        let p = t.parent[*id];
        if t.kind[p] == Kind::Nc && !delivered.contains(&p) {
            return false;
        }
        delivered.insert(*id);
        let connected = |mut x: usize| {
            while x != 0 {
                if !delivered.contains(&x) {
                    return false;
                }
                x = t.parent[x];
            }
            true
        };
        let pool: Vec<usize> = delivered.iter().copied().filter(|x| !connected(*x)).collect();
        let mut parents = HashSet::new();
        let mut leaders = 0;
        for x in &pool {
            if !parents.insert(t.parent[*x]) {
                return false;
            }
            if !pool.contains(&t.parent[*x]) {
                leaders += 1;
            }
        }
        if leaders > 1 {
            return false;
        }
    }
    true
}

fn gen_order(rng: &mut Rng, t: &TreeSpec) -> Vec<usize> {
    let n = t.parent.len() - 1;
    let inorder: Vec<usize> = (1..=n).collect();
    let mut order = inorder.clone();
    let variant = rng.below(100);
    if variant < 35 {
        // pure in-order
    } else if variant < 75 {
        // one out-of-order linear segment p1 <- .. <- pk
        let cands: Vec<usize> = (1..=n).filter(|c| t.height[*c] >= 2).collect();
        if !cands.is_empty() {
            let c = *rng.pick(&cands);
            let k = rng.range(2, 4).min(t.height[c]) as usize;
            let mut seg = vec![c];
            while seg.len() < k {
                let p = t.parent[*seg.last().unwrap()];
                seg.push(p);
            }
            // seg = [pk, .., p1]
            let p1 = *seg.last().unwrap();
            let scrambled: Vec<usize> = if rng.chance(1, 2) {
                seg.clone()
            } else {
                // children in order, the first parent last
                let mut v: Vec<usize> = seg[..seg.len() - 1].iter().rev().copied().collect();
                v.push(p1);
                v
            };
            let mut o: Vec<usize> = inorder.iter().copied().filter(|i| *i < p1).collect();
            let rest: Vec<usize> = inorder.iter().copied().filter(|i| *i > p1 && !seg.contains(i)).collect();
            // non-descendants of p1 may be interleaved into the segment
            let is_desc = |mut x: usize| {
                while x != 0 {
                    if x == p1 {
                        return true;
                    }
                    x = t.parent[x];
                }
                false
            };
            let mut inter: Vec<usize> = vec![];
            if rng.chance(1, 2) {
                if let Some(x) = rest.iter().find(|x| !is_desc(**x)) {
                    inter.push(*x);
                }
            }
            let pos = rng.range(1, scrambled.len() as u64 - 1) as usize;
            for (i, s) in scrambled.iter().enumerate() {
                if i == pos {
                    o.extend(inter.iter().copied());
                }
                o.push(*s);
            }
            o.extend(rest.iter().copied().filter(|x| !inter.contains(x)));
            order = o;
        }
    } else {
        // a withheld block with one linear chain of descendants delivered; the block itself last or never
        let cands: Vec<usize> = (1..=n).filter(|w| (1..=n).any(|c| t.parent[c] == *w)).collect();
        if !cands.is_empty() {
            let w = *rng.pick(&cands);
            let mut keep = vec![];
            let mut x = w;
            loop {
                let ch: Vec<usize> = (1..=n).filter(|c| t.parent[*c] == x).collect();
                if ch.is_empty() || keep.len() >= 3 {
                    break;
                }
                x = *rng.pick(&ch);
                keep.push(x);
            }
            let is_desc = |mut x: usize| {
                while x != 0 {
                    if x == w {
                        return true;
                    }
                    x = t.parent[x];
                }
                false
            };
            let mut o: Vec<usize> = inorder.iter().copied().filter(|i| !is_desc(*i) || keep.contains(i)).collect();
            if rng.chance(1, 2) {
                o.push(w);
                // and the descendants left out, now in order
                o.extend(inorder.iter().copied().filter(|i| is_desc(*i) && *i != w && !keep.contains(i)));
            }
            order = o;
        }
    }
    if !order_ok(t, &order) {
        order = inorder.clone();
    }
    // duplicates (a verified block, an invalid block, a pooled orphan)
    let dups = rng.range(1, 3);
    for _ in 0..dups {
        let i = rng.below(order.len() as u64) as usize;
        let id = order[i];
        let pos = rng.range(i as u64 + 1, order.len() as u64) as usize;
        let mut o = order.clone();
        o.insert(pos, id);
        if order_ok(t, &o) {
            order = o;
        }
    }
    order
}

/// Family "deep": a verified main chain M1..Mh (h in 10..=15), then a competing, in the end heavier
/// branch B1..Bk forking at genesis / M1 / M2, delivered as ONE linear orphan chain: B2..Bk first
/// (stored without ext, pooled, most of them far more than 6 blocks below the tip), B1 last. The last
/// one or two M blocks may arrive between the B's.
fn gen_deep(rng: &mut Rng) -> (TreeSpec, Vec<usize>) {
    let h = rng.range(10, 15) as usize;
    let f = *rng.pick(&[0usize, 0, 1, 2]);
    let k = h - f + rng.range(1, 3) as usize;
    let mut parent = vec![0usize];
    let mut height = vec![0u64];
    for id in 1..=h {
        parent.push(id - 1);
        height.push(id as u64);
    }
    for j in 1..=k {
        let p = if j == 1 { f } else { h + j - 1 };
        parent.push(p);
        height.push(height[p] + 1);
    }
    let n = h + k;
    let mut kind = vec![Kind::Valid; n + 1];
    if rng.chance(1, 4) {
        // the branch breaks near its end
        kind[n - rng.below(3) as usize] = Kind::Ctx;
    }
    let tree = TreeSpec { parent, kind, height };
    let held = rng.below(3) as usize; // M blocks arriving between the B's
    let mut order: Vec<usize> = (1..=h - held).collect();
    let bs: Vec<usize> = (h + 2..=n).collect();
    let mut late: Vec<usize> = (h - held + 1..=h).collect();
    for (i, b) in bs.iter().enumerate() {
        if !late.is_empty() && i >= 1 && rng.chance(1, 3) {
            order.push(late.remove(0));
        }
        order.push(*b);
    }
    order.extend(late);
    order.push(h + 1);
    if rng.chance(1, 2) {
        // re-delivery of a pooled orphan (its pool entry is replaced)
        let i = rng.below(bs.len() as u64) as usize;
        let pos = order.iter().position(|x| *x == bs[i]).unwrap();
        let at = rng.range(pos as u64 + 1, order.len() as u64 - 1) as usize;
        let mut o = order.clone();
        o.insert(at, bs[i]);
        if order_ok(&tree, &o) {
            order = o;
        }
    }
    assert!(order_ok(&tree, &order), "deep history violates the delivery restrictions");
    (tree, order)
}

fn build_history(rng: &mut Rng, opts: &Opts, bdir: &Path, deep: bool) -> (Hist, ChainBuilder, Vec<usize>) {
    let el = if deep { rng.range(4, 5) } else { rng.range(3, 6) };
    let cfg = node_cfg(el);
    let consensus = make_consensus(&cfg);
    let (tree, order) = if deep {
        gen_deep(rng)
    } else {
        let n = if opts.thorough() { rng.range(8, 25) } else { rng.range(6, 14) } as usize;
        let tree = gen_tree(rng, n);
        let order = gen_order(rng, &tree);
        (tree, order)
    };
    let n = tree.parent.len() - 1;
    let mut builder = ChainBuilder::new(consensus.clone(), bdir);
    builder.max_branch_stores = 12;
    let mut blks = vec![genesis_blk(&consensus)];
    for id in 1..=n {
        let p = blks[tree.parent[id]].clone();
        let g = if p.id != 0 { Some(blks[p.parent].clone()) } else { None };
        let b = build_blk(&mut builder, id, &p, g.as_ref(), tree.kind[id]);
        blks.push(b);
    }
    let by_hash = hash_map(&blks);
    (Hist { el, cfg, consensus, blks, by_hash }, builder, order)
}

// ------------------------------------------------------------------------------------------------
// the consistency oracle on a database opened without services
// ------------------------------------------------------------------------------------------------

/// returns the persisted view and the ids stored without ext
fn check_store(out: &mut Out, db: &ChainDB, h: &Hist, builder: &mut ChainBuilder, what: &str) -> (StateView, Vec<usize>) {
    let v = view_of_store(db, &h.blks, &h.by_hash);
    let has_ext: HashSet<usize> = v.ext.iter().map(|(i, _)| *i).collect();
    let unext: Vec<usize> = v.stored.iter().copied().filter(|i| *i != 0 && !has_ext.contains(i)).collect();
    for id in &v.ext_false {
        out.oracle_fail("ext-false", &format!("{what}: block {id} has a persisted ext with verified == Some(false)"));
    }
    for b in h.blks.iter().skip(1) {
        if has_ext.contains(&b.id) && !has_ext.contains(&b.parent) {
            out.oracle_fail("ext-parent", &format!("{what}: block {} has an ext but its parent {} has none", b.id, b.parent));
        }
    }
    let Some(tip_header) = db.get_tip_header() else {
        out.oracle_fail("tip-missing", &format!("{what}: no tip header"));
        return (v, unext);
    };
    let tip_hash = tip_header.hash();
    match db.get_block_ext(&tip_hash) {
        None => out.oracle_fail("tip-missing", &format!("{what}: the tip {} has no ext", tip_hash)),
        Some(e) if e.verified != Some(true) => out.oracle_fail("tip-missing", &format!("{what}: the tip's ext has verified = {:?}", e.verified)),
        _ => {}
    }
    let Some(tip) = h.by_hash.get(&tip_hash).copied() else {
        out.oracle_fail("tip-invalid", &format!("{what}: the tip {} is not a block of the history", tip_hash));
        return (v, unext);
    };
    let path = h.path(tip);
    let on_path: HashSet<usize> = path.iter().copied().collect();
    for (i, id) in path.iter().enumerate() {
        let b = &h.blks[*id];
        let got = db.get_block_hash(i as u64);
        if got.as_ref() != Some(&b.hash) {
            out.oracle_fail("index", &format!("{what}: tip={tip}: number {i} maps to {:?}, the tip's ancestor there is block {id}", got.map(|g| h.by_hash.get(&g).copied())));
        }
        let n = db.get_block_number(&b.hash);
        if n != Some(i as u64) {
            out.oracle_fail("index", &format!("{what}: tip={tip}: main-chain block {id} has number index {n:?}, expected {i}"));
        }
        if !has_ext.contains(id) || !v.ver.contains(id) {
            out.oracle_fail("ancestor-unverified", &format!("{what}: tip={tip}: block {id} on the tip's path has no ext with verified == Some(true)"));
        }
        if b.kind != Kind::Valid {
            out.oracle_fail("tip-invalid", &format!("{what}: tip={tip}: block {id} on the tip's path is an invalid block"));
        }
    }
    if let Some(x) = db.get_block_hash(path.len() as u64) {
        out.oracle_fail("index", &format!("{what}: tip={tip} (number {}): the number index has an entry above the tip: {:?}", path.len() - 1, h.by_hash.get(&x)));
    }
    for b in &h.blks {
        if !on_path.contains(&b.id) {
            if let Some(n) = db.get_block_number(&b.hash) {
                out.oracle_fail("index", &format!("{what}: tip={tip}: block {} is not on the tip's path but has a number index {n}", b.id));
            }
        }
    }
    let want = h.total_work(tip);
    if v.td != want {
        out.oracle_fail("td", &format!("{what}: tip={tip}: ext.total_difficulty={} but the work along its path is {want}", v.td));
    }
    if path.iter().all(|i| h.blks[*i].kind == Kind::Valid) {
        let replay = builder.replay_store(&tip_hash);
        let mut bad = vec![];
        for b in &h.blks {
            for tx in b.block.transactions() {
                for i in 0..tx.outputs().len() {
                    let op = OutPoint::new(tx.hash(), i as u32);
                    if db.have_cell(&op) != replay.have_cell(&op) || db.get_cell(&op) != replay.get_cell(&op) {
                        bad.push(format!("blk{}/tx{}/{}:node_live={}", b.id, tx.hash(), i, db.have_cell(&op)));
                    }
                }
            }
        }
        if !bad.is_empty() {
            out.oracle_fail("cells", &format!("{what}: tip={tip}: live cells differ from a replay of the tip's path: {}", bad.join(",")));
        }
        let (a, b) = (db.get_current_epoch_ext(), replay.get_current_epoch_ext());
        if a != b {
            out.oracle_fail("cells", &format!("{what}: tip={tip}: current epoch ext {:?} differs from the replay's {:?}", a.map(|e| (e.number(), e.start_number(), e.length())), b.map(|e| (e.number(), e.start_number(), e.length()))));
        }
    }
    (v, unext)
}

/// The blocks InitLoadUnverified must pick up: an independent statement of the property's scan rule, NOT
/// taken from the implementation (orphan expiry = 6 epochs of at most `max_epoch_length` blocks; above
/// the tip only while every number has a candidate). The implementation's upper bound tip + 81920 is
/// unreachable here.
fn expected_scan(h: &Hist, tip: usize, unext: &[usize]) -> Vec<usize> {
    let t = h.blks[tip].num;
    let start = std::cmp::max(1, t.saturating_sub(6 * h.consensus.max_epoch_length()));
    let nums: HashSet<u64> = unext.iter().map(|i| h.blks[*i].num).collect();
    unext.iter().copied().filter(|c| {
        let n = h.blks[*c].num;
        n >= start && ((t + 1)..=n).all(|x| nums.contains(&x))
    }).collect()
}

// ------------------------------------------------------------------------------------------------
// recovery of a crashed directory in the parent
// ------------------------------------------------------------------------------------------------

/// Self-test of the crash-point dump (never set by bin/check): `VERIF_C08_TAMPER=<kind>` removes one row of
/// the crashed database before it is inspected, as a commit torn across column families would — the run
/// must then end with a VIOLATION. Kinds: txinfo, uncles, epnum, body (one of the six block-row columns of
/// the tip), mmr (the last chain-root MMR row), cell, index.
fn tamper(db: &ChainDB, kind: &str) {
    use ckb_db::iter::IteratorMode;
    use ckb_db_schema::*;
    let Some(tip) = db.get_tip_header() else { return };
    if tip.number() == 0 {
        return;
    }
    let txn = db.begin_transaction();
    let last = |col| db.get_iter(col, IteratorMode::Start).map(|(k, _)| k.to_vec()).last();
    match kind {
        "txinfo" => {
            if let Some(tx) = db.get_block(&tip.hash()).map(|b| b.transactions()[0].hash()) {
                txn.delete(COLUMN_TRANSACTION_INFO, tx.as_slice()).unwrap();
            }
        }
        "uncles" => {
            if let Some(k) = last(COLUMN_UNCLES) {
                txn.delete(COLUMN_UNCLES, &k).unwrap();
            }
        }
        "epnum" => txn.delete(COLUMN_EPOCH, &0u64.to_le_bytes()).unwrap(),
        "body" => txn.delete(COLUMN_BLOCK_PROPOSAL_IDS, tip.hash().as_slice()).unwrap(),
        "mmr" => {
            let size = ckb_merkle_mountain_range::leaf_index_to_mmr_size(tip.number());
            txn.delete_header_digest(size - 1).unwrap();
        }
        "cell" => {
            if let Some(k) = last(COLUMN_CELL) {
                txn.delete(COLUMN_CELL, &k).unwrap();
            }
        }
        "index" => txn.delete(COLUMN_INDEX, &tip.number().to_le_bytes()).unwrap(),
        _ => panic!("VERIF_C08_TAMPER: unknown kind {kind}"),
    }
    txn.commit().unwrap();
}

struct Crashed {
    view: StateView,
    unext: Vec<usize>,
    /// the full column dump (answer of op `dump`)
    dump: String,
}

/// (1) open the crashed database without services, evaluate the consistency oracle
fn inspect_crashed(out: &mut Out, h: &Hist, builder: &mut ChainBuilder, node_dir: &Path, what: &str) -> Option<Crashed> {
    let t_inspect = Instant::now();
    let path = node_dir.join("db");
    let db = match std::panic::catch_unwind(std::panic::AssertUnwindSafe(|| ChainDB::new(RocksDB::open_in(&path, COLUMNS), Default::default()))) {
        Ok(db) => db,
        Err(_) => {
            out.oracle_fail("open-failed", &format!("{what}: the crashed database cannot be opened"));
            return None;
        }
    };
    if let Ok(kind) = std::env::var("VERIF_C08_TAMPER") {
        tamper(&db, &kind);
    }
    let r = std::panic::catch_unwind(std::panic::AssertUnwindSafe(|| {
        let (view, unext) = check_store(out, &db, h, builder, what);
        let dump = store_dump(out, &db, h, builder, what);
        (view, unext, dump)
    }));
    drop(db);
    tick(&T_INSPECT_US, t_inspect);
    match r {
        Ok((view, unext, dump)) => Some(Crashed { view, unext, dump }),
        Err(_) => {
            out.oracle_fail("open-failed", &format!("{what}: reading the crashed database panicked"));
            None
        }
    }
}

fn start_node(out: &mut Out, h: &Hist, node_dir: &Path, what: &str) -> Option<Node> {
    let node = match std::panic::catch_unwind(std::panic::AssertUnwindSafe(|| Node::start(node_dir, h.consensus.clone(), &h.cfg))) {
        Ok(n) => n,
        Err(_) => {
            out.oracle_fail("open-failed", &format!("{what}: Node::start panicked on the crashed directory"));
            return None;
        }
    };
    let t0 = Instant::now();
    while node.controller().is_verifying_unverified_blocks_on_startup() {
        if t0.elapsed() > wait_timeout() {
            out.oracle_fail("hang", &format!("{what}: InitLoadUnverified did not finish within 60s"));
            std::mem::forget(node);
            return None;
        }
        std::thread::sleep(Duration::from_micros(500));
    }
    Some(node)
}

struct Redo<'a> {
    emit: bool,
    /// emit the tip fence as an ordinary `deliver <tip>` op right after `restart`
    tip_op: bool,
    /// the deliveries after the restart, in order
    post: &'a [usize],
    /// "diverged-after-remaining": after this many `post` deliveries (the blocks that were never
    /// inserted before the crash) the node must have reached (td, unique head)
    remaining: Option<(usize, (u128, Option<usize>))>,
    /// "diverged": (td, unique head) after all of `post`
    expect: Option<(u128, Option<usize>)>,
    /// `final_line` of the crash-free run (when `post` re-delivers the whole history)
    final_ref: Option<&'a str>,
}

fn check_converged(out: &mut Out, class: &str, when: &str, last: (Option<usize>, u128), want: (u128, Option<usize>), what: &str) {
    if last.1 != want.0 {
        out.oracle_fail(class, &format!("{what}: {when} td={} tip={:?}, the crash-free run ends with td={}", last.1, last.0, want.0));
    } else if let Some(hd) = want.1 {
        if last.0 != Some(hd) {
            out.oracle_fail(class, &format!("{what}: {when} tip={:?}, the unique heaviest valid chain ends in {hd}", last.0));
        }
    }
}

/// Steps (3)-(5): restart, fence, `restart` op, `deliver <tip>` op, then the `post` deliveries.
/// Returns the final (tip, td).
fn restart_and_redeliver(out: &mut Out, h: &Hist, builder: &mut ChainBuilder, node_dir: &Path, crashed: &Crashed, redo: &Redo, what: &str) -> Option<(Option<usize>, u128)> {
    let emit = redo.emit;
    let t_start = Instant::now();
    let node = start_node(out, h, node_dir, what)?;
    tick(&T_START_US, t_start);
    let t_red = Instant::now();
    let mut result = None;
    let mut dead = false;
    {
        let mut r = Runner::new(&node, &h.blks, true);
        let restart_op = format!("restart {} {}", h.consensus.max_epoch_length(), show_ids(&h.scan_order()));
        r.await_resolved = crashed.view.tip.map(|tip| expected_scan(h, tip, &crashed.unext)).unwrap_or_default();
        let ar = r.after_restart();
        r.await_resolved.clear();
        if let Err(e) = ar {
            out.oracle_fail("hang", &format!("{what}: after restart: {e}"));
            if emit {
                out.op(&restart_op, "hang");
            }
            dead = true;
        }
        if !dead {
            // not-requeued: every block that was stored without ext inside the scan window (computed
            // independently) must now have an ext, be deleted, or sit in the orphan pool. (With tip =
            // genesis there is no fence through the verify queue: give queued blocks a bounded time.)
            let scanned = crashed.view.tip.map(|tip| expected_scan(h, tip, &crashed.unext)).unwrap_or_default();
            let unresolved = |r: &Runner| -> Vec<usize> {
                let store = r.node.store();
                scanned.iter().copied().filter(|c| {
                    let hash = &h.blks[*c].hash;
                    store.get(COLUMN_BLOCK_HEADER, hash.as_slice()).is_some() && store.get_block_ext(hash).is_none() && !r.in_pool(*c)
                }).collect()
            };
            let w0 = Instant::now();
            let mut left = unresolved(&r);
            while !left.is_empty() && w0.elapsed() < wait_timeout() / 12 {
                std::thread::sleep(Duration::from_millis(10));
                left = unresolved(&r);
            }
            let v = r.view();
            for id in &v.ext_false {
                out.oracle_fail("ext-false", &format!("{what}: after restart: block {id} has a persisted ext with verified == Some(false)"));
            }
            if emit {
                out.op(&restart_op, &fmt_line(&[], &v));
                out.op(&format!("pview {} {}", h.cfg.window.0, h.cfg.window.1), &pview_answer(&node, h));
                let dl = store_dump_k(out, node.store(), h, builder, &format!("{what}: after the restart"), "restarted-node-full-column-dump-compared");
                out.op("dump", &dl);
            }
            // what start-up rebuilt, against the replay oracle over the stored main chain
            check_recon(out, h, builder, &node, &v, what, "after the restart");
            if let Some(t) = v.tip {
                count_uncle_distances(out, h, t, h.cfg.window.1);
            }
            // blocks still to be verified after this restart that commit a transaction proposed ONLY by an uncle
            let has_ext: HashSet<usize> = v.ext.iter().map(|(i, _)| *i).collect();
            for b in h.blks.iter().skip(1) {
                let g = &h.blks[h.blks[b.parent].parent];
                if !has_ext.contains(&b.id) && b.block.transactions().len() > 1 && g.own_props.is_empty() && !g.uncle_props.is_empty() && redo.post.contains(&b.id) {
                    out.count("commit-of-uncle-only-proposal-verified-after-restart");
                }
            }
            for _ in 0..scanned.len() {
                out.count("restart-requeued");
            }
            if !left.is_empty() {
                out.oracle_fail("not-requeued", &format!("{what}: after restart blocks {:?} are still stored without ext and are not in the orphan pool: InitLoadUnverified did not pick them up (crashed store: tip={:?} number {:?}, stored-without-ext={:?} with numbers {:?}); state: {}", left, crashed.view.tip, crashed.view.tip.map(|t| h.blks[t].num), crashed.unext, crashed.unext.iter().map(|i| h.blks[*i].num).collect::<Vec<_>>(), fmt_line(&[], &v)));
            }
            // the convergence oracle after the remaining blocks only applies when every stored-unverified
            // block is inside the correct scan window (otherwise it is legitimately left alone)
            let remaining = if scanned.len() == crashed.unext.len() { redo.remaining } else { None };
            if redo.remaining.is_some() && remaining.is_none() {
                out.count("remaining-oracle-skipped-outside-window");
            }
            let mut last = (v.tip, v.td);
            if let Some((0, want)) = remaining {
                check_converged(out, "diverged-after-remaining", "after the restart alone (every delivered block was already stored)", last, want, what);
            }
            // the tip fence as an ordinary op, then the deliveries
            let mut todo: Vec<(usize, bool)> = vec![];
            if emit && redo.tip_op {
                todo.push((v.tip.unwrap_or(0), false));
            }
            todo.extend(redo.post.iter().map(|i| (*i, true)));
            let mut done_post = 0usize;
            for (id, is_post) in todo {
                match r.deliver(id) {
                    Ok(d) => {
                        for x in &d.view.ext_false {
                            out.oracle_fail("ext-false", &format!("{what}: block {x} has a persisted ext with verified == Some(false)"));
                        }
                        if emit {
                            out.op(&format!("deliver {} {}", id, show_ids(&d.hint)), &fmt_line(&d.cbs, &d.view));
                            out.op(&format!("pview {} {}", h.cfg.window.0, h.cfg.window.1), &pview_answer(&node, h));
                            let dl = store_dump_k(out, node.store(), h, builder, &format!("{what}: after the delivery of {id} following the restart"), "restarted-node-full-column-dump-compared");
                            out.op("dump", &dl);
                        }
                        check_recon(out, h, builder, &node, &d.view, what, &format!("after the delivery of {id} following the restart"));
                        last = (d.view.tip, d.view.td);
                        if is_post {
                            done_post += 1;
                            if let Some((n, want)) = remaining {
                                if n == done_post {
                                    check_converged(out, "diverged-after-remaining", "after the restart and the delivery of the blocks that were never inserted before the crash", last, want, what);
                                }
                            }
                        }
                    }
                    Err(e) => {
                        out.oracle_fail("hang", &format!("{what}: re-delivery of {id} after restart: {e}"));
                        if emit {
                            out.op(&format!("deliver {} -", id), "hang");
                        }
                        dead = true;
                        break;
                    }
                }
            }
            if !dead {
                if let Some(want) = redo.expect {
                    check_converged(out, "diverged", "after re-delivering the whole history", last, want, what);
                }
                check_final(out, &node, redo.final_ref, what);
                result = Some(last);
            }
        }
    }
    if dead {
        // a wedged pipeline may never join: leak it
        std::mem::forget(node);
        return None;
    }
    tick(&T_REDELIVER_US, t_red);
    let t_stop = Instant::now();
    node.stop();
    tick(&T_STOP_US, t_stop);
    result
}

/// `scan <maxEpochLen> <order>`: which blocks must be resubmitted, from the crashed store's contents
fn emit_scan(out: &mut Out, h: &Hist, crashed: &Crashed) {
    let scanned: Vec<usize> = crashed.view.tip.map(|tip| expected_scan(h, tip, &crashed.unext)).unwrap_or_default();
    let order = h.scan_order();
    let listed: Vec<usize> = order.iter().copied().filter(|i| scanned.contains(i)).collect();
    out.op(&format!("scan {} {}", h.consensus.max_epoch_length(), show_ids(&order)), &show_ids(&listed));
}

// ------------------------------------------------------------------------------------------------
// generated run
// ------------------------------------------------------------------------------------------------

struct RefRun {
    k0: u64,
    total: u64,
    dones: Vec<Done>,
    /// commit counter before delivery i
    before: Vec<u64>,
    final_tip: Option<usize>,
    final_td: u128,
    reorg: Vec<bool>,
    any_reorg: bool,
    any_reject: bool,
    /// `final_line` of the crash-free run
    final_line: Option<String>,
}

fn tip_of(line: &str) -> Option<usize> {
    line_field(line, "tip=").and_then(|x| x.parse().ok())
}

fn td_of(line: &str) -> u128 {
    line_field(line, "td=").and_then(|x| x.parse().ok()).unwrap_or(0)
}

fn analyse_ref(h: &Hist, log: &ChildLog) -> Option<RefRun> {
    let k0 = log.start?;
    let total = log.end?;
    let mut before = vec![];
    let mut prev = k0;
    let mut reorg = vec![];
    let mut tip = 0usize;
    let mut any_reject = false;
    for d in &log.dones {
        before.push(prev);
        prev = d.count;
        let t = tip_of(&d.line).unwrap_or(0);
        reorg.push(t != tip && !h.is_ancestor_or_self(tip, t));
        tip = t;
        if d.line.contains(":err") {
            any_reject = true;
        }
    }
    let last = log.dones.last()?;
    Some(RefRun { k0, total, dones: log.dones.clone(), before, final_tip: tip_of(&last.line), final_td: td_of(&last.line), any_reorg: reorg.iter().any(|x| *x), reorg, any_reject, final_line: log.final_line.clone() })
}

fn describe_exit(e: &ChildExit, job: &ChildJob) -> String {
    let tail = std::fs::read_to_string(own_stderr(job)).unwrap_or_default();
    let tail: String = tail.lines().rev().take(6).collect::<Vec<_>>().into_iter().rev().collect::<Vec<_>>().join(" | ");
    format!("exit={e:?} crash={:?} stderr: {}", job.crash, tail)
}

fn emit_blks(out: &mut Out, h: &Hist) {
    emit_blks_opt(out, h, true);
}

/// the ids of the store dump (blocks by history id, transactions by first appearance, uncles)
fn dump_ids(h: &Hist) -> dump8::Ids {
    let blocks: Vec<&BlockView> = h.blks.iter().map(|b| b.block.as_ref()).collect();
    dump8::Ids::build(&blocks, h.consensus.genesis_epoch_ext().length())
}

/// `gtx` / `genesis` / `tx` / `body`: the content of every block for the model's store view
fn emit_bodies(out: &mut Out, h: &Hist) {
    for l in &dump_ids(h).lines {
        out.op(l, "ok");
    }
}

fn emit_blks_opt(out: &mut Out, h: &Hist, bodies: bool) {
    out.op(&format!("win {} {}", h.cfg.window.0, h.cfg.window.1), "ok");
    for b in &h.blks {
        out.op(&blk_line(b), "ok");
        if let Some(p) = prop_line(b) {
            out.op(&p, "ok");
        }
    }
    if bodies {
        emit_bodies(out, h);
    }
}

/// The full column dump of a (crashed) database — the answer of op `dump` — and, on the implementation
/// alone, the property: every column of the persisted main-chain view equals the same dump of a store that
/// only ever attached genesis..=persisted tip (`ChainBuilder::replay_store`), the per-block records of that
/// chain are all there, the chain-root MMR rows below the tip's size are the replay's, no block is torn.
fn store_dump<S: ChainStore>(out: &mut Out, db: &S, h: &Hist, builder: &mut ChainBuilder, what: &str) -> String {
    store_dump_k(out, db, h, builder, what, "crash-point-full-column-dump-compared")
}

fn store_dump_k<S: ChainStore>(out: &mut Out, db: &S, h: &Hist, builder: &mut ChainBuilder, what: &str, kind: &str) -> String {
    let ids = dump_ids(h);
    let gd = h.consensus.genesis_block().header().difficulty();
    let mut d = dump8::dump(db, &ids, &gd);
    let tip = db.get_tip_header();
    let tip_id = tip.as_ref().and_then(|t| h.by_hash.get(&t.hash()).copied());
    match (tip, tip_id) {
        (Some(t), Some(id)) if h.path(id).iter().all(|i| h.blks[*i].kind == Kind::Valid) => {
            let replay = builder.replay_store(&t.hash());
            let mut r = dump8::dump(replay, &ids, &gd);
            dump8::put_mmr(&mut d, db, Some(replay), t.number());
            dump8::put_mmr(&mut r, replay, None::<&ChainDB>, t.number());
            for (class, detail) in dump8::compare_with_replay(&d, &r) {
                out.oracle_fail(&class, &format!("{what}: tip={id}: {detail}"));
            }
            if d.sec.get("mmr") != r.sec.get("mmr") {
                out.oracle_fail("crash-mmr-neq-replay", &format!("{what}: tip={id}: chain-root MMR rows below the tip's size: node {:?} replay {:?}", d.sec.get("mmr"), r.sec.get("mmr")));
            }
        }
        (Some(t), _) => dump8::put_mmr(&mut d, db, None::<&ChainDB>, t.number()),
        _ => {}
    }
    if let Some(m) = d.sec.get("body") {
        for v in m.values().filter(|v| v.ends_with('!')) {
            out.oracle_fail("crash-torn-block", &format!("{what}: the block rows of {v} are only partly there"));
        }
    }
    out.count(kind);
    d.line()
}

fn classify(prev: &StateView, next: &StateView) -> &'static str {
    if next.stored.len() > prev.stored.len() {
        "crash-in-insert"
    } else if next.stored.len() < prev.stored.len() {
        "crash-in-delete"
    } else if next.ext.len() != prev.ext.len() || next.tip != prev.tip || next.ver != prev.ver {
        "crash-in-verify-commit"
    } else {
        "crash-in-rewrite"
    }
}

/// Step C: repeated crashes with deliveries in between. Crash n1 on a fresh directory (inside a delivery); a
/// second process on the same directory re-delivers the whole history and is killed at ITS n2-th commit —
/// during the start-up re-verification (op `crash2`: some prefix of it), or after the start-up phase inside a
/// delivery (ops `restart`, `deliver`…, `crashsome <id> <observed>`: the persisted state must be the one
/// between two commits of that delivery — the verification commit and the quiescence fence's re-insertion of
/// the tip are performed by two threads, so WHICH prefix is not determined), or it completes and is stopped.
/// Every op is compared with the model on the FULL state; then the usual recovery (`restart-state`,
/// `final-state-vs-crash-free`, convergence). Replay: the label carries `order=` (the ops are regenerated).
#[allow(clippy::too_many_arguments)]
fn multi_case(out: &mut Out, h: &Hist, builder: &mut ChainBuilder, env: &ChildEnv, base: &Path, tag: &str, order: &[usize], n1: u64, n2: u64, expect: Option<(u128, Option<usize>)>, final_ref: Option<&str>, stderr: &Path, hname: &str, begin: bool) {
    let dir = base.join(tag);
    let _ = std::fs::remove_dir_all(&dir);
    let j1 = ChildJob { node_dir: dir.clone(), log: base.join(format!("{tag}-1.log")), stderr: stderr.to_path_buf(), ids: order.to_vec(), crash: Some(format!("{n1}:before")), fenced: false, fork: None };
    let j2 = ChildJob { node_dir: dir.clone(), log: base.join(format!("{tag}-2.log")), stderr: stderr.to_path_buf(), ids: order.to_vec(), crash: Some(format!("{n2}:before")), fenced: true, fork: None };
    let _ = std::fs::remove_file(&j1.log);
    let _ = std::fs::remove_file(&j2.log);
    let cleanup = || {
        let _ = std::fs::remove_dir_all(&dir);
        let _ = std::fs::remove_file(&j1.log);
        let _ = std::fs::remove_file(&j2.log);
    };
    if begin {
        out.begin_case(&format!("multi el={} n1={} n2={} order={} {}", h.el, n1, n2, show_ids(order), hname));
        emit_blks(out, h);
    }
    let what = format!("{hname} repeated crashes n1={n1} n2={n2}");
    let restart_op = format!("restart {} {}", h.consensus.max_epoch_length(), show_ids(&h.scan_order()));
    // ---- first process
    let e1 = run_child(env, &j1);
    out.count("child-run");
    let l1 = parse_log(&j1.log);
    if !(e1 == ChildExit::Signal(SIGABRT) || e1 == ChildExit::Code(0)) {
        let class = if l1.hang.is_some() || e1 == ChildExit::Timeout { "hang" } else { "child-failed" };
        out.oracle_fail(class, &format!("{what}: first run: {} log-hang={:?}", describe_exit(&e1, &j1), l1.hang));
        cleanup();
        return;
    }
    for d in &l1.dones {
        out.op(&format!("deliver {} {}", d.id, d.hint), &d.line);
    }
    let Some(crashed1) = inspect_crashed(out, h, builder, &dir, &format!("{what} (after crash 1)")) else {
        cleanup();
        return;
    };
    match (&e1, l1.inflight) {
        (ChildExit::Signal(_), Some((id, c0))) => {
            out.op(&format!("crashdeliver {id} {}", n1 - c0), &fmt_line(&[], &crashed1.view));
            out.op("dump", &crashed1.dump);
        }
        (ChildExit::Signal(_), None) => out.count("crash-outside-delivery"),
        _ => out.count("first-run-completed"),
    }
    // ---- second process (a restart that re-delivers everything)
    let e2 = run_child(env, &j2);
    out.count("child-run");
    let l2 = parse_log(&j2.log);
    match e2 {
        ChildExit::Signal(SIGABRT) => out.count("second-crash"),
        ChildExit::Code(0) => out.count("second-run-completed"),
        _ => {
            let class = if l2.hang.is_some() || e2 == ChildExit::Timeout { "hang" } else { "child-failed" };
            out.oracle_fail(class, &format!("{what}: second run: {} log-hang={:?}", describe_exit(&e2, &j2), l2.hang));
            cleanup();
            return;
        }
    }
    let Some(crashed) = inspect_crashed(out, h, builder, &dir, &format!("{what} (after crash 2)")) else {
        cleanup();
        return;
    };
    out.count("crash-point");
    let obs = fmt_line(&[], &crashed.view);
    match (&l2.restarted, l2.start) {
        (Some(line), Some(_)) => {
            out.op(&restart_op, line);
            for d in &l2.dones {
                out.op(&format!("deliver {} {}", d.id, d.hint), &d.line);
            }
            if e2 == ChildExit::Signal(SIGABRT) {
                match l2.inflight {
                    Some((id, _)) => {
                        out.op(&format!("crashsome {} {}", id, obs.replace(' ', "|")), &obs);
                        out.op("dump", &crashed.dump);
                        out.count("second-crash-inside-delivery-after-startup-full-state-compared");
                    }
                    None => out.count("crash-outside-delivery"),
                }
            }
        }
        _ => {
            // killed before the start-up phase was over: some prefix of the re-verification
            out.op(&format!("crash2 {} {} {}", h.consensus.max_epoch_length(), show_ids(&h.scan_order()), obs.replace(' ', "|")), &obs);
            out.op("dump", &crashed.dump);
            out.count("second-level-crash-during-startup-reverification");
        }
    }
    if !crashed.unext.is_empty() {
        out.nontrivial(h.fingerprint(order, &[n1, n2, 7]));
    }
    let phase1: Vec<usize> = order.iter().copied().filter(|i| !crashed.view.stored.contains(i)).collect();
    let mut post = phase1.clone();
    post.extend(order.iter().copied());
    restart_and_redeliver(out, h, builder, &dir, &crashed, &Redo { emit: true, tip_op: true, post: &post, remaining: expect.map(|e| (phase1.len(), e)), expect, final_ref }, &what);
    cleanup();
}


/// Step C2: a second-level crash DURING the start-up re-verification, compared on the full persisted state.
/// Crash n1 on a fresh directory (a crash point of step B that left stored-without-ext blocks); a second
/// process is started on the directory with no deliveries at all and killed at ITS n2-th commit, i.e. while
/// InitLoadUnverified re-submits and the verify thread re-verifies. The persisted state must be the first
/// crash state advanced by SOME prefix of the re-verification (op `crash2`: the model enumerates the
/// prefixes; the two service threads interleave freely); then the usual recovery with every op compared.
#[allow(clippy::too_many_arguments)]
fn second_level_case(out: &mut Out, h: &Hist, builder: &mut ChainBuilder, env: &ChildEnv, base: &Path, tag: &str, order: &[usize], n1: u64, n2: u64, expect: Option<(u128, Option<usize>)>, final_ref: Option<&str>, stderr: &Path, hname: &str) {
    let dir = base.join(tag);
    let _ = std::fs::remove_dir_all(&dir);
    let j1 = ChildJob { node_dir: dir.clone(), log: base.join(format!("{tag}-1.log")), stderr: stderr.to_path_buf(), ids: order.to_vec(), crash: Some(format!("{n1}:before")), fenced: false, fork: None };
    let j2 = ChildJob { node_dir: dir.clone(), log: base.join(format!("{tag}-2.log")), stderr: stderr.to_path_buf(), ids: vec![], crash: Some(format!("{n2}:before")), fenced: true, fork: None };
    let _ = std::fs::remove_file(&j1.log);
    let _ = std::fs::remove_file(&j2.log);
    let cleanup = || {
        let _ = std::fs::remove_dir_all(&dir);
        let _ = std::fs::remove_file(&j1.log);
        let _ = std::fs::remove_file(&j2.log);
    };
    let what = format!("{hname} second-level crash n1={n1} n2={n2}");
    let e1 = run_child(env, &j1);
    out.count("child-run");
    let l1 = parse_log(&j1.log);
    let (Some((id, c0)), true) = (l1.inflight, e1 == ChildExit::Signal(SIGABRT)) else {
        out.count("second-level-first-crash-missed");
        cleanup();
        return;
    };
    out.begin_case(&format!("crash2 el={} n1={} n2={} {}", h.el, n1, n2, hname));
    emit_blks(out, h);
    for d in &l1.dones {
        out.op(&format!("deliver {} {}", d.id, d.hint), &d.line);
    }
    let Some(crashed1) = inspect_crashed(out, h, builder, &dir, &format!("{what} (after crash 1)")) else {
        out.op(&format!("crashdeliver {id} {}", n1 - c0), "unreadable");
        cleanup();
        return;
    };
    out.op(&format!("crashdeliver {id} {}", n1 - c0), &fmt_line(&[], &crashed1.view));
    out.op("dump", &crashed1.dump);
    let e2 = run_child(env, &j2);
    out.count("child-run");
    let l2 = parse_log(&j2.log);
    match e2 {
        ChildExit::Signal(SIGABRT) if l2.start.is_none() => out.count("second-level-crash-during-startup-reverification"),
        ChildExit::Signal(SIGABRT) | ChildExit::Code(0) => {
            // the start-up work needed fewer than n2 commits: the directory holds the completed restart
            out.count("second-level-startup-completed-first");
        }
        _ => {
            let class = if l2.hang.is_some() || e2 == ChildExit::Timeout { "hang" } else { "child-failed" };
            out.oracle_fail(class, &format!("{what}: second process: {} log-hang={:?}", describe_exit(&e2, &j2), l2.hang));
            cleanup();
            return;
        }
    }
    let Some(crashed2) = inspect_crashed(out, h, builder, &dir, &format!("{what} (after crash 2)")) else {
        cleanup();
        return;
    };
    out.count("crash-point");
    let obs = fmt_line(&[], &crashed2.view);
    out.op(&format!("crash2 {} {} {}", h.consensus.max_epoch_length(), show_ids(&h.scan_order()), obs.replace(' ', "|")), &obs);
    out.op("dump", &crashed2.dump);
    if crashed2.view.ext.len() > crashed1.view.ext.len() && !crashed2.unext.is_empty() {
        out.count("second-level-crash-mid-reverification");
        out.nontrivial(h.fingerprint(order, &[n1, n2, 13]));
    }
    let phase1: Vec<usize> = order.iter().copied().filter(|i| !crashed2.view.stored.contains(i)).collect();
    let mut post = phase1.clone();
    post.extend(order.iter().copied());
    restart_and_redeliver(out, h, builder, &dir, &crashed2, &Redo { emit: true, tip_op: true, post: &post, remaining: expect.map(|e| (phase1.len(), e)), expect, final_ref }, &what);
    cleanup();
}

fn one_history(out: &mut Out, opts: &Opts, rng: &mut Rng, base: &Path, hno: u64, exe: &Path) {
    let mut bdir = base.join(format!("b{hno}"));
    let thorough = opts.thorough();
    // a history whose reference run contains a reorg or a rejected block, if one of 3 attempts has one
    let deep = hno % 3 == 1;
    let mut chosen = None;
    for attempt in 0..3 {
        drop(chosen.take());
        bdir = base.join(format!("b{hno}-{attempt}"));
        let _ = std::fs::remove_dir_all(&bdir);
        let (h, builder, order) = build_history(rng, opts, &bdir, deep);
        let blocks_file = base.join(format!("h{hno}.blocks"));
        write_blocks(&blocks_file, &h.blks);
        let env = ChildEnv { exe: exe.to_path_buf(), out: opts.out.clone(), blocks_file, el: h.el };
        let job = ChildJob { node_dir: base.join(format!("h{hno}-ref")), log: base.join(format!("h{hno}-ref.log")), stderr: opts.out.join("child-stderr.txt"), ids: order.clone(), crash: None, fenced: false, fork: None };
        let _ = std::fs::remove_dir_all(&job.node_dir);
        let _ = std::fs::remove_file(&job.log);
        let exit = run_child(&env, &job);
        out.count("child-run");
        let log = parse_log(&job.log);
        let _ = std::fs::remove_dir_all(&job.node_dir);
        let rr = if exit == ChildExit::Code(0) { analyse_ref(&h, &log) } else { None };
        let interesting = deep || rr.as_ref().map(|r| r.any_reorg && (attempt > 0 || r.any_reject || hno % 2 == 1)).unwrap_or(true);
        chosen = Some((h, builder, order, env, job, exit, log, rr));
        if interesting || attempt == 2 {
            break;
        }
    }
    let (h, mut builder, order, env, refjob, exit, log, rr) = chosen.unwrap();
    let delivered: HashSet<usize> = order.iter().copied().collect();
    for b in &h.blks {
        if b.id != 0 && b.block.transactions().len() > 1 {
            out.count("block-with-committed-tx");
        }
    }

    // ---- Step A: the reference case
    if deep {
        out.count("history-deep");
    }
    out.begin_case(&format!("ref el={} hist={} n={}{}", h.el, hno, h.blks.len() - 1, if deep { " deep" } else { "" }));
    emit_blks(out, &h);
    let Some(rr) = rr else {
        let class = if log.hang.is_some() || exit == ChildExit::Timeout { "hang" } else { "child-failed" };
        out.oracle_fail(class, &format!("reference run: {} log-hang={:?}", describe_exit(&exit, &refjob), log.hang));
        for d in &log.dones {
            out.op(&format!("deliver {} {}", d.id, d.hint), &d.line);
        }
        return;
    };
    for d in &rr.dones {
        out.op(&format!("deliver {} {}", d.id, d.hint), &d.line);
        out.op("commits", &format!("{}", d.count - rr.k0 - d.pokes));
        if d.pokes > 0 {
            out.count("orphan-left-pooled-after-parent-verified-in-child");
        }
        out.count("deliver");
    }
    if rr.any_reorg {
        out.count("history-with-reorg");
    }
    if rr.any_reject {
        out.count("history-with-rejection");
    }
    let (best_td, best_head) = h.best(&delivered);
    if rr.final_td != best_td {
        // C01's property, not C08's: reported through the model diff; convergence is checked against the reference
        out.count("ref-not-maximal");
    }
    let expect = Some((rr.final_td, if best_head.is_some() && best_head == rr.final_tip { best_head } else { None }));

    // ---- Step B: every commit index
    let span = rr.total - rr.k0;
    let cap = 28u64;
    let mut ns: Vec<u64> = if thorough || span <= cap {
        ((rr.k0 + 1)..=rr.total).collect()
    } else {
        // always every commit of the last 3 deliveries, the rest evenly spread, about `cap` in all
        let tail_from = rr.before.get(rr.before.len().saturating_sub(3)).copied().unwrap_or(rr.k0) + 1;
        let mut v: Vec<u64> = (tail_from..=rr.total).collect();
        let head_span = tail_from - 1 - rr.k0;
        let m = cap.saturating_sub(v.len() as u64).max(8).min(head_span);
        if m >= 2 {
            v.extend((0..m).map(|i| rr.k0 + 1 + i * (head_span - 1) / (m - 1)));
        } else if head_span >= 1 {
            v.push(rr.k0 + 1);
        }
        v.sort();
        v
    };
    ns.dedup();
    let mut points: Vec<(u64, bool)> = vec![];
    for (i, n) in ns.iter().enumerate() {
        points.push((*n, false));
        if i % 3 == 2 {
            points.push((*n, true));
        }
    }
    let jobs: Vec<ChildJob> = points
        .iter()
        .map(|(n, after)| {
            let tag = format!("h{hno}-c{n}{}", if *after { "a" } else { "b" });
            ChildJob { node_dir: base.join(&tag), log: base.join(format!("{tag}.log")), stderr: opts.out.join("child-stderr.txt"), ids: order.clone(), crash: Some(format!("{n}:{}", if *after { "after" } else { "before" })), fenced: false, fork: None }
        })
        .collect();
    let mut good_n1: Vec<(u64, usize)> = vec![]; // (commit index, stored-without-ext blocks with a stored parent) for step C2
    let mut prev_view: Option<(u64, StateView, &'static str)> = None; // for the classification of commit n
    run_jobs(&env, &jobs, 4, |i, exit| {
        let (n, after) = points[i];
        let job = &jobs[i];
        out.count("child-run");
        let mode = if after { "after" } else { "before" };
        out.begin_case(&format!("crash el={} n={} mode={} hist={}", h.el, n, mode, hno));
        emit_blks(out, &h);
        let log = parse_log(&job.log);
        let what = format!("hist={hno} crash n={n} mode={mode}");
        for d in &log.dones {
            out.op(&format!("deliver {} {}", d.id, d.hint), &d.line);
        }
        let cleanup = || {
            let _ = std::fs::remove_dir_all(&job.node_dir);
            let _ = std::fs::remove_file(&job.log);
        };
        if exit != ChildExit::Signal(SIGABRT) {
            if exit == ChildExit::Code(0) {
                // the commit count of this run differs from the reference run's: not a property violation
                out.count("child-no-crash");
                eprintln!("C08: {what}: the child finished without reaching commit {n} (reference total {})", rr.total);
            } else {
                let class = if log.hang.is_some() || exit == ChildExit::Timeout { "hang" } else { "child-failed" };
                out.oracle_fail(class, &format!("{what}: {} log-hang={:?}", describe_exit(&exit, job), log.hang));
            }
            cleanup();
            return;
        }
        let Some((id, c0)) = log.inflight else {
            out.count("crash-outside-delivery");
            eprintln!("C08: {what}: crash outside a delivery (start={:?})", log.start);
            cleanup();
            return;
        };
        if log.start != Some(rr.k0) || rr.before.get(log.dones.len()) != Some(&c0) {
            out.count("commit-count-differs-from-reference");
        }
        let k = if after { n + 1 - c0 } else { n - c0 };
        out.count("crash-point");
        let Some(crashed) = inspect_crashed(out, &h, &mut builder, &job.node_dir, &what) else {
            out.op(&format!("crashdeliver {id} {k}"), "unreadable");
            cleanup();
            return;
        };
        out.op(&format!("crashdeliver {id} {k}"), &fmt_line(&[], &crashed.view));
        out.op("dump", &crashed.dump);
        // classification of the commit the crash preceded, from the next crash point's persisted state
        if !after {
            if let Some((pn, pv, _)) = &prev_view {
                if *pn + 1 == n {
                    out.count(classify(pv, &crashed.view));
                }
            }
            prev_view = Some((n, crashed.view.clone(), "before"));
        }
        let in_reorg = rr.reorg.get(log.dones.len()).copied().unwrap_or(false);
        if !crashed.unext.is_empty() || in_reorg {
            out.nontrivial(h.fingerprint(&order, &[n, after as u64]));
        }
        if in_reorg {
            out.count("crash-in-reorg-delivery");
        }
        if !crashed.unext.is_empty() {
            out.count("crash-with-unverified-stored");
        }
        if !after {
            // stored-without-ext blocks whose ancestors down to a block with an ext are all stored
            let exts: HashSet<usize> = crashed.view.ext.iter().map(|(i, _)| *i).collect();
            let connectable = crashed.unext.iter().filter(|u| {
                let mut x = h.blks[**u].parent;
                loop {
                    if exts.contains(&x) {
                        return true;
                    }
                    if !crashed.unext.contains(&x) {
                        return false;
                    }
                    x = h.blks[x].parent;
                }
            }).count();
            if connectable >= 2 {
                good_n1.push((n, connectable));
            }
        }
        if let Some(t) = crashed.view.tip {
            if crashed.unext.iter().any(|i| h.blks[*i].num + 6 < h.blks[t].num) {
                out.count("deep-stored-unverified-below-tip-6");
            }
        }
        emit_scan(out, &h, &crashed);
        // phase 1: only the blocks that were never inserted before the crash; phase 2: everything
        let phase1: Vec<usize> = order.iter().copied().filter(|i| !crashed.view.stored.contains(i)).collect();
        let mut post = phase1.clone();
        post.extend(order.iter().copied());
        restart_and_redeliver(out, &h, &mut builder, &job.node_dir, &crashed, &Redo { emit: true, tip_op: true, post: &post, remaining: expect.map(|e| (phase1.len(), e)), expect, final_ref: rr.final_line.as_deref() }, &what);
        cleanup();
    });

    // ---- Step C2: second-level crashes during the start-up re-verification (full persisted state compared)
    let want = if deep { 2 } else if thorough { 1 } else { 0 };
    good_n1.sort_by(|a, b| b.1.cmp(&a.1));
    good_n1.truncate(4);
    for j in 0..want.min(good_n1.len()) {
        let (n1, cnt) = good_n1[j % good_n1.len()];
        let n2 = rng.range(2, 2 * cnt as u64);
        second_level_case(out, &h, &mut builder, &env, base, &format!("h{hno}-s{j}"), &order, n1, n2, expect, rr.final_line.as_deref(), &opts.out.join("child-stderr.txt"), &format!("hist={hno}"));
    }
    // ---- Step C: repeated crashes (thorough)
    if (thorough || hno == 0) && hno % 2 == 0 && span >= 2 {
        for pair in 0..(if thorough { 3u64 } else { 1 }) {
            let n1 = rng.range(rr.k0 + 1, rr.total);
            let n2 = rng.range(1, span + 4);
            multi_case(out, &h, &mut builder, &env, base, &format!("h{hno}-m{pair}"), &order, n1, n2, expect, rr.final_line.as_deref(), &opts.out.join("child-stderr.txt"), &format!("hist={hno}"), true);
        }
    }
    let _ = std::fs::remove_file(&env.blocks_file);
    let _ = std::fs::remove_file(&refjob.log);
    drop(builder);
    let _ = std::fs::remove_dir_all(&bdir);
}


// ------------------------------------------------------------------------------------------------
// family `fork`: competing branches forking at low heights, burst delivery, crash / plain stop with many
// blocks stored without ext (pooled or queued) far below and above the tip, restart WITHOUT re-delivery
// ------------------------------------------------------------------------------------------------

struct ForkPlan {
    /// delivered one by one before the burst (a verified main-chain prefix)
    serial: Vec<usize>,
    /// handed over back to back
    burst: Vec<usize>,
    /// never received before the crash (connecting parents); delivered after the restart
    missing: Vec<usize>,
}

/// Main chain M1..Mh (h in 8..=25), one or two competing branches whose first block sits at height 1..=3.
/// Per branch: the first block X1 is `withheld` (the rest are orphans: stored without ext, pooled), or
/// arrives `last` (child-first delivery: the whole branch is released into the verify queue at once), or
/// `first` (in order, each block queued at once). A withheld branch may also withhold one block in its
/// upper part (a number gap in the stored candidates: the scan's cut rule above the tip). All blocks valid.
fn gen_fork(rng: &mut Rng, thorough: bool) -> (TreeSpec, ForkPlan) {
    let h = if thorough || rng.chance(1, 3) { rng.range(8, 25) } else { rng.range(8, 15) } as usize;
    let nb = if rng.chance(1, 2) { 2 } else { 1 };
    let mut parent = vec![0usize];
    let mut height = vec![0u64];
    for id in 1..=h {
        parent.push(id - 1);
        height.push(id as u64);
    }
    let mut forks = vec![0usize, 1, 2];
    rng.shuffle(&mut forks);
    let mut branches: Vec<Vec<usize>> = vec![];
    for j in 0..nb {
        let f = forks[j];
        let top = if j == 0 {
            if rng.chance(2, 3) { h + rng.range(1, 2) as usize } else { h - rng.below(3) as usize }
        } else {
            rng.range((h - 4) as u64, (h + 3) as u64) as usize
        };
        let k = top - f;
        let mut ids = vec![];
        for i in 0..k {
            let id = parent.len();
            let p = if i == 0 { f } else { id - 1 };
            parent.push(p);
            height.push(height[p] + 1);
            ids.push(id);
        }
        branches.push(ids);
    }
    let n = parent.len() - 1;
    let tree = TreeSpec { parent, kind: vec![Kind::Valid; n + 1], height };
    let held = if h < 12 { rng.below(2) } else { rng.below(4) } as usize;
    let serial: Vec<usize> = (1..=h - held).collect();
    let mut seqs: Vec<Vec<usize>> = vec![(h - held + 1..=h).collect()];
    let mut missing = vec![];
    let mut any_withheld = false;
    for (j, ids) in branches.iter().enumerate() {
        // the first branch is withheld in 2 of 3 histories; with two branches at least one is withheld
        let mode = if (j == 0 && rng.chance(2, 3)) || (j == 1 && !any_withheld) { 0 } else { rng.range(1, 2) };
        let mut rest: Vec<usize> = ids[1..].to_vec();
        if mode == 0 {
            any_withheld = true;
            missing.push(ids[0]);
            if rest.len() >= 6 && rng.chance(1, 3) {
                // a second withheld block in the upper part: a number gap among the stored candidates
                let m = rng.range((rest.len() - 4) as u64, (rest.len() - 2) as u64) as usize;
                missing.push(rest.remove(m));
            }
        }
        if rng.chance(1, 2) {
            rest.reverse(); // child-first
        }
        match mode {
            1 => rest.push(ids[0]),
            2 => {
                rest = ids.clone();
            }
            _ => {}
        }
        seqs.push(rest);
    }
    // random merge of the sequences (each keeps its internal order)
    let mut burst = vec![];
    loop {
        let live: Vec<usize> = (0..seqs.len()).filter(|i| !seqs[*i].is_empty()).collect();
        if live.is_empty() {
            break;
        }
        let i = *rng.pick(&live);
        let take = rng.range(1, 3).min(seqs[i].len() as u64) as usize;
        for _ in 0..take {
            burst.push(seqs[i].remove(0));
        }
    }
    if rng.chance(1, 2) {
        missing.reverse();
    }
    (tree, ForkPlan { serial, burst, missing })
}

fn build_fork_history(rng: &mut Rng, opts: &Opts, bdir: &Path) -> (Hist, ChainBuilder, ForkPlan, u64) {
    let el = rng.range(3, 5);
    let wfar = *rng.pick(&[4u64, 6, 10, 10]);
    let cfg = node_cfg_w(el, wfar);
    let consensus = make_consensus(&cfg);
    let (tree, plan) = gen_fork(rng, opts.thorough());
    let n = tree.parent.len() - 1;
    let mut builder = ChainBuilder::new(consensus.clone(), bdir);
    builder.max_branch_stores = 12;
    let mut blks = vec![genesis_blk(&consensus)];
    for id in 1..=n {
        let p = blks[tree.parent[id]].clone();
        let g = if p.id != 0 { Some(blks[p.parent].clone()) } else { None };
        let b = build_blk(&mut builder, id, &p, g.as_ref(), tree.kind[id]);
        blks.push(b);
    }
    let by_hash = hash_map(&blks);
    (Hist { el, cfg, consensus, blks, by_hash }, builder, plan, wfar)
}

/// Everything start-up rebuilds, as seen through the node's public accessors.
#[derive(PartialEq, Eq, Clone, Debug)]
struct Recon {
    tip: Option<usize>,
    td: u128,
    /// ids of the blocks whose proposal is in `Snapshot::proposals().gap()` / `.set()`
    gap: Vec<String>,
    set: Vec<String>,
    /// (number, start, length, last block hash of the previous epoch) of `Snapshot::epoch_ext()`
    snap_epoch: (u64, u64, u64, String),
    /// the stored current epoch
    db_epoch: Option<(u64, u64, u64, String)>,
    /// `get_block_status` per block id
    status: Vec<u32>,
    orph: usize,
    /// `is_verifying_unverified_blocks_on_startup`
    verifying: bool,
    /// size of `is_pending_verify` (0 while the tip is genesis: no fence exists there)
    pending: usize,
}

fn epoch_tuple(e: &ckb_types::core::EpochExt, by_hash: &HashMap<Byte32, usize>) -> (u64, u64, u64, String) {
    let l = e.last_block_hash_in_previous_epoch();
    (e.number(), e.start_number(), e.length(), by_hash.get(&l).map(|i| i.to_string()).unwrap_or_else(|| format!("{l}")))
}

/// proposal short id -> its small numeric name (own and uncles' proposals of every block of the history)
fn proposer_map(h: &Hist) -> HashMap<packed::ProposalShortId, u64> {
    h.blks.iter().flat_map(|b| b.own_props.iter().chain(b.uncle_props.iter())).map(|(n, id)| (id.clone(), *n)).collect()
}

fn name_ids(pm: &HashMap<packed::ProposalShortId, u64>, ids: &HashSet<packed::ProposalShortId>) -> Vec<String> {
    let mut known: Vec<u64> = ids.iter().filter_map(|i| pm.get(i).copied()).collect();
    known.sort();
    let mut v: Vec<String> = known.iter().map(|n| n.to_string()).collect();
    let mut unknown: Vec<String> = ids.iter().filter(|i| !pm.contains_key(*i)).map(|i| format!("{i:?}")).collect();
    unknown.sort();
    v.extend(unknown);
    v
}

fn show_names(v: &[String]) -> String {
    if v.is_empty() { "-".into() } else { v.join(",") }
}

/// `pview <close> <far>` answer: `Snapshot::proposals()` of the node
fn pview_answer(node: &Node, h: &Hist) -> String {
    let snap = node.shared.snapshot();
    let pm = proposer_map(h);
    format!("gap={} set={}", show_names(&name_ids(&pm, snap.proposals().gap())), show_names(&name_ids(&pm, snap.proposals().set())))
}

fn recon_of_node(node: &Node, h: &Hist) -> Recon {
    let snap = node.shared.snapshot();
    let pm = proposer_map(h);
    Recon {
        tip: h.by_hash.get(&snap.tip_hash()).copied(),
        td: u256_u128(snap.total_difficulty()),
        gap: name_ids(&pm, snap.proposals().gap()),
        set: name_ids(&pm, snap.proposals().set()),
        snap_epoch: epoch_tuple(snap.epoch_ext(), &h.by_hash),
        db_epoch: node.store().get_current_epoch_ext().map(|e| epoch_tuple(&e, &h.by_hash)),
        status: h.blks.iter().map(|b| node.shared.get_block_status(&b.hash).bits()).collect(),
        orph: node.controller().orphan_blocks_len(),
        verifying: node.controller().is_verifying_unverified_blocks_on_startup(),
        pending: if snap.tip_number() == 0 { 0 } else { node.controller().verif_pending_len().unwrap_or(0) },
    }
}

/// The proposal window over the tip's path, from the history alone (C20's rule, `ProposalTable::finalize`):
/// the next block has number `tip number + extra + 1` (`extra` = blocks without proposals appended above the
/// tip); `set` = union_proposal_ids (own AND uncles') of the path blocks at distance closest..=farthest, `gap`
/// = those closer. Names, sorted numerically, without duplicates.
fn window_names(h: &Hist, tip: usize, extra: u64, window: (u64, u64)) -> (Vec<String>, Vec<String>) {
    let path = h.path(tip);
    let n = h.blks[tip].num + extra;
    let cand = n + 1;
    let ids_in = |lo: u64, hi: u64| -> Vec<String> {
        let mut v: Vec<u64> = path.iter().filter(|i| **i != 0 && h.blks[**i].num >= lo && h.blks[**i].num <= hi).flat_map(|i| h.blks[*i].union_names()).collect();
        v.sort();
        v.dedup();
        v.iter().map(|x| x.to_string()).collect()
    };
    if cand <= window.0 {
        (vec![], ids_in(0, n))
    } else {
        let start = cand.saturating_sub(window.1);
        let end = cand - window.0;
        (ids_in(start, end), ids_in(end + 1, n))
    }
}

/// The replay oracle for `Recon`, from the history alone (no node): the window rule over the tip's path, the
/// epoch of the tip recomputed by a replay store, the work along the path, the status from the status map's
/// BLOCK_INVALID entries (`view.inv`) and the persisted ext (empty header map), nothing left verifying.
fn recon_oracle(h: &Hist, builder: &mut ChainBuilder, tip: usize, window: (u64, u64), view: &StateView) -> Recon {
    let (set, gap) = window_names(h, tip, 0, window);
    let replay = builder.replay_store(&h.blks[tip].hash);
    let e = replay.get_current_epoch_ext().map(|e| epoch_tuple(&e, &h.by_hash));
    let ext: HashSet<usize> = view.ext.iter().map(|(i, _)| *i).collect();
    let status = h.blks.iter().map(|b| {
        if view.inv.contains(&b.id) { BlockStatus::BLOCK_INVALID.bits() } else if view.ver.contains(&b.id) { BlockStatus::BLOCK_VALID.bits() } else if ext.contains(&b.id) { BlockStatus::BLOCK_STORED.bits() } else { BlockStatus::UNKNOWN.bits() }
    }).collect();
    Recon { tip: Some(tip), td: h.total_work(tip), gap, set, snap_epoch: e.clone().unwrap_or((0, 0, 0, "?".into())), db_epoch: e, status, orph: view.orph, verifying: false, pending: 0 }
}

/// counts, per distance below the restart tip, the main-chain blocks whose uncles carry an id the block does
/// not propose itself (generator coverage of the start-up reconstruction's uncle walk)
fn count_uncle_distances(out: &mut Out, h: &Hist, tip: usize, wfar: u64) {
    let tn = h.blks[tip].num;
    for i in h.path(tip) {
        let b = &h.blks[i];
        if !b.uncle_only_names().is_empty() && tn - b.num <= wfar + 1 {
            out.count(&format!("uncle-only-proposal-{}-below-restart-tip", tn - b.num));
        }
    }
}

fn recon_diff(a: &Recon, b: &Recon) -> String {
    let mut v = vec![];
    if a.tip != b.tip { v.push(format!("tip {:?} vs {:?}", a.tip, b.tip)); }
    if a.td != b.td { v.push(format!("total difficulty {} vs {}", a.td, b.td)); }
    if a.gap != b.gap { v.push(format!("proposals.gap (names: block id = its transaction, >=100000 = proposed only by an uncle) {:?} vs {:?}", a.gap, b.gap)); }
    if a.set != b.set { v.push(format!("proposals.set (names: block id = its transaction, >=100000 = proposed only by an uncle) {:?} vs {:?}", a.set, b.set)); }
    if a.snap_epoch != b.snap_epoch { v.push(format!("snapshot epoch {:?} vs {:?}", a.snap_epoch, b.snap_epoch)); }
    if a.db_epoch != b.db_epoch { v.push(format!("stored current epoch {:?} vs {:?}", a.db_epoch, b.db_epoch)); }
    if a.status != b.status {
        let d: Vec<String> = (0..a.status.len()).filter(|i| a.status[*i] != b.status[*i]).map(|i| format!("blk{}:{}/{}", i, a.status[i], b.status[i])).collect();
        v.push(format!("get_block_status {}", d.join(",")));
    }
    if a.orph != b.orph { v.push(format!("orphan pool size {} vs {}", a.orph, b.orph)); }
    if a.verifying != b.verifying { v.push(format!("is_verifying_unverified_blocks_on_startup {} vs {}", a.verifying, b.verifying)); }
    if a.pending != b.pending { v.push(format!("is_pending_verify size {} vs {}", a.pending, b.pending)); }
    v.join("; ")
}

/// `restart-state`: everything start-up rebuilt (and the running node maintains from there) against the
/// replay oracle over the stored main chain. Skipped while the tip is not a block of the history or its
/// path holds an invalid block (flagged elsewhere).
fn check_recon(out: &mut Out, h: &Hist, builder: &mut ChainBuilder, node: &Node, view: &StateView, what: &str, when: &str) -> Option<Recon> {
    let got = recon_of_node(node, h);
    let t = got.tip?;
    if h.path(t).iter().any(|i| h.blks[*i].kind != Kind::Valid) {
        return Some(got);
    }
    let want = recon_oracle(h, builder, t, h.cfg.window, view);
    if got != want {
        out.oracle_fail("restart-state", &format!("{what}: {when}: the node's state differs from a replay of the stored main chain genesis..{t} (node vs replay): {}", recon_diff(&got, &want)));
    }
    out.count("recon-compared");
    Some(got)
}

/// The tip-determined state of a node without block ids (a child process does not know them): tip hash, total
/// difficulty, `Snapshot::proposals()` (raw short ids), snapshot epoch and stored current epoch.
fn final_line(node: &Node) -> String {
    let snap = node.shared.snapshot();
    let hexset = |s: &HashSet<packed::ProposalShortId>| {
        let mut v: Vec<String> = s.iter().map(|i| hex(i.as_slice())).collect();
        v.sort();
        if v.is_empty() { "-".to_string() } else { v.join(",") }
    };
    let ep = |e: &ckb_types::core::EpochExt| format!("{}/{}/{}/{}", e.number(), e.start_number(), e.length(), hex(e.last_block_hash_in_previous_epoch().as_slice()));
    format!(
        "tip={} td={} gap={} set={} snap_epoch={} db_epoch={}",
        hex(snap.tip_hash().as_slice()),
        u256_u128(snap.total_difficulty()),
        hexset(snap.proposals().gap()),
        hexset(snap.proposals().set()),
        ep(snap.epoch_ext()),
        node.store().get_current_epoch_ext().map(|e| ep(&e)).unwrap_or("?".into())
    )
}

/// `final-state-vs-crash-free`: at the end of a recovery that received every block of the history, the
/// tip-determined state must equal the crash-free run's (compared when the tips agree; two heaviest chains of
/// equal work may legitimately end on different tips)
fn check_final(out: &mut Out, node: &Node, final_ref: Option<&str>, what: &str) {
    let Some(want) = final_ref else { return };
    let got = final_line(node);
    if line_field(&got, "tip=") != line_field(want, "tip=") {
        out.count("final-comparison-skipped-other-tip");
    } else {
        out.count("final-state-compared-with-crash-free-run");
        if got != want {
            out.oracle_fail("final-state-vs-crash-free", &format!("{what}: after the recovery and the delivery of every block the node is on the crash-free run's tip but its state differs (recovered vs crash-free): {got} vs {want}"));
        }
    }
}

struct ForkCase<'a> {
    h: &'a Hist,
    wfar: u64,
    plan: &'a ForkPlan,
    /// the `done` lines of the serial prefix from the crashed child's log
    serial_dones: &'a [Done],
    /// (td, unique head) of the crash-free run after everything was delivered
    expect: Option<(u128, Option<usize>)>,
    /// replay: the deliveries after the restart as recorded; generation: None = never-stored blocks, then
    /// (only if the scan legitimately left stored blocks alone) those
    post: Option<Vec<usize>>,
}

/// One crashed / stopped directory of family `fork`: ops `burstcrash`, `requeued`, `restart`, `deliver`…
/// and the oracles `burst-insert-order`, `not-requeued`, `restart-state` (vs the replay oracle),
/// `restart-vs-reference` (vs a never-crashed node at the same logical point), `diverged-after-remaining`.
fn fork_recover(out: &mut Out, fc: &ForkCase, builder: &mut ChainBuilder, tails: &mut HashMap<Byte32, Vec<BlockView>>, node_dir: &Path, ref_dir: &Path, what: &str) {
    let h = fc.h;
    for d in fc.serial_dones {
        out.op(&format!("deliver {} {}", d.id, d.hint), &d.line);
    }
    out.op("consts", &format!("mel={} expired={} bdw={}", h.consensus.max_epoch_length(), ckb_chain::VERIF_ORPHAN_EXPIRED_EPOCH, ckb_constant::sync::BLOCK_DOWNLOAD_WINDOW));
    out.count("fork-crash-point");
    let Some(crashed) = inspect_crashed(out, h, builder, node_dir, what) else {
        out.op(&format!("burstcrash {} 0 0", show_ids(&fc.plan.burst)), "unreadable");
        return;
    };
    // (i, v): inserts are performed in hand-over order by the one chain-service thread, verifications in
    // queue order by the one verify thread; all blocks are valid, so nothing is ever deleted
    let burst = &fc.plan.burst;
    let stored: HashSet<usize> = crashed.view.stored.iter().copied().collect();
    let has_ext: HashSet<usize> = crashed.view.ext.iter().map(|(i, _)| *i).collect();
    let i = burst.iter().take_while(|b| stored.contains(b)).count();
    if burst[i..].iter().any(|b| stored.contains(b)) {
        out.oracle_fail("burst-insert-order", &format!("{what}: the stored blocks {:?} are not a prefix of the hand-over order {:?}", crashed.view.stored, burst));
    }
    let v = burst.iter().filter(|b| has_ext.contains(b)).count();
    out.op(&format!("burstcrash {} {} {}", show_ids(burst), i, v), &fmt_line(&[], &crashed.view));
    out.op("dump", &crashed.dump);
    let Some(tip) = crashed.view.tip else { return };
    let tipn = h.blks[tip].num;
    if !crashed.unext.is_empty() {
        out.nontrivial(h.fingerprint(burst, &[i as u64, v as u64, 11]));
        out.count("crash-with-unverified-stored");
    }
    let below7 = crashed.unext.iter().filter(|u| h.blks[**u].num + 7 <= tipn).count();
    let above = crashed.unext.iter().filter(|u| h.blks[**u].num > tipn).count();
    let queued = crashed.unext.iter().filter(|u| { let p = h.blks[**u].parent; stored.contains(&p) }).count();
    if below7 > 0 { out.count("fork-unverified-7-or-more-below-tip"); out.count("deep-stored-unverified-below-tip-6"); }
    if below7 >= 3 { out.count("fork-3-or-more-unverified-7-below-tip"); }
    if above > 0 { out.count("fork-unverified-above-tip"); }
    if queued > 0 { out.count("fork-unverified-with-stored-parent"); }
    if crashed.unext.iter().any(|u| h.blks[*u].num == 1) { out.count("fork-unverified-at-window-lower-edge-1"); }
    let h_main = (1..h.blks.len()).take_while(|x| h.blks[*x].parent == *x - 1).count();
    if tip > h_main { out.count("fork-crash-after-reorg-to-branch"); }
    let scanned = expected_scan(h, tip, &crashed.unext);
    let all_in = scanned.len() == crashed.unext.len();
    if !all_in { out.count("fork-scan-cut-by-number-gap-above-tip"); }
    let mel = h.consensus.max_epoch_length();
    let order = h.scan_order();

    // ---- restart (no re-delivery)
    let t_start = Instant::now();
    let Some(node) = start_node(out, h, node_dir, what) else { return };
    tick(&T_START_US, t_start);
    let t_red = Instant::now();
    let mut r = Runner::new(&node, &h.blks, true);
    r.await_resolved = scanned.clone();
    let ar = r.after_restart();
    r.await_resolved.clear();
    if let Err(e) = ar {
        out.oracle_fail("hang", &format!("{what}: after restart: {e}"));
        out.op(&format!("requeued {} {}", mel, show_ids(&order)), "hang");
        drop(r);
        std::mem::forget(node);
        return;
    }
    let resolved = |r: &Runner, c: usize| -> bool {
        let store = r.node.store();
        let hash = &h.blks[c].hash;
        store.get(COLUMN_BLOCK_HEADER, hash.as_slice()).is_none() || store.get_block_ext(hash).is_some() || r.in_pool(c)
    };
    // the set the start-up scan re-submitted, as observable: has an ext now, was deleted, or sits in the pool
    let observed: Vec<usize> = order.iter().copied().filter(|c| crashed.unext.contains(c) && resolved(&r, *c)).collect();
    out.op(&format!("requeued {} {}", mel, show_ids(&order)), &show_ids(&observed));
    for _ in 0..observed.len() { out.count("restart-requeued"); }
    let left: Vec<usize> = scanned.iter().copied().filter(|c| !observed.contains(c)).collect();
    if !left.is_empty() {
        out.oracle_fail("not-requeued", &format!("{what}: after restart blocks {:?} (numbers {:?}) are still stored without ext and are not in the orphan pool: InitLoadUnverified did not pick them up (crashed store: tip={tip} number {tipn}, stored-without-ext={:?} with numbers {:?})", left, left.iter().map(|i| h.blks[*i].num).collect::<Vec<_>>(), crashed.unext, crashed.unext.iter().map(|i| h.blks[*i].num).collect::<Vec<_>>()));
    }
    let v0 = r.view();
    out.op(&format!("restart {} {}", mel, show_ids(&order)), &fmt_line(&[], &v0));

    // ---- what start-up rebuilt: against the model (`pview`) and the replay oracle ...
    out.op(&format!("pview {} {}", WINDOW.0, fc.wfar), &pview_answer(&node, h));
    let dl0 = store_dump_k(out, node.store(), h, builder, &format!("{what}: after the restart"), "restarted-node-full-column-dump-compared");
    out.op("dump", &dl0);
    let got0 = check_recon(out, h, builder, &node, &v0, what, "after the restart");
    count_uncle_distances(out, h, tip, fc.wfar);

    // ---- ... and against a never-crashed node that received exactly the blocks this one had stored
    let _ = std::fs::remove_dir_all(ref_dir);
    let refnode = Node::start(ref_dir, h.consensus.clone(), &h.cfg);
    let mut rr = Runner::new(&refnode, &h.blks, false);
    let mut ref_ok = true;
    for id in fc.plan.serial.iter().chain(burst[..i].iter()) {
        if let Err(e) = rr.deliver(*id) {
            out.oracle_fail("hang", &format!("{what}: reference node: delivery of {id}: {e}"));
            ref_ok = false;
            break;
        }
    }
    let vs_ref = |out: &mut Out, got: &Option<Recon>, refnode: &Node, when: &str| {
        if let Some(g) = got {
            // whether a block OFF the tip's path got `verified = Some(true)` or only an ext depends on the
            // order of verification (the scan re-submits by number): BLOCK_VALID ~ BLOCK_STORED there
            let canon = |mut x: Recon| {
                let path: HashSet<usize> = x.tip.map(|t| h.path(t).into_iter().collect()).unwrap_or_default();
                for (i, st) in x.status.iter_mut().enumerate() {
                    if !path.contains(&i) && *st == BlockStatus::BLOCK_VALID.bits() {
                        *st = BlockStatus::BLOCK_STORED.bits();
                    }
                }
                x
            };
            let w = canon(recon_of_node(refnode, h));
            let g = &canon(g.clone());
            if g.tip != w.tip && g.td == w.td {
                // two heaviest chains of equal work: which one was verified first (scan order by number vs
                // hand-over order) decides the tip; everything else hangs on the tip
                out.count("reference-comparison-skipped-tie");
            } else if *g != w {
                out.oracle_fail("restart-vs-reference", &format!("{what}: {when}: the restarted node differs from a never-crashed node that received the same blocks (restarted vs reference): {}", recon_diff(g, &w)));
            }
        }
    };
    if ref_ok && all_in {
        vs_ref(out, &got0, &refnode, "after the restart");
        out.count("recon-vs-reference");
    }

    // ---- only the blocks the node never stored
    let never: Vec<usize> = burst[i..].iter().copied().chain(fc.plan.missing.iter().copied()).collect();
    let post: Vec<usize> = fc.post.clone().unwrap_or_else(|| never.clone());
    let wfar = fc.wfar;
    let mut delivered: HashSet<usize> = stored.iter().copied().filter(|x| *x != 0).collect();
    let mut last = (v0.tip, v0.td);
    let mut dead = false;
    let mut checked_remaining = false;
    let deliver_both = |out: &mut Out, builder: &mut ChainBuilder, r: &mut Runner, rr: &mut Runner, id: usize, ref_ok: &mut bool, compare: bool, last: &mut (Option<usize>, u128)| -> bool {
        match r.deliver(id) {
            Ok(d) => {
                out.op(&format!("deliver {} {}", id, show_ids(&d.hint)), &fmt_line(&d.cbs, &d.view));
                out.op(&format!("pview {} {}", WINDOW.0, wfar), &pview_answer(r.node, h));
                let dl = store_dump_k(out, r.node.store(), h, builder, &format!("{what}: after the delivery of {id} following the restart"), "restarted-node-full-column-dump-compared");
                out.op("dump", &dl);
                *last = (d.view.tip, d.view.td);
                let got = check_recon(out, h, builder, r.node, &d.view, what, &format!("after the delivery of {id} following the restart"));
                if *ref_ok {
                    if let Err(e) = rr.deliver(id) {
                        out.oracle_fail("hang", &format!("{what}: reference node: delivery of {id}: {e}"));
                        *ref_ok = false;
                    } else if compare {
                        vs_ref(out, &got, rr.node, &format!("after the delivery of {id} following the restart"));
                    }
                }
                true
            }
            Err(e) => {
                out.oracle_fail("hang", &format!("{what}: delivery of {id} after restart: {e}"));
                out.op(&format!("deliver {} -", id), "hang");
                false
            }
        }
    };
    let never_set: HashSet<usize> = never.iter().copied().collect();
    for (j, id) in post.iter().enumerate() {
        if !deliver_both(out, builder, &mut r, &mut rr, *id, &mut ref_ok, all_in, &mut last) {
            dead = true;
            break;
        }
        delivered.insert(*id);
        // as soon as every never-stored block has been delivered (and nothing that was stored):
        if !checked_remaining && all_in && never_set.iter().all(|x| delivered.contains(x)) && post[..=j].iter().all(|x| never_set.contains(x)) {
            checked_remaining = true;
            if let Some(want) = fc.expect {
                check_converged(out, "diverged-after-remaining", "after the restart and the delivery of ONLY the blocks that were never stored before the crash", last, want, what);
                out.count("converged-without-redelivery-checked");
            }
        }
    }
    if !dead && fc.post.is_some() {
        // replay: when the recorded deliveries cover every never-stored block and every block the scan left alone
        let covered = never_set.iter().all(|x| post.contains(x)) && crashed.unext.iter().all(|c| scanned.contains(c) || post.contains(c));
        if covered {
            if let Some(want) = fc.expect {
                check_converged(out, "diverged", "after the recorded deliveries (every never-stored block and every block the scan left alone)", last, want, what);
            }
        }
    }
    if !dead && fc.post.is_none() {
        if never.is_empty() && all_in {
            if let Some(want) = fc.expect {
                check_converged(out, "diverged-after-remaining", "after the restart alone (every block was already stored)", last, want, what);
                out.count("converged-without-redelivery-checked");
            }
        }
        if !all_in {
            // the scan legitimately left blocks alone (number gap above the tip): the sync layer would fetch
            // them again; with them re-delivered the node must converge
            let extra: Vec<usize> = crashed.unext.iter().copied().filter(|c| !scanned.contains(c)).collect();
            for id in extra {
                if !deliver_both(out, builder, &mut r, &mut rr, id, &mut ref_ok, false, &mut last) {
                    dead = true;
                    break;
                }
            }
            if !dead {
                if let Some(want) = fc.expect {
                    check_converged(out, "diverged", "after re-delivering the blocks the scan left alone", last, want, what);
                }
                if ref_ok {
                    let g = Some(recon_of_node(&node, h));
                    vs_ref(out, &g, &refnode, "at the end");
                }
            }
        }
    }
    drop(r);
    drop(rr);
    // ---- the proposal TABLE (not only the view derived from it at start-up): w_far + 1 blocks without
    // proposals on top of the final tip, on both nodes; every row start-up rebuilt slides through gap and set
    if !dead && ref_ok && all_in && node.tip_hash() == refnode.tip_hash() {
        if let Some(t) = h.by_hash.get(&node.tip_hash()).copied() {
            let tail = tails.entry(h.blks[t].hash.clone()).or_insert_with(|| {
                let mut v: Vec<BlockView> = vec![];
                let mut parent = h.blks[t].hash.clone();
                for k in 1..=wfar + 1 {
                    let b = builder.build(&parent, &BlockSpec { salt: 8_000_000 + k, ..Default::default() });
                    parent = b.hash();
                    v.push(b);
                }
                v
            });
            let canon_off = |mut x: Recon| {
                for st in x.status.iter_mut() {
                    if *st == BlockStatus::BLOCK_VALID.bits() {
                        *st = BlockStatus::BLOCK_STORED.bits();
                    }
                }
                x
            };
            for (k, b) in tail.iter().enumerate() {
                let (ra, rb) = (node.process(b), refnode.process(b));
                if ra.is_ok() != rb.is_ok() {
                    out.oracle_fail("restart-vs-reference", &format!("{what}: block {} without proposals on top of the final tip {t}: restarted node {:?}, never-crashed node {:?}", k + 1, ra, rb));
                    break;
                }
                if ra.is_err() {
                    out.count("tail-block-rejected-by-both");
                    break;
                }
                let (ga, gb) = (canon_off(recon_of_node(&node, h)), canon_off(recon_of_node(&refnode, h)));
                if ga != gb {
                    out.oracle_fail("restart-vs-reference", &format!("{what}: {} blocks without proposals above the final tip {t}: the restarted node differs from the never-crashed node (restarted vs reference): {}", k + 1, recon_diff(&ga, &gb)));
                    break;
                }
                let (set, gap) = window_names(h, t, k as u64 + 1, (WINDOW.0, wfar));
                if ga.set != set || ga.gap != gap {
                    out.oracle_fail("restart-state", &format!("{what}: {} blocks without proposals above the final tip {t}: proposals gap={:?} set={:?}, the window over the chain gives gap={gap:?} set={set:?}", k + 1, ga.gap, ga.set));
                    break;
                }
                out.count("tail-probe-compared");
            }
        }
    }
    tick(&T_REDELIVER_US, t_red);
    if dead {
        std::mem::forget(node);
        std::mem::forget(refnode);
        return;
    }
    let t_stop = Instant::now();
    node.stop();
    refnode.stop();
    tick(&T_STOP_US, t_stop);
    let _ = std::fs::remove_dir_all(ref_dir);
}

fn fork_history(out: &mut Out, opts: &Opts, rng: &mut Rng, base: &Path, hno: u64, exe: &Path) {
    let bdir = base.join(format!("fb{hno}"));
    let _ = std::fs::remove_dir_all(&bdir);
    let (h, mut builder, plan, wfar) = build_fork_history(rng, opts, &bdir);
    let blocks_file = base.join(format!("f{hno}.blocks"));
    write_blocks(&blocks_file, &h.blks);
    let env = ChildEnv { exe: exe.to_path_buf(), out: opts.out.clone(), blocks_file, el: h.el };
    let stderr = opts.out.join("child-stderr.txt");
    let fa = |stop: bool| ForkArgs { wfar, serial: plan.serial.clone(), burst: plan.burst.clone(), post: plan.missing.clone(), stop };
    let mk = |tag: &str, crash: Option<String>, stop: bool| {
        let job = ChildJob { node_dir: base.join(tag), log: base.join(format!("{tag}.log")), stderr: stderr.clone(), ids: vec![], crash, fenced: false, fork: Some(fa(stop)) };
        let _ = std::fs::remove_dir_all(&job.node_dir);
        let _ = std::fs::remove_file(&job.log);
        job
    };
    out.count("history-fork");
    // ---- the crash-free reference run
    let refjob = mk(&format!("f{hno}-ref"), None, false);
    let exit = run_child(&env, &refjob);
    out.count("child-run");
    let log = parse_log(&refjob.log);
    let _ = std::fs::remove_dir_all(&refjob.node_dir);
    let label = format!("el={} wf={} hist={} n={} serial={} burst={} missing={}", h.el, wfar, hno, h.blks.len() - 1, plan.serial.len(), show_ids(&plan.burst), show_ids(&plan.missing));
    out.begin_case(&format!("reffork {label}"));
    emit_blks(out, &h);
    for d in &log.dones[..log.serial_dones.min(log.dones.len())] {
        out.op(&format!("deliver {} {}", d.id, d.hint), &d.line);
        out.count("deliver");
    }
    let complete = exit == ChildExit::Code(0) && log.burst_at.is_some() && log.quiet.is_some() && log.end.is_some() && log.dones.len() == plan.serial.len() + plan.missing.len();
    if !complete {
        let class = if log.hang.is_some() || exit == ChildExit::Timeout { "hang" } else { "child-failed" };
        out.oracle_fail(class, &format!("fork reference run: {} log-hang={:?}", describe_exit(&exit, &refjob), log.hang));
        return;
    }
    let (kq, qline) = log.quiet.clone().unwrap();
    out.op(&format!("burst {}", show_ids(&plan.burst)), &format!("td={}", td_of(&qline)));
    for d in &log.dones[log.serial_dones..] {
        out.op(&format!("deliver {} {}", d.id, d.hint), &d.line);
        out.count("deliver");
    }
    let fin = if log.dones.len() > log.serial_dones { log.dones.last().unwrap().line.clone() } else { qline.clone() };
    let (final_tip, final_td) = (tip_of(&fin), td_of(&fin));
    let delivered: HashSet<usize> = plan.serial.iter().chain(plan.burst.iter()).chain(plan.missing.iter()).copied().collect();
    let (best_td, best_head) = h.best(&delivered);
    if final_td != best_td {
        out.count("ref-not-maximal");
    }
    let expect = Some((final_td, if best_head.is_some() && best_head == final_tip { best_head } else { None }));
    if h.blks.iter().map(|b| b.epoch).max().unwrap_or(0) >= 2 {
        out.count("fork-history-crossing-2-epoch-boundaries");
    }
    // ---- crash points inside the burst (commit indexes kb+1 ..= kq) and a plain stop
    let kb = log.burst_at.unwrap();
    let span = kq.saturating_sub(kb);
    let mut offs: Vec<u64> = if opts.thorough() || span <= 10 {
        (1..=span).collect()
    } else {
        let mut v = vec![1, 2, span / 4, span / 2, span / 2 + 1, 3 * span / 4, span - 1, span];
        for _ in 0..2 {
            v.push(rng.range(1, span));
        }
        v
    };
    offs.retain(|o| *o >= 1 && *o <= span);
    offs.sort();
    offs.dedup();
    let mut specs: Vec<(Option<u64>, bool, bool)> = vec![]; // (offset, after, stop)
    for (j, o) in offs.iter().enumerate() {
        specs.push((Some(*o), j % 3 == 1, false));
    }
    specs.push((None, false, true));
    let jobs: Vec<ChildJob> = specs
        .iter()
        .map(|(o, after, stop)| match o {
            Some(o) => mk(&format!("f{hno}-c{}{}", kb + o, if *after { "a" } else { "b" }), Some(format!("{}:{}", kb + o, if *after { "after" } else { "before" })), false),
            None => mk(&format!("f{hno}-stop"), None, *stop),
        })
        .collect();
    let ref_dir = base.join(format!("f{hno}-inproc-ref"));
    let mut tails: HashMap<Byte32, Vec<BlockView>> = HashMap::new();
    run_jobs(&env, &jobs, 4, |ji, exit| {
        let (o, after, stop) = specs[ji];
        let job = &jobs[ji];
        out.count("child-run");
        let mode = if stop { "stop".to_string() } else { format!("n={} mode={}", kb + o.unwrap_or(0), if after { "after" } else { "before" }) };
        out.begin_case(&format!("crashfork {mode} {label}"));
        emit_blks(out, &h);
        let clog = parse_log(&job.log);
        let what = format!("fork hist={hno} {mode}");
        let cleanup = || {
            let _ = std::fs::remove_dir_all(&job.node_dir);
            let _ = std::fs::remove_file(&job.log);
        };
        let want_exit = if stop { ChildExit::Code(0) } else { ChildExit::Signal(SIGABRT) };
        if exit != want_exit || clog.burst_at.is_none() {
            if !stop && exit == ChildExit::Code(0) {
                out.count("child-no-crash");
            } else if exit == ChildExit::Signal(SIGABRT) && clog.burst_at.is_none() {
                out.count("crash-outside-burst");
            } else {
                let class = if clog.hang.is_some() || exit == ChildExit::Timeout { "hang" } else { "child-failed" };
                out.oracle_fail(class, &format!("{what}: {} log-hang={:?}", describe_exit(&exit, job), clog.hang));
            }
            cleanup();
            return;
        }
        if stop {
            out.count("fork-plain-stop");
        }
        let fc = ForkCase { h: &h, wfar, plan: &plan, serial_dones: &clog.dones[..clog.serial_dones.min(clog.dones.len())], expect, post: None };
        fork_recover(out, &fc, &mut builder, &mut tails, &job.node_dir, &ref_dir, &what);
        cleanup();
    });
    let _ = std::fs::remove_file(&env.blocks_file);
    let _ = std::fs::remove_file(&refjob.log);
    drop(builder);
    let _ = std::fs::remove_dir_all(&bdir);
}


// ------------------------------------------------------------------------------------------------
// family `edge`: the TRUE lower edge of the scan window (tip − EXPIRED_EPOCH × max_epoch_length)
// ------------------------------------------------------------------------------------------------

const ALL_COLS: [&str; 19] = ["0", "1", "2", "3", "4", "5", "6", "7", "8", "9", "10", "11", "12", "13", "14", "15", "16", "17", "18"];

/// A main chain of L = EXPIRED_EPOCH × max_epoch_length + 6 blocks (both factors read from the real code),
/// so that the window's lower edge is number 6. The database is prepared without running 10 806
/// verifications: a real node creates it (genesis, version), then every row of the builder's replay store
/// (the chain attached as the chain service would) is copied in. Stored WITHOUT ext through the very
/// transaction `ChainService::insert_block` uses: side blocks F5 (one below the edge), F6 (exactly on it),
/// F7, and above the tip A1 (tip+1), A3 (tip+3; A2 is never stored: the number gap cuts the scan).
/// Model side: the chain M7..ML is declared as ONE block of number L carrying their summed work (the model's
/// `num` is a free field), the prepared state is reached by `longchain` + `burstcrash … 5 0`.
fn edge_case(out: &mut Out, opts: &Opts, base: &Path) {
    let t0 = Instant::now();
    let cfg = node_cfg(1800);
    let consensus = make_consensus(&cfg);
    let mel = consensus.max_epoch_length();
    let expired = ckb_chain::VERIF_ORPHAN_EXPIRED_EPOCH;
    let l = expired * mel + 6;
    let bdir = base.join("edge-b");
    let _ = std::fs::remove_dir_all(&bdir);
    let mut builder = ChainBuilder::new(consensus.clone(), &bdir);
    builder.max_branch_stores = 3;
    let g = genesis_blk(&consensus);
    let spec = |salt: u64| BlockSpec { salt, ..Default::default() };
    let mut main: Vec<BlockView> = vec![(*g.block).clone()];
    let mut side: Vec<BlockView> = vec![];
    for n in 1..=l {
        let parent = main[(n - 1) as usize].hash();
        if (5..=7).contains(&n) {
            // the side block of this number first (it moves the store's tip; the main block then replays n-1 blocks)
            side.push(builder.build(&parent, &spec(1_000_000 + n)));
        }
        main.push(builder.build(&parent, &spec(n)));
    }
    // the prepared database
    let node_dir = base.join("edge-node");
    let _ = std::fs::remove_dir_all(&node_dir);
    let node = Node::start(&node_dir, consensus.clone(), &cfg);
    let t1 = Instant::now();
    while node.controller().is_verifying_unverified_blocks_on_startup() && t1.elapsed() < wait_timeout() {
        std::thread::sleep(Duration::from_millis(1));
    }
    node.stop();
    let tip_hash = main[l as usize].hash();
    {
        let src = builder.replay_store(&tip_hash);
        let raw = RocksDB::open_in(node_dir.join("db"), COLUMNS);
        for col in ALL_COLS {
            let mut batch = raw.new_write_batch();
            let mut n = 0usize;
            src.db().full_traverse(col, &mut |k: &[u8], v: &[u8]| {
                batch.put(col, k, v)?;
                n += 1;
                Ok(())
            }).expect("traverse the builder store");
            if n > 0 {
                raw.write(&batch).expect("copy rows");
            }
        }
        let db = ChainDB::new(raw, Default::default());
        // above the tip
        let a1 = builder.build(&tip_hash, &spec(2_000_001));
        let a2 = builder.build(&a1.hash(), &spec(2_000_002));
        let a3 = builder.build(&a2.hash(), &spec(2_000_003));
        for b in side.iter().chain([&a1, &a3]) {
            let txn = db.begin_transaction();
            txn.insert_block(b).expect("insert_block");
            txn.commit().expect("commit");
        }
        side.push(a1);
        side.push(a2);
        side.push(a3);
    }
    out.extra.insert("edge_prepare_s".into(), serde_json::json!(t0.elapsed().as_secs_f64()));
    // ids: 0 genesis, 1..=6 M1..M6, 7 = ML (M7..ML as one model block), 8 F5, 9 F6, 10 F7, 11 A1, 12 A2, 13 A3
    let w = |b: &BlockView| u256_u128(&b.header().difficulty());
    let mk = |id: usize, parent: usize, b: &BlockView, work: u128| Blk { id, parent, hash: b.hash(), num: b.number(), epoch: b.epoch().number(), work, kind: Kind::Valid, block: Arc::new(b.clone()), tx: None, own_props: vec![], uncle_props: vec![] };
    let mut blks = vec![g.clone()];
    for n in 1..=6usize {
        blks.push(mk(n, n - 1, &main[n], w(&main[n])));
    }
    let rest: u128 = (7..=l as usize).map(|n| w(&main[n])).sum();
    blks.push(mk(7, 6, &main[l as usize], rest));
    blks.push(mk(8, 4, &side[0], w(&side[0])));
    blks.push(mk(9, 5, &side[1], w(&side[1])));
    blks.push(mk(10, 6, &side[2], w(&side[2])));
    blks.push(mk(11, 7, &side[3], w(&side[3])));
    blks.push(mk(12, 11, &side[4], w(&side[4])));
    blks.push(mk(13, 12, &side[5], w(&side[5])));
    let by_hash = hash_map(&blks);
    let h = Hist { el: 1800, cfg: cfg.clone(), consensus: consensus.clone(), blks, by_hash };
    out.begin_case(&format!("edge el=1800 L={l} lower-edge={}", l - expired * mel));
    emit_blks_opt(out, &h, false);
    out.op("consts", &format!("mel={} expired={} bdw={}", mel, expired, ckb_constant::sync::BLOCK_DOWNLOAD_WINDOW));
    out.op("longchain 1,2,3,4,5,6,7", "ok");
    out.count("edge-case");
    let what = "edge case";
    // the prepared store, read without services (the replay oracle of `check_store` would replay 10 806
    // blocks per call: only the view is taken here)
    let view = {
        let db = ChainDB::new(RocksDB::open_in(node_dir.join("db"), COLUMNS), Default::default());
        view_of_store(&db, &h.blks, &h.by_hash)
    };
    out.op("burstcrash 8,9,10,11,13 5 0", &fmt_line(&[], &view));
    let has_ext: HashSet<usize> = view.ext.iter().map(|(i, _)| *i).collect();
    let unext: Vec<usize> = view.stored.iter().copied().filter(|i| *i != 0 && !has_ext.contains(i)).collect();
    let order = h.scan_order();
    let scanned = expected_scan(&h, 7, &unext);
    if scanned != vec![9, 10, 11] || unext != vec![8, 9, 10, 11, 13] {
        out.oracle_fail("child-failed", &format!("{what}: the prepared store is not the intended one: stored-without-ext {unext:?}, expected scan {scanned:?}"));
    }
    if let Some(node) = start_node(out, &h, &node_dir, what) {
        let mut r = Runner::new(&node, &h.blks, true);
        r.await_resolved = scanned.clone();
        let ar = r.after_restart();
        r.await_resolved.clear();
        match ar {
            Err(e) => {
                out.oracle_fail("hang", &format!("{what}: after restart: {e}"));
                out.op(&format!("requeued {} {}", mel, show_ids(&order)), "hang");
                drop(r);
                std::mem::forget(node);
            }
            Ok(()) => {
                let store = node.store();
                let observed: Vec<usize> = order.iter().copied().filter(|c| {
                    let hash = &h.blks[*c].hash;
                    unext.contains(c) && (store.get(COLUMN_BLOCK_HEADER, hash.as_slice()).is_none() || store.get_block_ext(hash).is_some() || r.in_pool(*c))
                }).collect();
                out.op(&format!("requeued {} {}", mel, show_ids(&order)), &show_ids(&observed));
                for c in &scanned {
                    if !observed.contains(c) {
                        out.oracle_fail("not-requeued", &format!("{what}: tip number {l}: the stored-without-ext block of number {} (window = [{}, tip + 10 x BLOCK_DOWNLOAD_WINDOW]) was not picked up by InitLoadUnverified", h.blks[*c].num, l - expired * mel));
                    }
                }
                let v = r.view();
                out.op(&format!("restart {} {}", mel, show_ids(&order)), &fmt_line(&[], &v));
                // A1 (tip+1) must have been verified and be the tip now; F6, F7 carry an ext; F5 and A3 are left alone
                let want_td = h.total_work(11);
                if v.tip != Some(11) || v.td != want_td {
                    out.oracle_fail("diverged-after-remaining", &format!("{what}: after the restart alone tip={:?} td={}, but the stored child of the tip (number {}) makes td={want_td}", v.tip, v.td, l + 1));
                }
                out.count("edge-lower-edge-candidate-requeued");
                drop(r);
                node.stop();
            }
        }
    }
    drop(builder);
    let _ = std::fs::remove_dir_all(&bdir);
    let _ = std::fs::remove_dir_all(&node_dir);
    out.extra.insert("edge_total_s".into(), serde_json::json!(t0.elapsed().as_secs_f64()));
    let _ = opts;
}

fn generate(out: &mut Out, opts: &Opts, base: &Path) {
    let mut rng = Rng::new(opts.seed);
    let exe = std::env::current_exe().expect("current_exe");
    let nh = if opts.thorough() { 30 * opts.scale } else { 5 * opts.scale };
    let t0 = Instant::now();
    if !opts.extra.iter().any(|x| x == "only-fork") {
        edge_case(out, opts, base);
        eprintln!("C08: edge case done, {:.1}s", t0.elapsed().as_secs_f64());
    }
    if opts.extra.iter().any(|x| x == "only-edge") {
        return;
    }
    // family `pool`: restart with the tx-pool service on (persisted pool file). First the hand-written
    // slot-reuse history (X, P submitted, X removed, C = child of P submitted, clean save, restart), then
    // generated ones.
    if !opts.extra.iter().any(|x| x == "only-fork") {
        let crafted = pool8::PoolPlan { cut: 100, el: 4, nb: 2, specs: pool8::parse_specs("g16/1;g17/1;t1:0/1"), a: "D1,+0,+1,-0,+2,S".into(), b: "S".into() };
        pool8::pool_case(out, opts, base, &exe, "pool-x", &crafted);
        // a process that died inside save_into_file: the next start finds a file cut short
        let torn = pool8::PoolPlan { cut: 50, el: 4, nb: 2, specs: pool8::parse_specs("g16/1;g17/2;t1:1/1"), a: "D1,+0,+1,+2,S".into(), b: "+0,S".into() };
        pool8::pool_case(out, opts, base, &exe, "pool-t", &torn);
        let np = if opts.thorough() { 40 * opts.scale } else { 5 * opts.scale };
        for k in 0..np {
            let plan = pool8::gen_pool_plan(&mut rng);
            pool8::pool_case(out, opts, base, &exe, &format!("pool-{k}"), &plan);
        }
        eprintln!("C08: pool family done, {} cases, {:.1}s", out.case, t0.elapsed().as_secs_f64());
        if opts.extra.iter().any(|x| x == "only-pool") {
            return;
        }
    }
    for hno in 0..nh {
        // hno % 5: 0 random tree, 1 deep (one linear orphan chain), 2 fork (burst, no re-delivery), 3 random tree, 4 fork
        let only_fork = opts.extra.iter().any(|x| x == "only-fork"); // development aid
        if hno % 5 == 2 || hno % 5 == 4 || only_fork {
            fork_history(out, opts, &mut rng, base, hno, &exe);
        } else {
            // the index one_history sees: 0,1,2,3,.. (deep = index % 3 == 1)
            let idx = (hno / 5) * 3 + match hno % 5 { 0 => 0, 1 => 1, _ => 2 };
            one_history(out, opts, &mut rng, base, idx, &exe);
        }
        eprintln!("C08: history {} done, {} cases, {:.1}s", hno + 1, out.case, t0.elapsed().as_secs_f64());
    }
}

// ------------------------------------------------------------------------------------------------
// replay of one recorded case
// ------------------------------------------------------------------------------------------------

fn label_num(tokens: &[&str], key: &str) -> Option<u64> {
    tokens.iter().find_map(|t| t.strip_prefix(key).and_then(|v| v.parse::<u64>().ok()))
}

fn fresh_job(base: &Path, tag: &str, stderr: &Path, ids: &[usize], crash: Option<String>) -> ChildJob {
    let job = ChildJob { node_dir: base.join(tag), log: base.join(format!("{tag}.log")), stderr: stderr.to_path_buf(), ids: ids.to_vec(), crash, fenced: false, fork: None };
    let _ = std::fs::remove_dir_all(&job.node_dir);
    let _ = std::fs::remove_file(&job.log);
    job
}


/// (i, v) of a crashed / stopped `fork` directory: stored blocks of the burst, and how many have an ext
fn peek_iv(node_dir: &Path, h: &Hist, burst: &[usize]) -> Option<(usize, usize)> {
    let path = node_dir.join("db");
    let db = std::panic::catch_unwind(std::panic::AssertUnwindSafe(|| ChainDB::new(RocksDB::open_in(&path, COLUMNS), Default::default()))).ok()?;
    let i = burst.iter().take_while(|b| db.get(COLUMN_BLOCK_HEADER, h.blks[**b].hash.as_slice()).is_some()).count();
    let v = burst.iter().filter(|b| db.get_block_ext(&h.blks[**b].hash).is_some()).count();
    Some((i, v))
}

/// Replay of a `crashfork` case: `deliver`* (serial prefix) `consts` `burstcrash <ids> <i> <v>` `requeued`
/// `restart` `deliver`*. The interleaving of the two service threads is not controllable: the child is
/// killed after its (i+v)-th commit of the burst (or stopped when the label says `stop`), up to 5 times
/// until the persisted state is the recorded (i, v); otherwise the last attempt is used (the emitted
/// `burstcrash` op says which (i, v) was reached; every oracle applies to it all the same).
#[allow(clippy::too_many_arguments)]
fn replay_fork(out: &mut Out, h: &Hist, builder: &mut ChainBuilder, env: &ChildEnv, base: &Path, cno: usize, label: &[&str], ops: &[Vec<String>], wfar: u64, stderr: &Path) {
    let id_of = |s: &str| -> usize {
        let id: usize = s.parse().unwrap_or_else(|_| panic!("bad id {s}"));
        assert!(id < h.blks.len(), "unknown block id {id}");
        id
    };
    assert!(h.blks.iter().all(|b| b.kind == Kind::Valid), "a burstcrash case has valid blocks only");
    let bi = ops.iter().position(|o| o[0] == "burstcrash").unwrap();
    let mut serial = vec![];
    for o in &ops[..bi] {
        match o[0].as_str() {
            "deliver" => serial.push(id_of(&o[1])),
            "consts" | "commits" => {}
            _ => panic!("unsupported replay op before burstcrash: {}", o.join(" ")),
        }
    }
    assert_eq!(ops[bi].len(), 4, "burstcrash <ids> <i> <v>");
    let burst: Vec<usize> = parse_ids(&ops[bi][1]).into_iter().map(|i| id_of(&i.to_string())).collect();
    let ti: usize = ops[bi][2].parse().expect("burstcrash i");
    let tv: usize = ops[bi][3].parse().expect("burstcrash v");
    assert!(ti <= burst.len() && tv <= ti, "burstcrash: v <= i <= number of ids");
    let mut post = vec![];
    let mut seen_restart = false;
    for o in &ops[bi + 1..] {
        match o[0].as_str() {
            "requeued" | "scan" => {}
            "restart" => seen_restart = true,
            "deliver" => {
                assert!(seen_restart, "deliver after burstcrash needs a restart first");
                post.push(id_of(&o[1]));
            }
            _ => panic!("unsupported replay op after burstcrash: {}", o.join(" ")),
        }
    }
    let plan = ForkPlan { serial: serial.clone(), burst: burst.clone(), missing: post.iter().copied().filter(|p| !burst.contains(p) && !serial.contains(p)).collect() };
    let stop = label.iter().any(|t| *t == "stop");
    let mk = |tag: &str, crash: Option<String>, stop: bool| {
        let job = ChildJob { node_dir: base.join(tag), log: base.join(format!("{tag}.log")), stderr: stderr.to_path_buf(), ids: vec![], crash, fenced: false, fork: Some(ForkArgs { wfar, serial: serial.clone(), burst: burst.clone(), post: vec![], stop }) };
        let _ = std::fs::remove_dir_all(&job.node_dir);
        let _ = std::fs::remove_file(&job.log);
        job
    };
    // commit counter at the start of the burst from a crash-free run
    let refjob = mk(&format!("r{cno}-fref"), None, false);
    let exit = run_child(env, &refjob);
    let rlog = parse_log(&refjob.log);
    let _ = std::fs::remove_dir_all(&refjob.node_dir);
    let _ = std::fs::remove_file(&refjob.log);
    let Some(kb) = rlog.burst_at.filter(|_| exit == ChildExit::Code(0)) else {
        out.oracle_fail(if rlog.hang.is_some() || exit == ChildExit::Timeout { "hang" } else { "child-failed" }, &format!("replay: crash-free run of the fork case: {}", describe_exit(&exit, &refjob)));
        return;
    };
    let all: HashSet<usize> = serial.iter().chain(burst.iter()).chain(post.iter()).copied().filter(|x| *x != 0).collect();
    let expect = Some(h.best(&all));
    let mut chosen: Option<(ChildJob, ChildLog)> = None;
    for attempt in 0..5 {
        let crash = if stop { None } else if ti + tv == 0 { Some(format!("{}:before", kb + 1)) } else { Some(format!("{}:after", kb + (ti + tv) as u64)) };
        let job = mk(&format!("r{cno}-fcrash{attempt}"), crash, stop);
        let exit = run_child(env, &job);
        let clog = parse_log(&job.log);
        let want = if stop { ChildExit::Code(0) } else { ChildExit::Signal(SIGABRT) };
        if exit != want || clog.burst_at.is_none() {
            out.oracle_fail(if clog.hang.is_some() || exit == ChildExit::Timeout { "hang" } else { "child-failed" }, &format!("replay fork: {}", describe_exit(&exit, &job)));
            let _ = std::fs::remove_dir_all(&job.node_dir);
            return;
        }
        let hit = peek_iv(&job.node_dir, h, &burst) == Some((ti, tv));
        if let Some((old, _)) = chosen.take() {
            let _ = std::fs::remove_dir_all(&old.node_dir);
            let _ = std::fs::remove_file(&old.log);
        }
        chosen = Some((job, clog));
        if hit {
            out.count("replay-fork-hit-recorded-interleaving");
            break;
        }
    }
    let (job, clog) = chosen.unwrap();
    let what = format!("replay fork (recorded i={ti} v={tv})");
    let fc = ForkCase { h, wfar, plan: &plan, serial_dones: &clog.dones[..clog.serial_dones.min(clog.dones.len())], expect, post: Some(post) };
    fork_recover(out, &fc, builder, &mut HashMap::new(), &job.node_dir, &base.join(format!("r{cno}-inproc-ref")), &what);
    let _ = std::fs::remove_dir_all(&job.node_dir);
    let _ = std::fs::remove_file(&job.log);
}

fn replay_case(out: &mut Out, opts: &Opts, label: &[&str], lines: &[String], base: &Path, cno: usize) {
    if label.first() == Some(&"edge") {
        // the prepared long chain is a function of the source's constants only: run it again
        edge_case(out, opts, base);
        return;
    }
    if label.first() == Some(&"pool") {
        // regenerated from the label (el, nb, txs, a, b); the recorded ops are not used
        let get = |k: &str| label.iter().find_map(|t| t.strip_prefix(k)).unwrap_or("").to_string();
        let dash = |s: String| if s == "-" { String::new() } else { s };
        let plan = pool8::PoolPlan {
            cut: label_num(label, "cut=").unwrap_or(100).min(100),
            el: label_num(label, "el=").unwrap_or(4).clamp(1, 1000),
            nb: (label_num(label, "nb=").unwrap_or(2) as usize).clamp(1, 15),
            specs: pool8::parse_specs(&get("txs=")),
            a: dash(get("a=")),
            b: dash(get("b=")),
        };
        let exe = std::env::current_exe().expect("current_exe");
        pool8::pool_case(out, opts, base, &exe, &format!("pool-r{cno}"), &plan);
        return;
    }
    let el = label_num(label, "el=").unwrap_or(4).clamp(1, 1000);
    let wf = label_num(label, "wf=");
    let cfg = match wf {
        Some(w) => node_cfg_w(el, w.clamp(WINDOW.0, 64)),
        None => node_cfg(el),
    };
    let consensus = make_consensus(&cfg);
    out.begin_case(&label.join(" "));
    out.op(&format!("win {} {}", cfg.window.0, cfg.window.1), "ok");
    let bdir = base.join(format!("rb{cno}"));
    let mut builder = ChainBuilder::new(consensus.clone(), &bdir);
    builder.max_branch_stores = 12;
    let mut blks: Vec<Blk> = vec![];
    let mut ops: Vec<Vec<String>> = vec![];
    for line in lines {
        let t: Vec<&str> = line.split_whitespace().collect();
        if t[0] == "blk" {
            assert!(ops.is_empty(), "blk lines must precede the other ops: {line}");
            assert_eq!(t.len(), 8, "bad blk line {line}");
            let id: usize = t[1].parse().expect("blk id");
            let parent: usize = t[2].parse().expect("blk parent");
            assert_eq!(id, blks.len(), "blk ids must be 0,1,2,.. in order: {line}");
            let b = if id == 0 {
                genesis_blk(&consensus)
            } else {
                assert!(parent < id, "blk {id}: parent {parent} must be smaller");
                let p = blks[parent].clone();
                let g = if p.id != 0 { Some(blks[p.parent].clone()) } else { None };
                build_blk(&mut builder, id, &p, g.as_ref(), Kind::from_flags(t[6] == "1", t[7] == "1"))
            };
            out.op(&blk_line(&b), "ok");
            if let Some(p) = prop_line(&b) {
                out.op(&p, "ok");
            }
            blks.push(b);
        } else if t[0] == "prop" || t[0] == "pview" || t[0] == "win" || t[0] == "gtx" || t[0] == "genesis" || t[0] == "tx" || t[0] == "body" || t[0] == "dump" {
            // `win` / `prop` are functions of the label / the blk lines (re-emitted), `pview` follows every `restart` / later `deliver`
        } else {
            ops.push(t.iter().map(|x| x.to_string()).collect());
        }
    }
    assert!(!blks.is_empty(), "no blk lines");
    let by_hash = hash_map(&blks);
    let h = Hist { el, cfg, consensus, blks, by_hash };
    emit_bodies(out, &h);
    let id_of = |s: &str| -> usize {
        let id: usize = s.parse().unwrap_or_else(|_| panic!("bad id {s}"));
        assert!(id < h.blks.len(), "unknown block id {id}");
        id
    };
    let blocks_file = base.join(format!("r{cno}.blocks"));
    write_blocks(&blocks_file, &h.blks);
    let env = ChildEnv { exe: std::env::current_exe().expect("current_exe"), out: opts.out.clone(), blocks_file, el };
    let stderr = opts.out.join("child-stderr.txt");
    if ops.iter().any(|o| o[0] == "burstcrash") {
        replay_fork(out, &h, &mut builder, &env, base, cno, label, &ops, wf.unwrap_or(WINDOW.1), &stderr);
        let _ = std::fs::remove_file(&env.blocks_file);
        drop(builder);
        let _ = std::fs::remove_dir_all(&bdir);
        return;
    }
    let ci = ops.iter().position(|o| o[0] == "crashdeliver");
    let prefix_end = ci.unwrap_or(ops.len());
    let mut prefix_ids = vec![];
    for o in &ops[..prefix_end] {
        match o[0].as_str() {
            "deliver" => prefix_ids.push(id_of(&o[1])),
            "commits" => {}
            "burst" => {}
            _ => panic!("unsupported replay op before a crash: {}", o.join(" ")),
        }
    }
    // answers of the ops before the crash from a child's log
    let emit_prefix = |out: &mut Out, log: &ChildLog| {
        let mut di = 0usize;
        let k0 = log.start.unwrap_or(0);
        let mut cur = k0;
        for o in &ops[..prefix_end] {
            match o[0].as_str() {
                "deliver" => {
                    if let Some(d) = log.dones.get(di) {
                        out.op(&format!("deliver {} {}", d.id, d.hint), &d.line);
                        cur = d.count - d.pokes;
                    }
                    di += 1;
                }
                "commits" => out.op("commits", &format!("{}", cur - k0)),
                _ => {}
            }
        }
    };
    if label.first() == Some(&"multi") && label.iter().any(|t| t.starts_with("order=")) {
        // repeated crashes: the run is regenerated from the label (n1, n2, order); the recorded ops are not used
        let ids: Vec<usize> = label.iter().find_map(|t| t.strip_prefix("order=")).map(parse_ids).unwrap_or_default().into_iter().map(|i| id_of(&i.to_string())).collect();
        let delivered: HashSet<usize> = ids.iter().copied().collect();
        let n1 = label_num(label, "n1=").unwrap_or(1).max(1);
        let n2 = label_num(label, "n2=").unwrap_or(1).max(1);
        multi_case(out, &h, &mut builder, &env, base, &format!("r{cno}-m"), &ids, n1, n2, Some(h.best(&delivered)), None, &stderr, "replay", false);
    } else if let Some(bi) = ops.iter().position(|o| o[0] == "burst") {
        assert!(ci.is_none() && ops.len() == 1, "a burst case has exactly one op");
        let ids: Vec<usize> = parse_ids(&ops[bi][1]).into_iter().map(|i| id_of(&i.to_string())).collect();
        let delivered: HashSet<usize> = ids.iter().copied().collect();
        let (btd, bhead) = h.best(&delivered);
        match (label_num(label, "n1="), label_num(label, "n2=")) {
            (Some(n1), Some(n2)) => {
                multi_case(out, &h, &mut builder, &env, base, &format!("r{cno}-m"), &ids, n1, n2, Some((btd, bhead)), None, &stderr, "replay", false);
            }
            _ => {
                let job = fresh_job(base, &format!("r{cno}-ref"), &stderr, &ids, None);
                let exit = run_child(&env, &job);
                let log = parse_log(&job.log);
                if exit != ChildExit::Code(0) {
                    out.oracle_fail(if log.hang.is_some() { "hang" } else { "child-failed" }, &describe_exit(&exit, &job));
                }
                let td = log.dones.last().map(|d| td_of(&d.line)).unwrap_or(0);
                out.op(&format!("burst {}", show_ids(&ids)), &format!("td={td}"));
                let _ = std::fs::remove_dir_all(&job.node_dir);
            }
        }
    } else if ci.is_none() {
        let job = fresh_job(base, &format!("r{cno}-ref"), &stderr, &prefix_ids, None);
        let exit = run_child(&env, &job);
        let log = parse_log(&job.log);
        if exit != ChildExit::Code(0) {
            out.oracle_fail(if log.hang.is_some() || exit == ChildExit::Timeout { "hang" } else { "child-failed" }, &describe_exit(&exit, &job));
        }
        emit_prefix(out, &log);
        let _ = std::fs::remove_dir_all(&job.node_dir);
    } else {
        let ci = ci.unwrap();
        let cid = id_of(&ops[ci][1]);
        let k: u64 = ops[ci][2].parse().expect("crashdeliver k");
        assert!(k >= 1, "crashdeliver: k >= 1");
        let mut ids = prefix_ids.clone();
        ids.push(cid);
        // the commit counters of this prefix from a crash-free run
        let job = fresh_job(base, &format!("r{cno}-ref"), &stderr, &ids, None);
        let exit = run_child(&env, &job);
        let rlog = parse_log(&job.log);
        let _ = std::fs::remove_dir_all(&job.node_dir);
        if exit != ChildExit::Code(0) || rlog.dones.len() != ids.len() {
            out.oracle_fail(if rlog.hang.is_some() || exit == ChildExit::Timeout { "hang" } else { "child-failed" }, &format!("replay: crash-free run of the prefix: {}", describe_exit(&exit, &job)));
            emit_prefix(out, &rlog);
            return;
        }
        let cend = rlog.dones.last().unwrap().count;
        let c0 = if ids.len() >= 2 { rlog.dones[ids.len() - 2].count } else { rlog.start.unwrap_or(0) };
        let commits = cend - c0;
        assert!(k <= commits + 1, "crashdeliver {cid} {k}: the delivery performs only {commits} commits");
        let (run_ids, crash) = if k <= commits {
            (ids.clone(), Some(format!("{}:before", c0 + k)))
        } else if commits >= 1 {
            (ids.clone(), Some(format!("{}:after", c0 + k - 1)))
        } else {
            // a delivery without any commit (non-contextually invalid block): the state before it
            (prefix_ids.clone(), None)
        };
        let job = fresh_job(base, &format!("r{cno}-crash"), &stderr, &run_ids, crash.clone());
        let exit = run_child(&env, &job);
        let log = parse_log(&job.log);
        let what = format!("replay crash {:?} in delivery of {cid} (k={k})", crash);
        emit_prefix(out, &log);
        let expected_exit = if crash.is_some() { ChildExit::Signal(SIGABRT) } else { ChildExit::Code(0) };
        if exit != expected_exit {
            out.oracle_fail(if log.hang.is_some() || exit == ChildExit::Timeout { "hang" } else { "child-failed" }, &format!("{what}: {}", describe_exit(&exit, &job)));
            let _ = std::fs::remove_dir_all(&job.node_dir);
            return;
        }
        out.count("crash-point");
        let Some(crashed) = inspect_crashed(out, &h, &mut builder, &job.node_dir, &what) else {
            out.op(&format!("crashdeliver {cid} {k}"), "unreadable");
            let _ = std::fs::remove_dir_all(&job.node_dir);
            return;
        };
        out.op(&format!("crashdeliver {cid} {k}"), &fmt_line(&[], &crashed.view));
        out.op("dump", &crashed.dump);
        if !crashed.unext.is_empty() {
            out.nontrivial(h.fingerprint(&ids, &[k]));
        }
        let mut crashed = crashed;
        let mut rest = &ops[ci + 1..];
        while !rest.is_empty() && rest[0][0] == "scan" {
            emit_scan(out, &h, &crashed);
            rest = &rest[1..];
        }
        if !rest.is_empty() && rest[0][0] == "crash2" {
            // a second process without deliveries, killed at its n2-th commit (label `n2=`)
            let n2 = label_num(label, "n2=").unwrap_or(1).max(1);
            let j2 = ChildJob { node_dir: job.node_dir.clone(), log: base.join(format!("r{cno}-second.log")), stderr: stderr.clone(), ids: vec![], crash: Some(format!("{n2}:before")), fenced: true, fork: None };
            let _ = std::fs::remove_file(&j2.log);
            let e2 = run_child(&env, &j2);
            let l2 = parse_log(&j2.log);
            let _ = std::fs::remove_file(&j2.log);
            if !(e2 == ChildExit::Signal(SIGABRT) || e2 == ChildExit::Code(0)) {
                out.oracle_fail(if l2.hang.is_some() || e2 == ChildExit::Timeout { "hang" } else { "child-failed" }, &format!("{what}: second process: {}", describe_exit(&e2, &j2)));
                let _ = std::fs::remove_dir_all(&job.node_dir);
                return;
            }
            let Some(c2) = inspect_crashed(out, &h, &mut builder, &job.node_dir, &format!("{what} (after crash 2)")) else {
                let _ = std::fs::remove_dir_all(&job.node_dir);
                return;
            };
            let obs = fmt_line(&[], &c2.view);
            out.op(&format!("crash2 {} {} {}", h.consensus.max_epoch_length(), show_ids(&h.scan_order()), obs.replace(' ', "|")), &obs);
            out.op("dump", &c2.dump);
            crashed = c2;
            rest = &rest[1..];
        }
        if !rest.is_empty() {
            assert_eq!(rest[0][0], "restart", "after crashdeliver only `scan`, then `restart` followed by `deliver` ops can be replayed");
            let mut post = vec![];
            for o in &rest[1..] {
                assert_eq!(o[0], "deliver", "after restart only `deliver` ops can be replayed: {}", o.join(" "));
                post.push(id_of(&o[1]));
            }
            let pre: HashSet<usize> = ids.iter().copied().collect();
            let posts: HashSet<usize> = post.iter().copied().filter(|i| *i != 0).collect();
            let expect = if pre.is_subset(&posts) { Some(h.best(&posts)) } else { None };
            // "remaining" = the delivered blocks that were never inserted: the oracle applies at the first
            // point where all of them have been delivered again
            let absent: HashSet<usize> = pre.iter().copied().filter(|i| !crashed.view.stored.contains(i)).collect();
            let mut seen: HashSet<usize> = HashSet::new();
            let mut cover = if absent.is_empty() { Some(0usize) } else { None };
            for (j, id) in post.iter().enumerate() {
                if cover.is_some() {
                    break;
                }
                seen.insert(*id);
                if absent.is_subset(&seen) {
                    cover = Some(j + 1);
                }
            }
            let remaining = cover.map(|j| {
                let mut d = pre.clone();
                d.extend(post[..j].iter().copied().filter(|i| *i != 0));
                (j, h.best(&d))
            });
            restart_and_redeliver(out, &h, &mut builder, &job.node_dir, &crashed, &Redo { emit: true, tip_op: false, post: &post, remaining, expect, final_ref: None }, &what);
        }
        let _ = std::fs::remove_dir_all(&job.node_dir);
        let _ = std::fs::remove_file(&job.log);
    }
    let _ = std::fs::remove_file(&env.blocks_file);
    drop(builder);
    let _ = std::fs::remove_dir_all(&bdir);
}

fn replay(out: &mut Out, opts: &Opts, ops: &[String], base: &Path) {
    let mut cases: Vec<(Vec<String>, Vec<String>)> = vec![];
    for line in ops {
        let t: Vec<&str> = line.split_whitespace().collect();
        if t.is_empty() {
            continue;
        }
        if t[0] == "case" {
            cases.push((t[2.min(t.len())..].iter().map(|x| x.to_string()).collect(), vec![]));
        } else {
            if cases.is_empty() {
                cases.push((vec!["replay".to_string()], vec![]));
            }
            cases.last_mut().unwrap().1.push(line.clone());
        }
    }
    for (i, (label, lines)) in cases.iter().enumerate() {
        let l: Vec<&str> = label.iter().map(|x| x.as_str()).collect();
        replay_case(out, opts, &l, lines, base, i);
    }
}


/// Development aid (`vh-c08 C08 --out DIR race-probe <pairs>`), not part of the check: looks for the
/// `search_orphan_leader` read-order race on the real code WITHOUT any fence. Pairs (P_i, C_i) of side blocks
/// on M1; C_i is delivered first (pooled), then P_i; once P_i's callback has fired and nothing else was
/// delivered, C_i must have left the pool. Prints how often it had not.
fn race_probe(opts: &Opts) {
    let pairs: usize = opts.extra.get(1).and_then(|x| x.parse().ok()).unwrap_or(1000);
    let base = scratch_dir(&opts.out, "c08probe");
    let cfg = node_cfg(1800);
    let consensus = make_consensus(&cfg);
    let mut builder = ChainBuilder::new(consensus.clone(), &base.join("b"));
    builder.max_branch_stores = 2;
    let node = Node::start(&base.join("n"), consensus.clone(), &cfg);
    while node.controller().is_verifying_unverified_blocks_on_startup() {
        std::thread::sleep(Duration::from_millis(1));
    }
    let g = consensus.genesis_block().hash();
    let m1 = builder.build(&g, &BlockSpec { salt: 1, ..Default::default() });
    node.process(&m1).expect("M1");
    let mut hits = 0usize;
    let t0 = Instant::now();
    for i in 0..pairs {
        let p = builder.build(&m1.hash(), &BlockSpec { salt: 10_000 + i as u64, ..Default::default() });
        let c = builder.build(&p.hash(), &BlockSpec { salt: 5_000_000 + i as u64, ..Default::default() });
        let lc = LonelyBlock { block: Arc::new(c.clone()), switch: None, verify_callback: None };
        assert!(node.controller().verif_process_lonely_block_sync(lc));
        let (tx, rx) = crossbeam_channel::bounded::<bool>(1);
        let lp = LonelyBlock { block: Arc::new(p.clone()), switch: None, verify_callback: Some(Box::new(move |r: VerifyResult| { let _ = tx.send(r.is_ok()); })) };
        assert!(node.controller().verif_process_lonely_block_sync(lp));
        let ok = rx.recv_timeout(wait_timeout()).expect("P verified");
        assert!(ok, "P_i is valid");
        // C_i is verified right after P_i if it was released; give the pipeline time, deliver nothing
        std::thread::sleep(Duration::from_millis(3));
        let pooled = node.controller().get_orphan_block(node.store(), &c.hash()).is_some();
        let parent_ext = node.store().get_block_ext(&p.hash()).is_some();
        if pooled && parent_ext {
            hits += 1;
            eprintln!("race-probe: pair {i}: C is still in the orphan pool although P has an ext (pool size {})", node.controller().orphan_blocks_len());
        }
    }
    println!("race-probe: {hits} stranded orphans in {pairs} pairs, {:.1}s", t0.elapsed().as_secs_f64());
    node.stop();
    drop(builder);
    let _ = std::fs::remove_dir_all(&base);
}

pub fn run(opts: &Opts) {
    if opts.extra.first().map(|s| s == "child").unwrap_or(false) {
        child_main(opts);
    }
    if opts.extra.first().map(|s| s == "child2").unwrap_or(false) {
        child2_main(opts);
    }
    if opts.extra.first().map(|s| s == "child3").unwrap_or(false) {
        pool8::child3_main(opts);
    }
    if opts.extra.first().map(|s| s == "race-probe").unwrap_or(false) {
        race_probe(opts);
        return;
    }
    let t0 = Instant::now();
    let mut out = Out::new(&opts.out);
    let _ = std::fs::remove_file(opts.out.join("child-stderr.txt"));
    let base = scratch_dir(&opts.out, "c08");
    if let Some(p) = &opts.replay {
        let ops = read_replay_ops(p);
        replay(&mut out, opts, &ops, &base);
    } else {
        generate(&mut out, opts, &base);
    }
    let _ = std::fs::remove_dir_all(&base);
    let deep_n = out.hist.get("deep-stored-unverified-below-tip-6").copied().unwrap_or(0);
    out.extra.insert("deep-stored-unverified-below-tip-6".into(), serde_json::json!(deep_n));
    out.extra.insert("wall_s".into(), serde_json::json!(t0.elapsed().as_secs_f64()));
    out.extra.insert("orphans-left-pooled-after-parent-verified-in-parent-process".into(), serde_json::json!(STRANDED_ORPHANS.load(std::sync::atomic::Ordering::Relaxed)));
    out.extra.insert("abort-announced-but-process-ended-by-watchdog".into(), serde_json::json!(ABORT_STALLED.load(std::sync::atomic::Ordering::Relaxed)));
    let secs = |a: &std::sync::atomic::AtomicU64| a.load(std::sync::atomic::Ordering::Relaxed) as f64 / 1e6;
    out.extra.insert("parent_time_s".into(), serde_json::json!({"inspect_crashed_db": secs(&T_INSPECT_US), "node_start": secs(&T_START_US), "fence_and_redeliver": secs(&T_REDELIVER_US), "node_stop": secs(&T_STOP_US)}));
    out.finish("crash point counted when the crashed store held at least one block stored without ext, or the crash fell inside a delivery that reorganises the chain in the crash-free run (fingerprint: tree, delivery order, commit index, mode; family fork: tree, burst order, inserts, verifications; second-level: n1, n2)");
}
