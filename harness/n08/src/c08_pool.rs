//! C08, family `pool` — restart with the tx-pool service ON: the persisted pool file
//! (`tx-pool/src/persisted.rs` `save_into_file` / `load_from_file`, `service.rs` `load_persisted_data`).
//!
//! Two child processes on one directory, each a real node WITH the tx-pool service (`child3`):
//!   phase A: deliver a linear chain, then pool ops: `+i` submit_local_tx, `-i` remove_local_tx,
//!            `S` save_pool (what the exit signal triggers: the pool is drained into the file),
//!            `D<id>` deliver one more block, and at the end `K` = abort() (no save) or plain exit;
//!   phase B: start on the same directory (the file is read and every transaction re-submitted in file
//!            order), the pool is logged, more ops may follow.
//! The parent reads the file back (order as written), emits the ops with the observed answers and
//! evaluates, independent of the model: `pool-reload-resurrects` (a reloaded transaction that is not in the
//! file), `pool-reload-invalid` (a reloaded transaction with an input that is neither a live cell of the
//! restarted node's tip nor an output of a reloaded transaction), and — COUNTED, not failed, until the
//! coordinator has listed it — `pool-tx-lost-across-restart`: a saved transaction all of whose inputs are
//! live or outputs of surviving saved transactions did not come back.
use super::*;
use ckb_types::packed::TransactionVecReader;

pub(super) const PTX_BASE: u64 = 3000;

#[derive(Clone, Debug)]
pub(super) enum PIn {
    G(usize),
    T(usize, usize),
}

#[derive(Clone, Debug)]
pub(super) struct PSpec {
    pub inputs: Vec<PIn>,
    pub nout: usize,
}

pub(super) fn show_specs(v: &[PSpec]) -> String {
    v.iter()
        .map(|s| {
            let ins: Vec<String> = s.inputs.iter().map(|i| match i { PIn::G(k) => format!("g{k}"), PIn::T(j, x) => format!("t{j}:{x}") }).collect();
            format!("{}/{}", ins.join("+"), s.nout)
        })
        .collect::<Vec<_>>()
        .join(";")
}

pub(super) fn parse_specs(s: &str) -> Vec<PSpec> {
    s.split(';')
        .filter(|x| !x.is_empty())
        .map(|t| {
            let (ins, n) = t.split_once('/').expect("pool tx spec: <inputs>/<nout>");
            let inputs = ins
                .split('+')
                .map(|i| {
                    if let Some(k) = i.strip_prefix('g') {
                        PIn::G(k.parse().expect("g<k>"))
                    } else {
                        let (j, x) = i.strip_prefix('t').expect("t<j>:<idx>").split_once(':').expect("t<j>:<idx>");
                        PIn::T(j.parse().expect("tx"), x.parse().expect("idx"))
                    }
                })
                .collect();
            PSpec { inputs, nout: n.parse().expect("nout") }
        })
        .collect()
}

pub(super) fn build_ptxs(consensus: &ckb_chain_spec::consensus::Consensus, specs: &[PSpec]) -> Vec<TransactionView> {
    let cells = genesis_cells(consensus);
    let mut txs: Vec<TransactionView> = vec![];
    for (i, s) in specs.iter().enumerate() {
        let inputs: Vec<(OutPoint, u64)> = s
            .inputs
            .iter()
            .map(|p| match p {
                PIn::G(k) => cells[*k].clone(),
                PIn::T(j, x) => {
                    assert!(*j < i, "pool tx {i}: parent {j} must come first");
                    let c: ckb_types::core::Capacity = txs[*j].outputs().get(*x).expect("parent output").capacity().unpack();
                    (OutPoint::new(txs[*j].hash(), *x as u32), c.as_u64())
                }
            })
            .collect();
        txs.push(spend_tx(&inputs, s.nout, 5000, 8_000_000 + i as u64));
    }
    txs
}

fn write_txs(path: &Path, txs: &[TransactionView]) {
    let v = packed::TransactionVec::new_builder().extend(txs.iter().map(|t| t.data())).build();
    std::fs::write(path, v.as_slice()).expect("write txs file");
}

fn read_txs(path: &Path) -> Vec<TransactionView> {
    let buf = std::fs::read(path).expect("read txs file");
    TransactionVecReader::from_slice(&buf).expect("txs file").to_entity().into_iter().map(|t| t.into_view()).collect()
}

fn pool_cfg(el: u64, node_dir: &Path) -> NodeCfg {
    let tp = ckb_app_config::TxPoolConfig { persisted_data: node_dir.join("tx_pool_persisted_data"), ..Default::default() };
    NodeCfg { with_pool: true, tx_pool: Some(tp), ..node_cfg(el) }
}

pub(super) fn persisted_file(node_dir: &Path) -> PathBuf {
    let mut p = node_dir.join("tx_pool_persisted_data");
    p.set_extension("v1");
    p
}

fn pool_ids(node: &Node, txs: &[TransactionView]) -> Result<Vec<usize>, String> {
    let ids = node.shared.tx_pool_controller().get_all_ids().map_err(|e| e.to_string())?;
    let mut v = vec![];
    for h in ids.pending.iter().chain(ids.proposed.iter()) {
        match txs.iter().position(|t| &t.hash() == h) {
            Some(i) => v.push(i),
            None => return Err(format!("unknown transaction {h} in the pool")),
        }
    }
    v.sort();
    Ok(v)
}

/// `child3 <node_dir> <blocks_file> <txs_file> <log_file> <epoch_len> <ops>`
pub(super) fn child3_main(opts: &Opts) -> ! {
    let a = &opts.extra;
    assert!(a.len() >= 7, "child3: bad arguments");
    let node_dir = PathBuf::from(&a[1]);
    let blocks_file = PathBuf::from(&a[2]);
    let txs_file = PathBuf::from(&a[3]);
    let log_file = PathBuf::from(&a[4]);
    let el: u64 = a[5].parse().expect("epoch_len");
    let ops: Vec<String> = a[6].split(',').filter(|x| !x.is_empty() && *x != "-").map(|x| x.to_string()).collect();
    let cfg = pool_cfg(el, &node_dir);
    let consensus = make_consensus(&cfg);
    let blks = read_blocks(&blocks_file, &consensus);
    let txs = read_txs(&txs_file);
    let mut log = std::fs::OpenOptions::new().create(true).append(true).open(&log_file).expect("child3: open log");
    let node = Node::start(&node_dir, consensus, &cfg);
    let t0 = Instant::now();
    while node.controller().is_verifying_unverified_blocks_on_startup() || !node.shared.tx_pool_controller().service_started() {
        if t0.elapsed() > wait_timeout() {
            logln(&mut log, "hang startup");
            std::process::exit(3);
        }
        std::thread::sleep(Duration::from_micros(500));
    }
    let tpc = node.shared.tx_pool_controller().clone();
    let sync_pool = |node: &Node| {
        let t = Instant::now();
        loop {
            if let Ok(info) = node.shared.tx_pool_controller().get_tx_pool_info() {
                if info.tip_hash == node.tip_hash() {
                    return true;
                }
            }
            if t.elapsed() > Duration::from_secs(20) {
                return false;
            }
            std::thread::sleep(Duration::from_millis(1));
        }
    };
    {
        let mut r = Runner::new(&node, &blks, false);
        let ids = match pool_ids(&node, &txs) {
            Ok(v) => v,
            Err(e) => {
                logln(&mut log, &format!("hang pool {e}"));
                std::process::exit(3);
            }
        };
        logln(&mut log, &format!("loaded {}", show_ids(&ids)));
        logln(&mut log, &format!("state {}", fmt_line(&[], &r.view())));
        for op in &ops {
            let bad = |log: &mut std::fs::File, e: String| -> ! {
                logln(log, &format!("hang {op} {e}"));
                std::process::exit(3)
            };
            if let Some(i) = op.strip_prefix('+') {
                let i: usize = i.parse().expect("+i");
                let res = match tpc.submit_local_tx(txs[i].clone()) {
                    Ok(r) => r,
                    Err(e) => bad(&mut log, e.to_string()),
                };
                let ids = pool_ids(&node, &txs).unwrap_or_else(|e| bad(&mut log, e));
                logln(&mut log, &format!("sub {} {} {}", i, if res.is_ok() { "ok" } else { "rej" }, show_ids(&ids)));
            } else if let Some(i) = op.strip_prefix('-') {
                let i: usize = i.parse().expect("-i");
                if let Err(e) = tpc.remove_local_tx(txs[i].hash()) {
                    bad(&mut log, e.to_string());
                }
                let ids = pool_ids(&node, &txs).unwrap_or_else(|e| bad(&mut log, e));
                logln(&mut log, &format!("rem {} {}", i, show_ids(&ids)));
            } else if op == "S" {
                if let Err(e) = tpc.save_pool() {
                    bad(&mut log, e.to_string());
                }
                logln(&mut log, "saved");
            } else if let Some(id) = op.strip_prefix('D') {
                let id: usize = id.parse().expect("D<id>");
                match r.deliver(id) {
                    Ok(d) => {
                        if !sync_pool(&node) {
                            bad(&mut log, "the tx-pool did not follow the tip within 20s".into());
                        }
                        let ids = pool_ids(&node, &txs).unwrap_or_else(|e| bad(&mut log, e));
                        logln(&mut log, &format!("done {} {} {} {}", id, show_ids(&ids), show_ids(&d.hint), fmt_line(&d.cbs, &d.view)))
                    }
                    Err(e) => bad(&mut log, e),
                }
            } else if op == "K" {
                logln(&mut log, &format!("end {}", fmt_line(&[], &r.view())));
                std::process::abort();
            } else {
                panic!("child3: unknown op {op}");
            }
        }
        logln(&mut log, &format!("end {}", fmt_line(&[], &r.view())));
    }
    // a plain exit: nothing is saved unless `S` was among the ops
    std::process::exit(0)
}

#[derive(Default)]
struct PLog {
    loaded: Option<Vec<usize>>,
    state: Option<String>,
    /// (op text, answer)
    steps: Vec<(String, String)>,
    end: Option<String>,
    hang: Option<String>,
}

fn parse_plog(path: &Path) -> PLog {
    let mut l = PLog::default();
    for line in std::fs::read_to_string(path).unwrap_or_default().lines() {
        let t: Vec<&str> = line.splitn(2, ' ').collect();
        let rest = t.get(1).copied().unwrap_or("");
        match t[0] {
            "loaded" => l.loaded = Some(parse_ids(rest)),
            "state" => l.state = Some(rest.to_string()),
            "end" => l.end = Some(rest.to_string()),
            "hang" => l.hang = Some(rest.to_string()),
            "sub" => {
                let p: Vec<&str> = rest.split(' ').collect();
                l.steps.push((format!("psubmit {}", PTX_BASE + p[0].parse::<u64>().unwrap()), format!("{} pool={}", p[1], pids(&parse_ids(p[2])))));
            }
            "rem" => {
                let p: Vec<&str> = rest.split(' ').collect();
                l.steps.push((format!("premove {}", PTX_BASE + p[0].parse::<u64>().unwrap()), format!("pool={}", pids(&parse_ids(p[1])))));
            }
            "saved" => l.steps.push(("S".into(), String::new())),
            "done" => {
                let p: Vec<&str> = rest.splitn(4, ' ').collect();
                l.steps.push((format!("deliver {} {}", p[0], p[2]), p[3].to_string()));
            }
            _ => {}
        }
    }
    l
}

fn pids(v: &[usize]) -> String {
    if v.is_empty() { "-".into() } else { v.iter().map(|i| (PTX_BASE + *i as u64).to_string()).collect::<Vec<_>>().join(",") }
}

fn run_child3(env: &ChildEnv, node_dir: &Path, txs_file: &Path, log: &Path, ops: &str) -> ChildExit {
    use std::os::unix::process::ExitStatusExt;
    use std::process::{Command, Stdio};
    let mut c = Command::new(&env.exe);
    c.arg("C08").arg("--out").arg(&env.out).arg("child3").arg(node_dir).arg(&env.blocks_file).arg(txs_file).arg(log).arg(env.el.to_string()).arg(if ops.is_empty() { "-" } else { ops });
    c.env_remove("VERIF_CRASH_AT");
    c.stdin(Stdio::null()).stdout(Stdio::null());
    if let Ok(f) = std::fs::OpenOptions::new().create(true).append(true).open(log.with_extension("err")) {
        c.stderr(f);
    }
    let mut child = c.spawn().expect("spawn child3");
    let t0 = Instant::now();
    loop {
        match child.try_wait().expect("wait child3") {
            Some(st) => {
                return match (st.code(), st.signal()) {
                    (Some(c), _) => ChildExit::Code(c),
                    (None, Some(s)) => ChildExit::Signal(s),
                    _ => ChildExit::Code(-1),
                };
            }
            None => {
                if t0.elapsed() > Duration::from_secs(120) {
                    let _ = child.kill();
                    let _ = child.wait();
                    return ChildExit::Timeout;
                }
                std::thread::sleep(Duration::from_millis(2));
            }
        }
    }
}

pub(super) struct PoolPlan {
    /// cut the persisted file to this many per cent of its length between phase A and phase B (a process
    /// that died inside `save_into_file`); 100 = untouched
    pub cut: u64,
    pub el: u64,
    /// length of the linear chain (ids 1..=nb); the first `pre` blocks are delivered before the pool ops
    pub nb: usize,
    pub specs: Vec<PSpec>,
    pub a: String,
    pub b: String,
}

pub(super) fn gen_pool_plan(rng: &mut Rng) -> PoolPlan {
    let el = rng.range(4, 6);
    let nb = rng.range(3, 9) as usize;
    let pre = rng.range(1, nb as u64) as usize;
    // genesis cells 16.. are never touched by the chain's own transactions (heights < 16)
    let mut specs: Vec<PSpec> = vec![];
    let mut free: Vec<(usize, usize)> = vec![]; // unspent outputs of pool txs
    let mut next_g = 16usize;
    let n = rng.range(4, 9) as usize;
    for i in 0..n {
        let mut inputs = vec![];
        let use_parent = !free.is_empty() && rng.range(0, 99) < 55;
        if use_parent {
            let k = rng.range(0, free.len() as u64 - 1) as usize;
            let (j, x) = free.remove(k);
            inputs.push(PIn::T(j, x));
        } else if rng.range(0, 99) < 20 && nb >= 4 {
            // a cell the chain itself spends (the transaction of height h spends cell h-1, committed at h+2)
            inputs.push(PIn::G(rng.range(pre as u64, nb as u64) as usize));
        } else if next_g < GCELLS as usize {
            inputs.push(PIn::G(next_g));
            next_g += 1;
        } else {
            continue;
        }
        let nout = rng.range(1, 2) as usize;
        let _ = i;
        for x in 0..nout {
            free.push((specs.len(), x));
        }
        specs.push(PSpec { inputs, nout });
    }
    let n = specs.len();
    let mut ops: Vec<String> = (1..=pre).map(|i| format!("D{i}")).collect();
    let mut inpool: Vec<usize> = vec![];
    let steps = rng.range(n as u64, 2 * n as u64 + 2);
    let mut nextsub = 0usize;
    for _ in 0..steps {
        let r = rng.range(0, 99);
        if r < 25 && !inpool.is_empty() {
            // removal: frees a slot of the multi-index map, the next insertion reuses it
            // prefer the OLDEST transaction nobody spends from: its low slot goes to the next submission,
            // which may be a child of a transaction in a higher slot (child before parent in slot order)
            let is_parent = |i: usize| specs.iter().any(|s| s.inputs.iter().any(|p| matches!(p, PIn::T(j, _) if *j == i)));
            let lonely: Option<usize> = inpool.iter().copied().filter(|i| !is_parent(*i)).min();
            let k = match lonely {
                Some(i) if rng.range(0, 99) < 70 => inpool.iter().position(|x| *x == i).unwrap(),
                _ => rng.range(0, inpool.len() as u64 - 1) as usize,
            };
            let i = inpool.remove(k);
            ops.push(format!("-{i}"));
        } else if r < 35 && nextsub > 0 {
            // re-submission of an earlier transaction (removed, refused or still there)
            let i = rng.range(0, nextsub as u64 - 1) as usize;
            ops.push(format!("+{i}"));
            if !inpool.contains(&i) {
                inpool.push(i);
            }
        } else if nextsub < n {
            ops.push(format!("+{nextsub}"));
            inpool.push(nextsub);
            nextsub += 1;
        }
    }
    let mode = rng.range(0, 9);
    if mode < 7 {
        ops.push("S".into());
    }
    if mode >= 4 {
        // the chain moves on after the save (or without one)
        for i in pre + 1..=nb {
            ops.push(format!("D{i}"));
        }
    }
    if mode % 2 == 1 {
        ops.push("K".into());
    }
    let mut b: Vec<String> = vec![];
    if rng.range(0, 1) == 1 && nextsub > 0 {
        b.push(format!("+{}", rng.range(0, nextsub as u64 - 1)));
    }
    b.push("S".into());
    let cut = if rng.range(0, 9) == 0 { rng.range(0, 99) } else { 100 };
    PoolPlan { cut, el, nb, specs, a: ops.join(","), b: b.join(",") }
}

/// one case: phase A, phase B, a third start that only reads the pool back
pub(super) fn pool_case(out: &mut Out, opts: &Opts, base: &Path, exe: &Path, tag: &str, plan: &PoolPlan) {
    let cfg = node_cfg(plan.el);
    let consensus = make_consensus(&cfg);
    let bdir = base.join(format!("{tag}-b"));
    let mut builder = ChainBuilder::new(consensus.clone(), &bdir);
    let mut blks = vec![genesis_blk(&consensus)];
    for id in 1..=plan.nb {
        let p = blks[id - 1].clone();
        let g = if p.id != 0 { Some(blks[p.parent].clone()) } else { None };
        let b = build_blk(&mut builder, id, &p, g.as_ref(), Kind::Valid);
        blks.push(b);
    }
    let by_hash = hash_map(&blks);
    let h = Hist { el: plan.el, cfg, consensus: consensus.clone(), blks, by_hash };
    let txs = build_ptxs(&consensus, &plan.specs);
    let blocks_file = base.join(format!("{tag}.blocks"));
    let txs_file = base.join(format!("{tag}.txs"));
    write_blocks(&blocks_file, &h.blks);
    write_txs(&txs_file, &txs);
    let env = ChildEnv { exe: exe.to_path_buf(), out: opts.out.clone(), blocks_file: blocks_file.clone(), el: plan.el };
    let node_dir = base.join(format!("{tag}-n"));
    let _ = std::fs::remove_dir_all(&node_dir);
    let what = format!("pool case {tag}");
    out.begin_case(&format!("pool el={} nb={} cut={} txs={} a={} b={}", plan.el, plan.nb, plan.cut, show_specs(&plan.specs), if plan.a.is_empty() { "-" } else { &plan.a }, if plan.b.is_empty() { "-" } else { &plan.b }));
    emit_blks(out, &h);
    // the pool transactions, declared like block transactions (inputs as tx:idx of the dump ids)
    let mut ids = dump_ids(&h);
    for (i, t) in txs.iter().enumerate() {
        let line = ids.add_tx(PTX_BASE + i as u64, t);
        out.op(&line, "ok");
    }
    let mel = h.consensus.max_epoch_length();
    let order = h.scan_order();
    let mut file_set: Vec<usize> = vec![];
    let mut last_saved_pool: Option<Vec<usize>> = None;
    let cleanup = |builder: ChainBuilder| {
        drop(builder);
        let _ = std::fs::remove_dir_all(&bdir);
        let _ = std::fs::remove_dir_all(&node_dir);
        let _ = std::fs::remove_file(&blocks_file);
        let _ = std::fs::remove_file(&txs_file);
    };
    let phases: Vec<(&str, String)> = vec![("A", plan.a.clone()), ("B", plan.b.clone()), ("C", String::new())];
    for (pi, (pname, pops)) in phases.iter().enumerate() {
        if pi == 1 && plan.cut < 100 {
            // the process died inside save_into_file: the file is there but cut short
            let f = persisted_file(&node_dir);
            if let Ok(buf) = std::fs::read(&f) {
                let keep = buf.len() * plan.cut as usize / 100;
                if keep < buf.len() {
                    std::fs::write(&f, &buf[..keep]).expect("cut the persisted file");
                    out.op("ptorn", "ok");
                    out.count("pool-file-cut-short");
                    file_set.clear();
                }
            }
        }
        let log = base.join(format!("{tag}-{pname}.log"));
        let _ = std::fs::remove_file(&log);
        let exit = run_child3(&env, &node_dir, &txs_file, &log, pops);
        out.count("child-run");
        let l = parse_plog(&log);
        let ok_exit = matches!(exit, ChildExit::Code(0)) || (exit == ChildExit::Signal(SIGABRT) && pops.ends_with('K'));
        if !ok_exit || l.hang.is_some() || l.loaded.is_none() || l.state.is_none() {
            let tail = std::fs::read_to_string(log.with_extension("err")).unwrap_or_default();
            let tail: String = tail.lines().rev().take(5).collect::<Vec<_>>().into_iter().rev().collect::<Vec<_>>().join(" | ");
            out.oracle_fail(if l.hang.is_some() || exit == ChildExit::Timeout { "hang" } else { "child-failed" }, &format!("{what}: phase {pname}: exit={exit:?} hang={:?} stderr: {tail}", l.hang));
            let _ = std::fs::remove_file(&log);
            let _ = std::fs::remove_file(log.with_extension("err"));
            cleanup(builder);
            return;
        }
        let loaded = l.loaded.clone().unwrap();
        if pi > 0 {
            // the process before this one is dead: volatile state gone, start-up on its database
            out.op("crash", l.state.as_ref().unwrap());
            out.op(&format!("restart {} {}", mel, show_ids(&order)), l.state.as_ref().unwrap());
            out.op("preload", &format!("pool={}", pids(&loaded)));
            out.count("pool-restart");
            // ---- oracles on the implementation alone
            for i in &loaded {
                if !file_set.contains(i) {
                    out.oracle_fail("pool-reload-resurrects", &format!("{what}: phase {pname}: transaction {i} is in the pool after the restart but not in the persisted file {:?}", file_set));
                }
            }
            // live cells of the restarted node's tip: read from a replay store of its tip
            let tip = tip_of(l.state.as_ref().unwrap()).unwrap_or(0);
            let replay = builder.replay_store(&h.blks[tip].hash);
            let live = |op: &OutPoint| replay.have_cell(op);
            for i in &loaded {
                for inp in txs[*i].inputs() {
                    let op = inp.previous_output();
                    let from_pool = loaded.iter().any(|j| txs[*j].hash() == op.tx_hash());
                    if !live(&op) && !from_pool {
                        out.oracle_fail("pool-reload-invalid", &format!("{what}: phase {pname}: reloaded transaction {i} spends {op} which is neither live at tip {tip} nor an output of a reloaded transaction"));
                    }
                }
            }
            // what must survive: greatest subset of the file whose inputs are live or outputs of the subset
            let mut keep: Vec<usize> = file_set.clone();
            loop {
                let before = keep.len();
                let cur = keep.clone();
                keep.retain(|i| txs[*i].inputs().into_iter().all(|inp| {
                    let op = inp.previous_output();
                    live(&op) || cur.iter().any(|j| txs[*j].hash() == op.tx_hash())
                }));
                if keep.len() == before {
                    break;
                }
            }
            let lost: Vec<usize> = keep.iter().copied().filter(|i| !loaded.contains(i)).collect();
            if !lost.is_empty() {
                // COUNTED, not failed: reported to the coordinator (save order of pending/gap transactions)
                out.count("pool-tx-lost-across-restart");
                eprintln!("C08: note: {what}: phase {pname}: transactions {lost:?} of the persisted file {file_set:?} are valid at tip {tip} but were not reloaded (reloaded: {loaded:?})");
            } else {
                out.count("pool-restart-nothing-lost");
            }
            if last_saved_pool.is_some() {
                out.nontrivial(format!("pool:{}:{}:{}:{}", show_specs(&plan.specs), plan.a, plan.b, pname));
            }
        } else if !loaded.is_empty() {
            out.oracle_fail("pool-reload-resurrects", &format!("{what}: first start on a fresh directory, yet the pool holds {loaded:?}"));
        }
        for (op, ans) in &l.steps {
            if op == "S" {
                // read the file back: the order as written
                let file = read_txs(&persisted_file(&node_dir));
                let fids: Vec<usize> = file.iter().map(|t| txs.iter().position(|x| x.hash() == t.hash()).unwrap_or(usize::MAX)).collect();
                if fids.iter().any(|i| *i == usize::MAX) {
                    out.oracle_fail("pool-reload-resurrects", &format!("{what}: phase {pname}: the persisted file holds a transaction the harness never submitted"));
                }
                let mut sorted = fids.clone();
                sorted.sort();
                out.op(&format!("psave {}", pids(&fids)), &format!("saved={}", pids(&sorted)));
                file_set = sorted.clone();
                last_saved_pool = Some(sorted);
                // children written before a parent (the order `load_persisted_data` assumes away)
                let unsorted = fids.iter().enumerate().any(|(pos, i)| txs[*i].inputs().into_iter().any(|inp| fids[pos + 1..].iter().any(|j| txs[*j].hash() == inp.previous_output().tx_hash())));
                if unsorted {
                    out.count("pool-file-lists-child-before-parent");
                }
            } else {
                out.op(op, ans);
            }
        }
        let _ = std::fs::remove_file(&log);
        let _ = std::fs::remove_file(log.with_extension("err"));
    }
    cleanup(builder);
}
