//! C08 — canonical dump of the whole persisted column view of a (crashed) database, in the format of
//! the C02 store stream (harness/n02/src/c02.rs `dump`; sections cell, data, dhash, txinfo, index, rindex,
//! uncles, bepoch, epoch, epnum, ext, meta) plus `body` (blocks whose six block-row columns are present,
//! `!` on a torn block) and `mmr` (chain-root MMR rows below leaf_index_to_mmr_size(tip number), `!` when a
//! row is missing or differs from the replay), and the lines that give the model the content of the blocks.
use ckb_db::iter::IteratorMode;
use ckb_db_schema::*;
use ckb_merkle_mountain_range::leaf_index_to_mmr_size;
use ckb_store::ChainStore;
use ckb_types::core::{BlockView, EpochNumberWithFraction, TransactionView};
use ckb_types::packed::{self, Byte32};
use ckb_types::prelude::*;
use std::collections::{BTreeMap, HashMap};

pub const ZERO_ID: u64 = 4_000_000_000;
pub const CB_BASE: u64 = 1_000_000;
pub const TX_BASE: u64 = 2_000;
pub const UNCLE_BASE: u64 = 500_000;
const UNKNOWN: u64 = u64::MAX;

#[derive(Default)]
pub struct Ids {
    pub blk: HashMap<Byte32, u64>,
    pub tx: HashMap<Byte32, u64>,
    pub txv: HashMap<u64, TransactionView>,
    /// the protocol lines `gtx` / `genesis` / `tx` / `body`, in emission order
    pub lines: Vec<String>,
}

fn hex(b: &[u8]) -> String {
    b.iter().map(|x| format!("{:02x}", x)).collect()
}

fn le64(b: &[u8]) -> u64 {
    let mut a = [0u8; 8];
    a.copy_from_slice(&b[..8]);
    u64::from_le_bytes(a)
}

/// `<len>.<tag>` of a cell data: tag = the value for 8-byte data, else the first 8 bytes of its hash
pub fn dtag(data: &[u8]) -> String {
    if data.is_empty() {
        return "-".to_string();
    }
    let tag = if data.len() == 8 { le64(data) } else { le64(packed::CellOutput::calc_data_hash(data).as_slice()) };
    format!("{}.{}", data.len(), tag)
}

fn ep(v: u64) -> String {
    let e = EpochNumberWithFraction::from_full_value_unchecked(v);
    format!("{}.{}.{}", e.number(), e.index(), e.length())
}

fn outs_of(t: &TransactionView) -> String {
    let v: Vec<String> = t.outputs_data().into_iter().map(|d| dtag(&d.raw_data())).collect();
    if v.is_empty() { "none".to_string() } else { v.join(",") }
}

fn list(v: &[u64]) -> String {
    if v.is_empty() { "-".into() } else { v.iter().map(|i| i.to_string()).collect::<Vec<_>>().join(",") }
}

impl Ids {
    fn b(&self, h: &Byte32) -> (u64, String) {
        if h == &Byte32::zero() {
            return (ZERO_ID, ZERO_ID.to_string());
        }
        match self.blk.get(h) {
            Some(i) => (*i, i.to_string()),
            None => (UNKNOWN, format!("?{}", &hex(h.as_slice())[..8])),
        }
    }
    fn t(&self, h: &Byte32) -> (u64, String) {
        match self.tx.get(h) {
            Some(i) => (*i, i.to_string()),
            None => (UNKNOWN, format!("?{}", &hex(h.as_slice())[..8])),
        }
    }

    /// registers a transaction under `id` and returns its `tx` line (fee = Σ inputs − Σ outputs over the
    /// known transactions; a cellbase has none)
    fn tx_line(&mut self, id: u64, t: &TransactionView, cellbase: bool) -> String {
        let mut ins = vec![];
        let mut cap_in: u64 = 0;
        let mut known = true;
        if !cellbase {
            for i in t.inputs() {
                let op = i.previous_output();
                let idx: u32 = op.index().into();
                let (ti, ts) = self.t(&op.tx_hash());
                ins.push(format!("{}:{}", ts, idx));
                match self.txv.get(&ti).and_then(|p| p.output(idx as usize)) {
                    Some(o) => {
                        let c: u64 = o.capacity().into();
                        cap_in += c;
                    }
                    None => known = false,
                }
            }
        }
        let cap_out: u64 = t.outputs().into_iter().map(|o| Into::<u64>::into(o.capacity())).sum();
        let fee = if !cellbase && known { cap_in.saturating_sub(cap_out) } else { 0 };
        self.tx.insert(t.hash(), id);
        self.txv.insert(id, t.clone());
        format!("tx {} fee={} in={} out={}", id, fee, if ins.is_empty() { "-".to_string() } else { ins.join(",") }, outs_of(t))
    }

    /// a transaction that is in no block (tx-pool family): its `tx` line
    pub fn add_tx(&mut self, id: u64, t: &TransactionView) -> String {
        self.tx_line(id, t, false)
    }

    /// `blocks[i]` is the block with id `i` (0 = genesis); `el` = the genesis epoch length
    pub fn build(blocks: &[&BlockView], el: u64) -> Ids {
        let mut ids = Ids::default();
        let mut next = TX_BASE;
        let g = blocks[0];
        ids.blk.insert(g.hash(), 0);
        let mut gt = vec![];
        for (i, t) in g.transactions().iter().enumerate() {
            let id = 1 + i as u64;
            ids.tx.insert(t.hash(), id);
            ids.txv.insert(id, t.clone());
            ids.lines.push(format!("gtx {} out={}", id, outs_of(t)));
            gt.push(id);
        }
        ids.lines.push(format!("genesis el={} txs={}", el, list(&gt)));
        for (bi, b) in blocks.iter().enumerate().skip(1) {
            ids.blk.insert(b.hash(), bi as u64);
            let mut txs = vec![];
            for (k, t) in b.transactions().iter().enumerate() {
                let id = match ids.tx.get(&t.hash()) {
                    Some(i) => *i,
                    None => {
                        let id = if k == 0 {
                            CB_BASE + bi as u64
                        } else {
                            next += 1;
                            next
                        };
                        let line = ids.tx_line(id, t, k == 0);
                        ids.lines.push(line);
                        id
                    }
                };
                txs.push(id);
            }
            let mut uncles = vec![];
            for (k, u) in b.uncles().into_iter().enumerate() {
                let id = UNCLE_BASE + 4 * bi as u64 + k as u64;
                ids.blk.entry(u.hash()).or_insert(id);
                uncles.push(ids.blk[&u.hash()]);
            }
            let e = b.epoch();
            ids.lines.push(format!("body {} ep={}.{}.{} txs={} uncles={}", bi, e.number(), e.index(), e.length(), list(&txs), list(&uncles)));
        }
        ids
    }
}

pub const SECTIONS: [&str; 14] = ["cell", "data", "dhash", "txinfo", "index", "rindex", "uncles", "bepoch", "epoch", "epnum", "ext", "meta", "body", "mmr"];
/// columns that are exactly the main chain's view
const EXACT: [&str; 9] = ["cell", "data", "dhash", "txinfo", "index", "rindex", "uncles", "epnum", "meta"];
/// per-block records: the node also keeps rows of side-chain blocks; the replay's rows must be there
const SUBSET: [&str; 3] = ["bepoch", "epoch", "ext"];

#[derive(Default, Clone, PartialEq)]
pub struct Dump {
    pub sec: BTreeMap<&'static str, BTreeMap<Vec<u64>, String>>,
}

impl Dump {
    fn put(&mut self, s: &'static str, k: Vec<u64>, v: String) {
        self.sec.entry(s).or_default().insert(k, v);
    }
    pub fn line(&self) -> String {
        let mut parts = vec![];
        for s in SECTIONS {
            let e: Vec<String> = self.sec.get(s).map(|m| m.values().cloned().collect()).unwrap_or_default();
            parts.push(format!("{}={}", s, if e.is_empty() { "-".to_string() } else { e.join(",") }));
        }
        parts.join(" ")
    }
}

fn iter_col<S: ChainStore>(s: &S, col: Col) -> Vec<(Vec<u8>, Vec<u8>)> {
    s.get_iter(col, IteratorMode::Start).map(|(k, v)| (k.to_vec(), v.to_vec())).collect()
}

/// the 12 sections of the C02 dump (same text) + `body`
pub fn dump<S: ChainStore>(s: &S, ids: &Ids, genesis_difficulty: &ckb_types::U256) -> Dump {
    let mut d = Dump::default();
    for (k, v) in iter_col(s, COLUMN_CELL) {
        let h = Byte32::from_slice(&k[..32]).unwrap();
        let idx = u32::from_be_bytes([k[32], k[33], k[34], k[35]]) as u64;
        let (ti, ts) = ids.t(&h);
        let e = packed::CellEntryReader::from_slice_should_be_ok(&v);
        let (_, bs) = ids.b(&e.block_hash().to_entity());
        let num: u64 = e.block_number().into();
        let epv: u64 = e.block_epoch().into();
        let txi: u32 = e.index().into();
        let dsz: u64 = e.data_size().into();
        let same = ids.txv.get(&ti).and_then(|t| t.output(idx as usize)).map(|o| o.as_slice() == e.output().as_slice()).unwrap_or(false);
        d.put("cell", vec![ti, idx], format!("{}:{}@{}/{}/{}/{}/{}/{}", ts, idx, bs, num, ep(epv), txi, dsz, if same { "=" } else { "!" }));
    }
    for (k, v) in iter_col(s, COLUMN_CELL_DATA) {
        let h = Byte32::from_slice(&k[..32]).unwrap();
        let idx = u32::from_be_bytes([k[32], k[33], k[34], k[35]]) as u64;
        let (ti, ts) = ids.t(&h);
        let txt = if v.is_empty() {
            "-".to_string()
        } else {
            let e = packed::CellDataEntryReader::from_slice_should_be_ok(&v);
            let data = e.output_data().raw_data();
            let ok = packed::CellOutput::calc_data_hash(data).as_slice() == e.output_data_hash().as_slice();
            format!("{}{}", dtag(data), if ok { "" } else { "!" })
        };
        d.put("data", vec![ti, idx], format!("{}:{}/{}", ts, idx, txt));
    }
    for (k, v) in iter_col(s, COLUMN_CELL_DATA_HASH) {
        let h = Byte32::from_slice(&k[..32]).unwrap();
        let idx = u32::from_be_bytes([k[32], k[33], k[34], k[35]]) as u64;
        let (ti, ts) = ids.t(&h);
        let txt = if v.is_empty() {
            "-".to_string()
        } else {
            match ids.txv.get(&ti).and_then(|t| t.outputs_data().get(idx as usize)) {
                Some(data) if packed::CellOutput::calc_data_hash(&data.raw_data()).as_slice() == &v[..] => dtag(&data.raw_data()),
                _ => "!".to_string(),
            }
        };
        d.put("dhash", vec![ti, idx], format!("{}:{}/{}", ts, idx, txt));
    }
    for (k, v) in iter_col(s, COLUMN_TRANSACTION_INFO) {
        let (ti, ts) = ids.t(&Byte32::from_slice(&k).unwrap());
        let e = packed::TransactionInfoReader::from_slice_should_be_ok(&v);
        let (_, bs) = ids.b(&e.key().block_hash().to_entity());
        let num: u64 = e.block_number().into();
        let epv: u64 = e.block_epoch().into();
        let idx: u32 = e.key().index().into();
        d.put("txinfo", vec![ti], format!("{}@{}/{}/{}/{}", ts, bs, idx, num, ep(epv)));
    }
    for (k, v) in iter_col(s, COLUMN_INDEX) {
        if k.len() == 8 {
            let (_, bs) = ids.b(&Byte32::from_slice(&v).unwrap());
            d.put("index", vec![le64(&k)], format!("{}:{}", le64(&k), bs));
        } else {
            let (bi, bs) = ids.b(&Byte32::from_slice(&k).unwrap());
            d.put("rindex", vec![bi], format!("{}:{}", bs, le64(&v)));
        }
    }
    for (k, v) in iter_col(s, COLUMN_UNCLES) {
        let kh = Byte32::from_slice(&k).unwrap();
        let (bi, bs) = ids.b(&kh);
        let hv = packed::HeaderViewReader::from_slice_should_be_ok(&v);
        let ok = hv.hash().as_slice() == kh.as_slice();
        d.put("uncles", vec![bi], format!("{}{}", bs, if ok { "" } else { "!" }));
    }
    for (k, v) in iter_col(s, COLUMN_BLOCK_EPOCH) {
        let (bi, bs) = ids.b(&Byte32::from_slice(&k).unwrap());
        let (_, ks) = ids.b(&Byte32::from_slice(&v).unwrap());
        d.put("bepoch", vec![bi], format!("{}:{}", bs, ks));
    }
    for (k, v) in iter_col(s, COLUMN_EPOCH) {
        if k.len() == 8 {
            let (_, ks) = ids.b(&Byte32::from_slice(&v).unwrap());
            d.put("epnum", vec![le64(&k)], format!("{}:{}", le64(&k), ks));
        } else {
            let kh = Byte32::from_slice(&k).unwrap();
            let (ki, ks) = ids.b(&kh);
            let e: ckb_types::core::EpochExt = packed::EpochExtReader::from_slice_should_be_ok(&v).into();
            let ok = e.last_block_hash_in_previous_epoch() == kh;
            d.put("epoch", vec![ki], format!("{}:{}/{}/{}{}", ks, e.number(), e.start_number(), e.length(), if ok { "" } else { "!" }));
        }
    }
    for (k, _v) in iter_col(s, COLUMN_BLOCK_EXT) {
        let kh = Byte32::from_slice(&k).unwrap();
        let (bi, bs) = ids.b(&kh);
        let e = s.get_block_ext(&kh).expect("ext row");
        let v = match e.verified {
            Some(true) => "T",
            Some(false) => "F",
            None => "N",
        };
        let td = if &e.total_difficulty >= genesis_difficulty {
            let x = &e.total_difficulty - genesis_difficulty;
            let q = &x / genesis_difficulty;
            let r = &x % genesis_difficulty;
            if r == ckb_types::U256::zero() { q.to_string() } else { format!("{}!", e.total_difficulty) }
        } else {
            format!("{}!", e.total_difficulty)
        };
        let fees: Vec<String> = e.txs_fees.iter().map(|c| c.as_u64().to_string()).collect();
        d.put("ext", vec![bi], format!("{}:{}/{}/{}/{}", bs, v, td, e.total_uncles_count, if fees.is_empty() { "-".to_string() } else { fees.join(".") }));
    }
    if let Some(v) = s.get(COLUMN_META, META_TIP_HEADER_KEY) {
        let (_, bs) = ids.b(&Byte32::from_slice(v.as_ref()).unwrap());
        d.put("meta", vec![0], format!("tip:{}", bs));
    }
    if let Some(raw) = s.get(COLUMN_META, META_CURRENT_EPOCH_KEY) {
        let e: ckb_types::core::EpochExt = packed::EpochExtReader::from_slice_should_be_ok(raw.as_ref()).into();
        let (_, ks) = ids.b(&e.last_block_hash_in_previous_epoch());
        d.put("meta", vec![1], format!("cur:{}/{}/{}/{}", e.number(), e.start_number(), e.length(), ks));
    }
    // the block rows: `insert_block` / `delete_block` write six columns in one transaction, so a block is
    // either completely there (header, uncles, proposal ids, NUMBER_HASH row with the body length, that
    // many body rows) or not at all
    let mut parts: BTreeMap<Byte32, [u64; 5]> = BTreeMap::new();
    let mut headers: HashMap<Byte32, u64> = HashMap::new();
    for (k, v) in iter_col(s, COLUMN_BLOCK_HEADER) {
        let kh = Byte32::from_slice(&k).unwrap();
        let hv = packed::HeaderViewReader::from_slice_should_be_ok(&v);
        let n: u64 = hv.data().raw().number().to_entity().into();
        headers.insert(kh.clone(), n);
        parts.entry(kh).or_default()[0] += 1;
    }
    for (k, _) in iter_col(s, COLUMN_BLOCK_UNCLE) {
        parts.entry(Byte32::from_slice(&k).unwrap()).or_default()[1] += 1;
    }
    for (k, _) in iter_col(s, COLUMN_BLOCK_PROPOSAL_IDS) {
        parts.entry(Byte32::from_slice(&k).unwrap()).or_default()[2] += 1;
    }
    let mut txs_len: HashMap<Byte32, u64> = HashMap::new();
    for (k, v) in iter_col(s, COLUMN_NUMBER_HASH) {
        let nh = packed::NumberHashReader::from_slice_should_be_ok(&k);
        let h = nh.block_hash().to_entity();
        let n: u64 = nh.number().to_entity().into();
        let len: u32 = packed::Uint32Reader::from_slice_should_be_ok(&v).to_entity().into();
        txs_len.insert(h.clone(), len as u64);
        let e = parts.entry(h.clone()).or_default();
        e[3] += 1;
        if headers.get(&h) != Some(&n) {
            e[3] += 100;
        }
    }
    for (k, _) in iter_col(s, COLUMN_BLOCK_BODY) {
        let h = Byte32::from_slice(&k[..32]).unwrap();
        parts.entry(h).or_default()[4] += 1;
    }
    for (h, p) in parts {
        let (bi, bs) = ids.b(&h);
        let whole = p[0] == 1 && p[1] == 1 && p[2] == 1 && p[3] == 1 && Some(&p[4]) == txs_len.get(&h);
        d.put("body", vec![bi, le64(h.as_slice())], format!("{}{}", bs, if whole { "" } else { "!" }));
    }
    d
}

fn first_diff(a: &BTreeMap<Vec<u64>, String>, b: &BTreeMap<Vec<u64>, String>, subset: bool) -> Option<String> {
    for (k, v) in b {
        match a.get(k) {
            Some(x) if x == v => {}
            Some(x) => return Some(format!("node has `{}` replay has `{}`", x, v)),
            None => return Some(format!("node lacks `{}`", v)),
        }
    }
    if !subset {
        for (k, v) in a {
            if !b.contains_key(k) {
                return Some(format!("node has extra `{}`", v));
            }
        }
    }
    None
}

/// the property itself, on the implementation alone: dump of the crashed database vs dump of a store that
/// only ever attached genesis..=tip
pub fn compare_with_replay(node: &Dump, replay: &Dump) -> Vec<(String, String)> {
    let empty = BTreeMap::new();
    let mut v = vec![];
    for s in EXACT {
        if let Some(d) = first_diff(node.sec.get(s).unwrap_or(&empty), replay.sec.get(s).unwrap_or(&empty), false) {
            v.push((format!("crash-view-{}-neq-replay", s), d));
        }
    }
    for s in SUBSET {
        if let Some(d) = first_diff(node.sec.get(s).unwrap_or(&empty), replay.sec.get(s).unwrap_or(&empty), true) {
            v.push((format!("crash-record-{}-neq-replay", s), d));
        }
    }
    v
}

/// `mmr` section: the chain-root MMR rows below `leaf_index_to_mmr_size(tip number)` must all be there and
/// equal the replay's (rows above may be stale leftovers of a detached branch: rollback does not delete them)
pub fn put_mmr<S: ChainStore, R: ChainStore>(d: &mut Dump, s: &S, replay: Option<&R>, tip_number: u64) {
    let size = leaf_index_to_mmr_size(tip_number);
    let mut good = 0u64;
    let mut bad = false;
    for p in 0..size {
        match s.get_header_digest(p) {
            Some(x) => {
                good += 1;
                if let Some(r) = replay {
                    if r.get_header_digest(p).map(|y| y.as_slice().to_vec()) != Some(x.as_slice().to_vec()) {
                        bad = true;
                    }
                }
            }
            None => bad = true,
        }
    }
    d.put("mmr", vec![0], format!("{}{}", good, if bad { "!" } else { "" }));
}
