//! C01 — the tip is the head of the heaviest fully valid chain, for any delivery order.
//!
//! Random block trees are materialised as real blocks (`ChainBuilder`) and fed to a real node (three
//! chain-service threads) in random arrival orders, with duplicates, missing ancestors, and blocks
//! that are really invalid (non-contextually: corrupted transactions root; contextually: DAO field,
//! chain-root extension, cellbase reward).
//!
//! Protocol (model side: lean/CkbVerif/Driver/C01.lean), one case per tree x arrival order, a fresh
//! node directory per case; ids: genesis = 0, other blocks in build order (parent id < child id):
//!   blk <id> <parent> <num> <epoch> <work> <nc> <ok>   -> ok
//!   deliver <id> <hint>    SERIALISED: delivered through `verif_process_lonely_block_sync`, then the
//!                          harness waits for quiescence                      -> state line
//!   burst <id,id,..>       BURST: all deliveries at once from 1-3 threads, then a fence (genesis
//!                          delivered synchronously), then quiescence           -> td=<n>
//! state line: cb=<id>:<new|known|err|drop>,.. tip=<id> td=<n> orph=<k> stored=<ids> ext=<id>:<td>,..
//!             ver=<ids> inv=<ids>
//! hint = ids whose callbacks fired during the op, in firing order, without the delivered id (the
//! implementation's arbitrary HashMap sibling order when orphans are released).
//!
//! The case label carries what a replay needs besides the op lines: `el=<epoch length>` and
//! `thr=<threads of a burst>`.
use crate::common::*;
use crate::node::*;
use ckb_chain::{LonelyBlock, VerifyResult};
use ckb_db_schema::COLUMN_BLOCK_HEADER;
use ckb_shared::block_status::BlockStatus;
use ckb_store::ChainStore;
use ckb_types::core::BlockView;
use ckb_types::packed::Byte32;
use ckb_types::prelude::*;
use ckb_types::U256;
use std::collections::{HashMap, HashSet};
use std::path::{Path, PathBuf};
use std::sync::{Arc, Mutex};
use std::time::{Duration, Instant};

/// 60 s; `VERIF_C01_TIMEOUT_S` overrides it (debugging only)
fn quiescence_timeout() -> Duration {
    Duration::from_secs(std::env::var("VERIF_C01_TIMEOUT_S").ok().and_then(|v| v.parse().ok()).unwrap_or(60))
}

/// A panic of any thread other than `main` (i.e. a node thread) is recorded here by a panic hook, so
/// that a dead pipeline is reported at once, with its cause, instead of after the 60 s timeout.
/// (Nothing is caught: the thread still dies and the default hook still prints the backtrace.)
static NODE_PANIC: Mutex<Option<String>> = Mutex::new(None);

fn install_panic_hook() {
    let prev = std::panic::take_hook();
    std::panic::set_hook(Box::new(move |info| {
        let name = std::thread::current().name().unwrap_or("?").to_string();
        if name != "main" {
            let loc = info.location().map(|l| format!("{}:{}", l.file(), l.line())).unwrap_or_default();
            let p = info.payload();
            let msg = p.downcast_ref::<&str>().map(|s| s.to_string()).or_else(|| p.downcast_ref::<String>().cloned()).unwrap_or_default();
            if let Ok(mut g) = NODE_PANIC.lock() {
                g.get_or_insert(format!("thread `{name}` panicked at {loc}: {msg}"));
            }
        }
        prev(info);
    }));
}

fn node_panic() -> Option<String> {
    NODE_PANIC.lock().ok().and_then(|g| g.clone())
}

// ------------------------------------------------------------------------------------------------
// callbacks
// ------------------------------------------------------------------------------------------------

#[derive(Clone, Copy, PartialEq, Eq, PartialOrd, Ord, Debug)]
enum Verdict {
    New,
    Known,
    Err,
    Drop,
}

impl Verdict {
    fn as_str(self) -> &'static str {
        match self {
            Verdict::New => "new",
            Verdict::Known => "known",
            Verdict::Err => "err",
            Verdict::Drop => "drop",
        }
    }
}

#[derive(Default)]
struct CbLog {
    /// (id, verdict) in the order the callbacks fired / were dropped
    events: Vec<(usize, Verdict)>,
    fired: usize,
    dropped: usize,
}

/// Owned by the callback closure: calling records the verdict, dropping un-called records `drop`.
struct Guard {
    id: usize,
    log: Arc<Mutex<CbLog>>,
    called: bool,
}

impl Guard {
    fn fire(mut self, r: VerifyResult) {
        self.called = true;
        let v = match r {
            Ok(true) => Verdict::New,
            Ok(false) => Verdict::Known,
            Err(_) => Verdict::Err,
        };
        let mut l = self.log.lock().unwrap();
        l.events.push((self.id, v));
        l.fired += 1;
    }
}

impl Drop for Guard {
    fn drop(&mut self) {
        if !self.called {
            let mut l = self.log.lock().unwrap();
            l.events.push((self.id, Verdict::Drop));
            l.dropped += 1;
        }
    }
}

// ------------------------------------------------------------------------------------------------
// blocks
// ------------------------------------------------------------------------------------------------

#[derive(Clone, Copy, PartialEq, Eq, Debug)]
enum Kind {
    Valid,
    /// passes non-contextual verification, fails contextual verification (nc=1 ok=0)
    Ctx,
    /// fails non-contextual verification (nc=0)
    Nc,
}

impl Kind {
    fn nc(self) -> bool {
        self != Kind::Nc
    }
    fn ok(self) -> bool {
        self == Kind::Valid
    }
    fn from_flags(nc: bool, ok: bool) -> Kind {
        if !nc {
            Kind::Nc
        } else if !ok {
            Kind::Ctx
        } else {
            Kind::Valid
        }
    }
}

/// The concrete single-rule violation for a block of the given kind: a deterministic function of
/// (id, number), so that a replay rebuilds the same block. `CellbaseCapacity` only exists above the
/// finalization delay (earlier cellbases have no output).
fn tweak_for(kind: Kind, id: usize, number: u64, fdl: u64) -> Tweak {
    match kind {
        Kind::Valid => Tweak::None,
        Kind::Nc => unreachable!("built by build_nc_invalid"),
        Kind::Ctx => {
            let n = if number > fdl { 3 } else { 2 };
            match id % n {
                0 => Tweak::Dao,
                1 => Tweak::Extension,
                _ => Tweak::CellbaseCapacity(1),
            }
        }
    }
}

#[derive(Clone)]
struct Blk {
    id: usize,
    parent: usize,
    block: Arc<BlockView>,
    hash: Byte32,
    num: u64,
    epoch: u64,
    work: u128,
    kind: Kind,
}

fn u256_dec(x: &U256) -> String {
    x.to_string()
}

fn u256_u128(x: &U256) -> u128 {
    u256_dec(x).parse::<u128>().expect("difficulty fits u128 (dummy PoW, DIFF_TWO)")
}

fn genesis_blk(consensus: &ckb_chain_spec::consensus::Consensus) -> Blk {
    let g = consensus.genesis_block().clone();
    Blk {
        id: 0,
        parent: 0,
        hash: g.hash(),
        num: g.number(),
        epoch: g.epoch().number(),
        work: u256_u128(&g.header().difficulty()),
        kind: Kind::Valid,
        block: Arc::new(g),
    }
}

/// A fully valid block that is NOT attached to the builder's branch store (the store stays at the
/// parent, so a sibling can still be built in place): `Tweak::Timestamp` with the value the builder
/// would have chosen anyway. Used for blocks without children (no store is ever needed at their tip;
/// each new branch store costs a RocksDB open) and as the base of non-contextually invalid blocks.
fn build_detached(b: &mut ChainBuilder, parent: &Blk, salt: u64) -> BlockView {
    let ts = parent.block.timestamp() + 1 + salt % 3;
    b.build(&parent.hash, &BlockSpec { salt, tweak: Tweak::Timestamp(ts), ..Default::default() })
}

/// A block that fails non-contextual verification (`MerkleRootVerifier`): a valid block whose
/// header's transactions_root is overwritten, converted with `into_view_without_reset_header`.
/// (`Tweak::TxRoot` of node.rs goes through `packed::Block::into_view`, which recomputes the roots,
/// so it yields a valid block.) The corrupted block is registered in the builder so that children
/// can be built on it.
fn build_nc_invalid(b: &mut ChainBuilder, parent: &Blk, salt: u64) -> BlockView {
    let v = build_detached(b, parent, salt);
    let raw = v.data().header().raw().as_builder().transactions_root(Byte32::zero()).build();
    let header = v.data().header().as_builder().raw(raw).build();
    let block = v.data().as_builder().header(header).build().into_view_without_reset_header();
    assert!(block.transactions_root() != block.calc_transactions_root());
    b.blocks.remove(&v.hash());
    b.blocks.insert(block.hash(), block.clone());
    block
}

/// `leaf`: the caller knows that nothing will be built on this block (only an optimisation: the
/// block is byte-identical either way).
fn build_blk(b: &mut ChainBuilder, id: usize, parent: &Blk, kind: Kind, leaf: bool) -> Blk {
    let fdl = b.consensus.finalization_delay_length();
    let block = match kind {
        Kind::Nc => build_nc_invalid(b, parent, id as u64),
        Kind::Valid if leaf => build_detached(b, parent, id as u64),
        _ => {
            let tweak = tweak_for(kind, id, parent.num + 1, fdl);
            b.build(&parent.hash, &BlockSpec { salt: id as u64, tweak, ..Default::default() })
        }
    };
    Blk {
        id,
        parent: parent.id,
        hash: block.hash(),
        num: block.number(),
        epoch: block.epoch().number(),
        work: u256_u128(&block.header().difficulty()),
        kind,
        block: Arc::new(block),
    }
}

fn blk_line(b: &Blk) -> String {
    // nc=0: `ok` is irrelevant, written as 1
    let ok = if b.kind == Kind::Nc { true } else { b.kind.ok() };
    format!("blk {} {} {} {} {} {} {}", b.id, b.parent, b.num, b.epoch, b.work, b.kind.nc() as u8, ok as u8)
}

// ------------------------------------------------------------------------------------------------
// one case on a real node
// ------------------------------------------------------------------------------------------------

struct StateView {
    tip: Option<usize>,
    td: u128,
    orph: usize,
    stored: Vec<usize>,
    ext: Vec<(usize, u128)>,
    ver: Vec<usize>,
    inv: Vec<usize>,
}

fn show_ids(v: &[usize]) -> String {
    if v.is_empty() { "-".into() } else { v.iter().map(|i| i.to_string()).collect::<Vec<_>>().join(",") }
}

struct CaseRun {
    node: Option<Node>,
    dir: PathBuf,
    blks: Vec<Blk>,
    by_id: HashMap<usize, usize>,
    by_hash: HashMap<Byte32, usize>,
    log: Arc<Mutex<CbLog>>,
    /// callbacks handed to the node so far
    handed: usize,
    delivered: HashSet<usize>,
    prev: Option<(usize, u128)>,
    prev_tie: bool,
    dead: bool,
    had_reorg: bool,
    had_tie: bool,
    arrival: Vec<usize>,
    threads: usize,
}

impl CaseRun {
    fn start(dir: &Path, consensus: &ckb_chain_spec::consensus::Consensus, cfg: &NodeCfg, threads: usize) -> CaseRun {
        let _ = std::fs::remove_dir_all(dir);
        // the dead node of an earlier case (if any) is forgotten
        if let Ok(mut g) = NODE_PANIC.lock() {
            *g = None;
        }
        let node = Node::start(dir, consensus.clone(), cfg);
        // The start-up scan (`InitLoadUnverified`, its own thread) re-delivers, without callback,
        // every stored block that has no ext. It must have finished before the first delivery (the
        // sync layer waits for the same flag), else it picks up the harness's freshly stored orphans,
        // replaces their pool entries and drops their callbacks.
        let t = Instant::now();
        while node.controller().is_verifying_unverified_blocks_on_startup() {
            assert!(t.elapsed() < Duration::from_secs(60), "the start-up scan of a fresh node did not finish in 60 s");
            std::thread::sleep(Duration::from_micros(100));
        }
        CaseRun {
            node: Some(node),
            dir: dir.to_path_buf(),
            blks: vec![],
            by_id: HashMap::new(),
            by_hash: HashMap::new(),
            log: Arc::new(Mutex::new(CbLog::default())),
            handed: 0,
            delivered: HashSet::new(),
            prev: None,
            prev_tie: false,
            dead: false,
            had_reorg: false,
            had_tie: false,
            arrival: vec![],
            threads: threads.clamp(1, 3),
        }
    }

    fn node(&self) -> &Node {
        self.node.as_ref().unwrap()
    }

    fn get(&self, id: usize) -> &Blk {
        &self.blks[*self.by_id.get(&id).unwrap_or_else(|| panic!("block id {id} not declared"))]
    }

    fn declare(&mut self, out: &mut Out, b: Blk) {
        assert!(!self.by_id.contains_key(&b.id), "block id {} declared twice", b.id);
        if b.id == 0 {
            assert!(self.blks.is_empty(), "blk 0 must be the first declaration");
        } else {
            assert!(self.by_id.contains_key(&0), "blk 0 must be declared first");
            assert!(b.parent < b.id && self.by_id.contains_key(&b.parent), "blk {}: parent {} must be declared before and be smaller", b.id, b.parent);
        }
        out.op(&blk_line(&b), "ok");
        if std::env::var("VERIF_C01_LOG").is_ok() {
            eprintln!("[map] {} {:#x}", b.id, b.hash);
        }
        match b.kind {
            Kind::Ctx => out.count("blk-invalid-ctx"),
            Kind::Nc => out.count("blk-invalid-nc"),
            Kind::Valid => {}
        }
        self.by_id.insert(b.id, self.blks.len());
        self.by_hash.insert(b.hash.clone(), self.blks.len());
        self.blks.push(b);
    }

    fn lonely(&mut self, id: usize) -> LonelyBlock {
        let block = self.get(id).block.clone();
        self.handed += 1;
        let g = Guard { id, log: self.log.clone(), called: false };
        LonelyBlock { block, switch: None, verify_callback: Some(Box::new(move |r: VerifyResult| g.fire(r))) }
    }

    /// Sound quiescence probe: with the chain-service thread idle (a synchronous request has
    /// returned), every callback that is neither fired nor dropped is held either by the orphan pool
    /// (one per pooled hash) or by one of the two queues / the verify thread. So
    /// `handed - fired - dropped == orphan_blocks_len()` iff the queues are empty and the verify
    /// thread has finished (callbacks fire after commit, snapshot publication and pending removal).
    fn wait_quiescent(&self) -> Result<(), String> {
        let start = Instant::now();
        let mut step = Duration::from_micros(200);
        loop {
            // a panicking node thread drops the callback it holds (recorded as `drop`), so the
            // counters below could balance on a dead pipeline: look at the recorded panic first
            if let Some(p) = node_panic() {
                return Err(format!("a node thread died: {p}"));
            }
            let (fired, dropped) = {
                let l = self.log.lock().unwrap();
                (l.fired, l.dropped)
            };
            let outstanding = self.handed - fired - dropped;
            let pool = self.node().controller().orphan_blocks_len();
            if outstanding == pool {
                return Ok(());
            }
            if start.elapsed() > quiescence_timeout() {
                let l = self.log.lock().unwrap();
                let tail: Vec<String> = l.events.iter().rev().take(12).rev().map(|(i, v)| format!("{}:{}", i, v.as_str())).collect();
                return Err(format!(
                    "no quiescence after {}s: handed={} fired={} dropped={} orphan_pool={} last_callbacks={}",
                    quiescence_timeout().as_secs(),
                    self.handed,
                    l.fired,
                    l.dropped,
                    self.node().controller().orphan_blocks_len(),
                    tail.join(",")
                ));
            }
            std::thread::sleep(step);
            step = (step * 2).min(Duration::from_millis(1));
        }
    }

    fn read_state(&self, out: &mut Out) -> StateView {
        let node = self.node();
        let snap = node.shared.snapshot();
        let tip = self.by_hash.get(&snap.tip_hash()).map(|i| self.blks[*i].id);
        let td = u256_u128(snap.total_difficulty());
        let mut ids: Vec<usize> = self.blks.iter().map(|b| b.id).collect();
        ids.sort();
        let mut v = StateView { tip, td, orph: node.controller().orphan_blocks_len(), stored: vec![], ext: vec![], ver: vec![], inv: vec![] };
        for id in ids {
            let b = self.get(id);
            if node.store().get(COLUMN_BLOCK_HEADER, b.hash.as_slice()).is_some() {
                v.stored.push(id);
            }
            if let Some(ext) = node.store().get_block_ext(&b.hash) {
                v.ext.push((id, u256_u128(&ext.total_difficulty)));
                match ext.verified {
                    Some(true) => v.ver.push(id),
                    Some(false) => out.oracle_fail("ext-false", &format!("block {id} has a persisted ext with verified == Some(false)")),
                    None => {}
                }
            }
            if node.shared.get_block_status(&b.hash) == BlockStatus::BLOCK_INVALID {
                v.inv.push(id);
            }
        }
        v
    }

    // ---- oracle helpers (on the declared tree and the delivered set only) ----

    fn valid(&self, id: usize) -> bool {
        let mut b = self.get(id);
        loop {
            if b.id == 0 {
                return true;
            }
            if !self.delivered.contains(&b.id) || !b.kind.nc() || !b.kind.ok() {
                return false;
            }
            b = self.get(b.parent);
        }
    }

    fn total_work(&self, id: usize) -> u128 {
        let mut b = self.get(id);
        let mut s = 0u128;
        loop {
            s += b.work;
            if b.id == 0 {
                return s;
            }
            b = self.get(b.parent);
        }
    }

    fn is_ancestor_or_self(&self, a: usize, mut b: usize) -> bool {
        loop {
            if a == b {
                return true;
            }
            if b == 0 {
                return false;
            }
            b = self.get(b).parent;
        }
    }

    /// delivered and connected to genesis through delivered blocks, validity ignored
    fn connected(&self, id: usize) -> bool {
        let mut b = self.get(id);
        loop {
            if b.id == 0 {
                return true;
            }
            if !self.delivered.contains(&b.id) {
                return false;
            }
            b = self.get(b.parent);
        }
    }

    fn oracle(&mut self, out: &mut Out, v: &StateView, serialised: bool, what: &str) {
        let valid_ids: Vec<usize> = self.blks.iter().map(|b| b.id).filter(|i| self.valid(*i)).collect();
        let m = valid_ids.iter().map(|i| self.total_work(*i)).max().unwrap();
        match v.tip {
            None => out.oracle_fail("tip-invalid", &format!("{what}: the tip is not a declared block")),
            Some(tip) => {
                if !self.valid(tip) {
                    out.oracle_fail("tip-invalid", &format!("{what}: tip={tip} is not delivered-and-valid with valid ancestors"));
                }
                let want = self.total_work(tip);
                if v.td != want {
                    out.oracle_fail("td-mismatch", &format!("{what}: tip={tip} snapshot td={} but the work along its path is {want}", v.td));
                }
                if valid_ids.iter().any(|i| *i != tip && self.total_work(*i) == m) && v.td == m {
                    if !self.prev_tie {
                        out.count("tie-at-tip");
                    }
                    self.prev_tie = true;
                    self.had_tie = true;
                } else {
                    self.prev_tie = false;
                }
                if let Some((ptip, ptd)) = self.prev {
                    if v.td < ptd {
                        out.oracle_fail("td-decreased", &format!("{what}: td {ptd} -> {}", v.td));
                    }
                    if ptip != tip {
                        if serialised && v.td <= ptd {
                            out.oracle_fail("tip-moved-not-heavier", &format!("{what}: tip {ptip} (td {ptd}) -> {tip} (td {})", v.td));
                        }
                        if !self.is_ancestor_or_self(ptip, tip) {
                            out.count("reorg");
                            self.had_reorg = true;
                        }
                    }
                }
                self.prev = Some((tip, v.td));
            }
        }
        if v.td < m {
            out.oracle_fail("not-maximal", &format!("{what}: quiescent with td={} but a delivered fully valid block has total work {m}", v.td));
        }
        for id in &v.ver {
            if !self.valid(*id) {
                out.oracle_fail("verified-not-valid", &format!("{what}: block {id} has verified == Some(true) but is not valid"));
            }
        }
        for (id, t) in &v.ext {
            let want = self.total_work(*id);
            if *t != want {
                out.oracle_fail("ext-td-wrong", &format!("{what}: block {id} ext.total_difficulty={t}, work along its path is {want}"));
            }
        }
    }

    /// some block that cannot pass verification (itself or an ancestor is invalid in the declared
    /// tree) was delivered at least twice in this case: the necessary condition of finding F7
    /// (a second queued copy of a block whose first copy failed and was deleted)
    fn failed_block_delivered_twice(&self) -> bool {
        let mut seen = HashSet::new();
        for id in &self.arrival {
            if !seen.insert(*id) {
                let mut b = self.get(*id);
                loop {
                    if b.id == 0 {
                        break;
                    }
                    if !b.kind.nc() || !b.kind.ok() {
                        return true;
                    }
                    b = self.get(b.parent);
                }
            }
        }
        false
    }

    fn hang(&mut self, out: &mut Out, op: &str, detail: &str) {
        // a stalled pipeline is a violation either way; it is reported under the known-finding class
        // only when the case contains the trigger of F7, so that any other stall stays a plain `hang`
        let class = if self.failed_block_delivered_twice() { "pipeline-dead-after-duplicate-of-failed-block" } else { "hang" };
        out.oracle_fail(class, &format!("{op}: {detail}"));
        // no op line is written for the stalled operation (the model has no stalled state; the oracle
        // failure above is what reports it); the rest of the case is skipped
        let _ = op;
        self.dead = true;
    }

    fn deliver(&mut self, out: &mut Out, id: usize) {
        if self.dead {
            return;
        }
        let parent = self.get(id).parent;
        out.count("deliver");
        if self.delivered.contains(&id) {
            out.count("deliver-dup");
        }
        if id != 0 && parent != 0 && !self.delivered.contains(&parent) {
            out.count("deliver-orphan");
        }
        let first = self.log.lock().unwrap().events.len();
        if self.prev.is_none() {
            // the history starts at genesis
            let g = self.get(0).work;
            self.prev = Some((0, g));
        }
        let lb = self.lonely(id);
        self.arrival.push(id);
        let alive = self.node().controller().verif_process_lonely_block_sync(lb);
        if id != 0 {
            self.delivered.insert(id);
        }
        if !alive {
            return self.hang(out, &format!("deliver {id} -"), "the chain service has gone");
        }
        if let Err(e) = self.wait_quiescent() {
            return self.hang(out, &format!("deliver {id} -"), &e);
        }
        let events: Vec<(usize, Verdict)> = self.log.lock().unwrap().events[first..].to_vec();
        let hint: Vec<usize> = events.iter().filter(|(i, v)| *v != Verdict::Drop && *i != id).map(|(i, _)| *i).collect();
        let mut cbs = events.clone();
        cbs.sort();
        for (_, v) in &cbs {
            match v {
                Verdict::Err => out.count("cb-err"),
                Verdict::Drop => out.count("cb-drop"),
                _ => {}
            }
        }
        let v = self.read_state(out);
        let cb = if cbs.is_empty() { "-".to_string() } else { cbs.iter().map(|(i, v)| format!("{}:{}", i, v.as_str())).collect::<Vec<_>>().join(",") };
        let ext = if v.ext.is_empty() { "-".to_string() } else { v.ext.iter().map(|(i, t)| format!("{i}:{t}")).collect::<Vec<_>>().join(",") };
        let line = format!(
            "cb={} tip={} td={} orph={} stored={} ext={} ver={} inv={}",
            cb,
            v.tip.map(|t| t.to_string()).unwrap_or("?".into()),
            v.td,
            v.orph,
            show_ids(&v.stored),
            ext,
            show_ids(&v.ver),
            show_ids(&v.inv)
        );
        let op = format!("deliver {} {}", id, show_ids(&hint));
        out.op(&op, &line);
        self.oracle(out, &v, true, &op);
    }

    fn burst(&mut self, out: &mut Out, ids: &[usize]) {
        if self.dead {
            return;
        }
        let op = format!("burst {}", show_ids(ids));
        out.count("burst");
        for id in ids {
            let parent = self.get(*id).parent;
            out.count("deliver");
            if self.delivered.contains(id) {
                out.count("deliver-dup");
            }
            if *id != 0 && parent != 0 && !self.delivered.contains(&parent) {
                out.count("deliver-orphan");
            }
            if *id != 0 {
                self.delivered.insert(*id);
            }
            self.arrival.push(*id);
        }
        let first = self.log.lock().unwrap().events.len();
        if self.prev.is_none() {
            let g = self.get(0).work;
            self.prev = Some((0, g));
        }
        let k = self.threads;
        let mut chunks: Vec<Vec<LonelyBlock>> = (0..k).map(|_| vec![]).collect();
        for (i, id) in ids.iter().enumerate() {
            let lb = self.lonely(*id);
            chunks[i % k].push(lb);
        }
        let controller = self.node().controller().clone();
        std::thread::scope(|s| {
            for chunk in chunks {
                let c = controller.clone();
                s.spawn(move || {
                    for lb in chunk {
                        c.asynchronous_process_lonely_block(lb);
                    }
                });
            }
        });
        // fence: the chain-service thread answers the genesis block at once; when this returns it
        // has handled every earlier request
        let fence = LonelyBlock { block: self.get(0).block.clone(), switch: None, verify_callback: None };
        let alive = controller.verif_process_lonely_block_sync(fence);
        drop(controller);
        if !alive {
            return self.hang(out, &op, "the chain service has gone");
        }
        if let Err(e) = self.wait_quiescent() {
            return self.hang(out, &op, &e);
        }
        for (_, v) in self.log.lock().unwrap().events[first..].iter() {
            match v {
                Verdict::Err => out.count("cb-err"),
                Verdict::Drop => out.count("cb-drop"),
                _ => {}
            }
        }
        let v = self.read_state(out);
        out.op(&op, &format!("td={}", v.td));
        self.oracle(out, &v, false, &op);
    }

    /// true when the case is non-trivial by the stated rule
    fn finish(mut self, out: &mut Out) {
        // an invalid block inside the otherwise heaviest branch: the heaviest delivered block that is
        // connected to genesis (validity ignored) is heavier than the heaviest valid one
        let m_valid = self.blks.iter().filter(|b| self.valid(b.id)).map(|b| self.total_work(b.id)).max().unwrap_or(0);
        let m_all = self.blks.iter().filter(|b| self.connected(b.id)).map(|b| self.total_work(b.id)).max().unwrap_or(0);
        let invalid_on_heaviest = m_all > m_valid;
        if !self.dead && (self.had_reorg || self.had_tie || invalid_on_heaviest) {
            let mut h = 0xcbf29ce484222325u64;
            let mut eat = |x: u64| {
                for b in x.to_le_bytes() {
                    h ^= b as u64;
                    h = h.wrapping_mul(0x100000001b3);
                }
            };
            for b in &self.blks {
                eat(b.parent as u64);
                eat(b.kind as u64);
            }
            eat(u64::MAX);
            for a in &self.arrival {
                eat(*a as u64);
            }
            out.nontrivial(format!("{:016x}", h));
        }
        if let Some(n) = self.node.take() {
            if self.dead {
                // a dead pipeline may not join; do not wait for it
                std::mem::forget(n);
            } else {
                n.stop();
            }
        }
        let _ = std::fs::remove_dir_all(&self.dir);
    }
}

// ------------------------------------------------------------------------------------------------
// start-up self-test: every tweak is rejected at the claimed stage
// ------------------------------------------------------------------------------------------------

fn header_stored(node: &Node, h: &Byte32) -> bool {
    node.store().get(COLUMN_BLOCK_HEADER, h.as_slice()).is_some()
}

fn selftest(base: &Path) {
    assert_eq!(u256_dec(&U256::from(1234u64)), "1234", "U256 Display is not decimal");
    let cfg = NodeCfg { epoch_len: 4, with_pool: false, ..Default::default() };
    let consensus = make_consensus(&cfg);
    let fdl = consensus.finalization_delay_length();
    let dir = base.join("selftest");
    let node = Node::start(&dir.join("node"), consensus.clone(), &cfg);
    let mut b = ChainBuilder::new(consensus.clone(), &dir.join("builder"));
    let mut chain = vec![consensus.genesis_block().clone()];
    let height = fdl + 2;
    for n in 1..=height {
        let blk = b.build(&chain.last().unwrap().hash(), &BlockSpec { salt: n, ..Default::default() });
        assert_eq!(node.process(&blk), Ok(true), "selftest: valid block {n} rejected");
        chain.push(blk);
    }
    let tip = chain[height as usize].hash();
    let below = chain[height as usize - 1].hash();
    assert!(height > fdl);
    let mut salt = 1000;
    for tw in [Tweak::Dao, Tweak::Extension, Tweak::CellbaseCapacity(1)] {
        salt += 1;
        // as a sibling of the tip (equal work, not heavier): stored without verification => it passed
        // the non-contextual stage
        let side = b.build(&below, &BlockSpec { salt, tweak: tw.clone(), ..Default::default() });
        let r = node.process(&side);
        assert_eq!(r, Ok(true), "selftest: {tw:?} block must pass non-contextual verification and be stored as a side block");
        let ext = node.store().get_block_ext(&side.hash());
        assert!(header_stored(&node, &side.hash()) && matches!(ext, Some(ref e) if e.verified.is_none()), "selftest: {tw:?} side block must be stored with an unverified ext");
        assert_eq!(node.tip_hash(), tip);
        // on top of the tip (heavier): verified contextually and rejected
        salt += 1;
        let top = b.build(&tip, &BlockSpec { salt, tweak: tw.clone(), ..Default::default() });
        let r = node.process(&top);
        assert!(r.is_err(), "selftest: {tw:?} block on the tip must fail contextual verification, got {r:?}");
        assert_eq!(node.shared.get_block_status(&top.hash()), BlockStatus::BLOCK_INVALID, "selftest: {tw:?} block must be marked BLOCK_INVALID");
        assert!(!header_stored(&node, &top.hash()), "selftest: rejected {tw:?} block must be deleted");
        assert!(node.store().get_block_ext(&top.hash()).is_none(), "selftest: rejected {tw:?} block must have no ext");
        assert_eq!(node.tip_hash(), tip);
    }
    for parent in [height as usize - 1, height as usize] {
        salt += 1;
        let pb = Blk { id: 0, parent: 0, hash: chain[parent].hash(), num: chain[parent].number(), epoch: 0, work: 0, kind: Kind::Valid, block: Arc::new(chain[parent].clone()) };
        let bad = build_nc_invalid(&mut b, &pb, salt);
        let r = node.process(&bad);
        assert!(r.is_err(), "selftest: TxRoot block must fail, got {r:?}");
        assert_eq!(node.shared.get_block_status(&bad.hash()), BlockStatus::BLOCK_INVALID, "selftest: TxRoot block must be marked BLOCK_INVALID");
        assert!(!header_stored(&node, &bad.hash()), "selftest: TxRoot block must never be stored (non-contextual rejection)");
        assert_eq!(node.tip_hash(), tip);
    }
    // the detached way of building (used for leaves) yields the very same valid block
    let pb = Blk { id: 0, parent: 0, hash: tip.clone(), num: height, epoch: 0, work: 0, kind: Kind::Valid, block: Arc::new(chain[height as usize].clone()) };
    let d = build_detached(&mut b, &pb, 77);
    let n = b.build(&tip, &BlockSpec { salt: 77, ..Default::default() });
    assert_eq!(d.hash(), n.hash(), "selftest: detached building must give the same block");
    assert_eq!(node.process(&d), Ok(true), "selftest: detached-built block must be valid");
    node.stop();
    drop(b);
    let _ = std::fs::remove_dir_all(&dir);
}

// ------------------------------------------------------------------------------------------------
// generator
// ------------------------------------------------------------------------------------------------

struct TreeSpec {
    /// parent[i] for i in 1..=n (parent[0] = 0)
    parent: Vec<usize>,
    kind: Vec<Kind>,
    height: Vec<u64>,
    withheld: HashSet<usize>,
}

fn gen_tree(rng: &mut Rng, n: usize) -> TreeSpec {
    let mut parent = vec![0usize];
    let mut height = vec![0u64];
    for id in 1..=n {
        let r = rng.below(100);
        let p = if r < 55 {
            let mh = *height.iter().max().unwrap();
            let deepest: Vec<usize> = (0..id).filter(|i| height[*i] == mh).collect();
            *rng.pick(&deepest)
        } else if r < 80 {
            let lo = id.saturating_sub(6);
            rng.range(lo as u64, id as u64 - 1) as usize
        } else {
            rng.below(id as u64) as usize
        };
        parent.push(p);
        height.push(height[p] + 1);
    }
    let mut kind = vec![Kind::Valid; n + 1];
    // path of the first deepest leaf
    let mh = *height.iter().max().unwrap();
    let leaf = (0..=n).find(|i| height[*i] == mh).unwrap();
    let mut path = vec![];
    let mut x = leaf;
    while x != 0 {
        path.push(x);
        x = parent[x];
    }
    path.reverse();
    let tweaks = rng.below(4);
    for _ in 0..tweaks {
        let id = if !path.is_empty() && rng.chance(3, 4) {
            // on the longest branch, biased to its middle
            if rng.chance(2, 3) && path.len() >= 4 {
                let lo = path.len() / 4;
                let hi = path.len() - 1 - path.len() / 4;
                path[rng.range(lo as u64, hi as u64) as usize]
            } else {
                *rng.pick(&path)
            }
        } else {
            rng.range(1, n as u64) as usize
        };
        kind[id] = if rng.chance(3, 5) { Kind::Ctx } else { Kind::Nc };
    }
    let mut withheld = HashSet::new();
    if rng.chance(1, 2) {
        for _ in 0..rng.range(1, 2) {
            withheld.insert(rng.range(1, n as u64) as usize);
        }
    }
    TreeSpec { parent, kind, height, withheld }
}

fn gen_order(rng: &mut Rng, t: &TreeSpec) -> Vec<usize> {
    let n = t.parent.len() - 1;
    let mut order: Vec<usize> = (1..=n).filter(|i| !t.withheld.contains(i)).collect();
    if order.is_empty() {
        order.push(1);
    }
    match rng.below(3) {
        0 => {
            // mostly in order, a few swaps
            let swaps = rng.range(0, 2 + order.len() as u64 / 6);
            for _ in 0..swaps {
                let i = rng.below(order.len() as u64) as usize;
                let j = rng.below(order.len() as u64) as usize;
                order.swap(i, j);
            }
        }
        1 => rng.shuffle(&mut order),
        _ => {
            // children first
            order.reverse();
            let swaps = rng.range(0, 1 + order.len() as u64 / 8);
            for _ in 0..swaps {
                let i = rng.below(order.len() as u64) as usize;
                let j = rng.below(order.len() as u64) as usize;
                order.swap(i, j);
            }
        }
    }
    // duplicates: 10-30% of the deliveries are repeated, mostly later, sometimes anywhere
    let dups = (order.len() as u64 * rng.range(10, 30)).div_ceil(100);
    for _ in 0..dups {
        let i = rng.below(order.len() as u64) as usize;
        let id = order[i];
        let pos = if rng.chance(7, 10) { rng.range(i as u64 + 1, order.len() as u64) } else { rng.range(0, order.len() as u64) } as usize;
        order.insert(pos, id);
    }
    order
}

fn generate(out: &mut Out, opts: &Opts, builder_base: &Path, node_base: &Path) {
    let mut rng = Rng::new(opts.seed);
    // measured: a tree costs ~0.4 s CPU to build (one RocksDB open per branch of the builder), a case
    // ~0.2 s (node start); quick = 20 trees x 3 orders = 60 cases, thorough = 100 x 6 = 600 cases (250 x 6 took 17.7 min on the loaded machine)
    let (trees, orders) = if opts.thorough() { (100 * opts.scale, 6) } else { (20 * opts.scale, 3) };
    let t0 = Instant::now();
    let mut cases = 0u64;
    let (mut t_build, mut t_start, mut t_ops, mut t_stop) = (Duration::ZERO, Duration::ZERO, Duration::ZERO, Duration::ZERO);
    for tno in 0..trees {
        let cfg = NodeCfg { epoch_len: rng.range(3, 6), with_pool: false, ..Default::default() };
        let consensus = make_consensus(&cfg);
        let n = if opts.thorough() && rng.chance(1, 4) { rng.range(41, 120) } else { rng.range(8, 40) } as usize;
        let tree = gen_tree(&mut rng, n);
        let bdir = builder_base.join(format!("t{tno}"));
        let tb = Instant::now();
        let mut builder = ChainBuilder::new(consensus.clone(), &bdir);
        builder.max_branch_stores = 12;
        let mut blks = vec![genesis_blk(&consensus)];
        for id in 1..=n {
            let leaf = !tree.parent[id + 1..].contains(&id);
            let b = build_blk(&mut builder, id, &blks[tree.parent[id]].clone(), tree.kind[id], leaf);
            blks.push(b);
        }
        drop(builder);
        let _ = std::fs::remove_dir_all(&bdir);
        t_build += tb.elapsed();
        for ono in 0..orders {
            let order = gen_order(&mut rng, &tree);
            let burst = rng.chance(3, 10);
            let threads = rng.range(1, 3) as usize;
            let label = format!("el={} mode={} thr={} tree={} ord={} n={}", cfg.epoch_len, if burst { "burst" } else { "ser" }, threads, tno, ono, n);
            let case = out.begin_case(&label);
            let ts = Instant::now();
            let mut run = CaseRun::start(&node_base.join(format!("c{case}")), &consensus, &cfg, threads);
            t_start += ts.elapsed();
            for b in &blks {
                run.declare(out, b.clone());
            }
            let to = Instant::now();
            if burst {
                run.burst(out, &order);
            } else {
                for id in &order {
                    run.deliver(out, *id);
                    if run.dead {
                        break;
                    }
                }
            }
            t_ops += to.elapsed();
            let tf = Instant::now();
            run.finish(out);
            t_stop += tf.elapsed();
            cases += 1;
            if cases % 100 == 0 {
                eprintln!("C01: {} cases, {} trees, {:.1}s", cases, tno + 1, t0.elapsed().as_secs_f64());
            }
        }
    }
    eprintln!(
        "C01: {} cases in {:.1}s (building blocks {:.1}s, node start {:.1}s, deliveries {:.1}s, node stop {:.1}s)",
        cases,
        t0.elapsed().as_secs_f64(),
        t_build.as_secs_f64(),
        t_start.as_secs_f64(),
        t_ops.as_secs_f64(),
        t_stop.as_secs_f64()
    );
}

// ------------------------------------------------------------------------------------------------
// replay
// ------------------------------------------------------------------------------------------------

fn label_num(tokens: &[&str], key: &str, default: u64) -> u64 {
    tokens.iter().find_map(|t| t.strip_prefix(key).and_then(|v| v.parse::<u64>().ok())).unwrap_or(default)
}

fn parse_ids(s: &str) -> Vec<usize> {
    if s == "-" {
        return vec![];
    }
    s.split(',').map(|x| x.parse::<usize>().unwrap_or_else(|_| panic!("bad id list {s}"))).collect()
}

struct ReplayCase {
    run: CaseRun,
    /// ids that some later `blk` line of the case names as parent
    parents: HashSet<usize>,
    builder: ChainBuilder,
    bdir: PathBuf,
}

fn replay(out: &mut Out, ops: &[String], builder_base: &Path, node_base: &Path) {
    let mut cur: Option<ReplayCase> = None;
    let mut cno = 0;
    let finish = |cur: &mut Option<ReplayCase>, out: &mut Out| {
        if let Some(rc) = cur.take() {
            rc.run.finish(out);
            drop(rc.builder);
            let _ = std::fs::remove_dir_all(&rc.bdir);
        }
    };
    for (lno, line) in ops.iter().enumerate() {
        let t: Vec<&str> = line.split_whitespace().collect();
        match t[0] {
            "case" => {
                let parents: HashSet<usize> = ops[lno + 1..]
                    .iter()
                    .take_while(|l| !l.starts_with("case"))
                    .filter_map(|l| {
                        let t: Vec<&str> = l.split_whitespace().collect();
                        if t.len() == 8 && t[0] == "blk" && t[1] != "0" { t[2].parse::<usize>().ok() } else { None }
                    })
                    .collect();
                finish(&mut cur, out);
                cno += 1;
                let el = label_num(&t[2..], "el=", 4).clamp(1, 1000);
                let thr = label_num(&t[2..], "thr=", 2) as usize;
                let cfg = NodeCfg { epoch_len: el, with_pool: false, ..Default::default() };
                let consensus = make_consensus(&cfg);
                out.begin_case(&t[2..].join(" "));
                let bdir = builder_base.join(format!("r{cno}"));
                let mut builder = ChainBuilder::new(consensus.clone(), &bdir);
                builder.max_branch_stores = 12;
                let run = CaseRun::start(&node_base.join(format!("r{cno}")), &consensus, &cfg, thr);
                cur = Some(ReplayCase { run, parents, builder, bdir });
            }
            "blk" => {
                let rc = cur.as_mut().expect("blk before case");
                assert_eq!(t.len(), 8, "bad blk line {line}");
                let id: usize = t[1].parse().expect("blk id");
                let parent: usize = t[2].parse().expect("blk parent");
                let nc = t[6] == "1";
                let ok = t[7] == "1";
                let b = if id == 0 {
                    genesis_blk(&rc.builder.consensus)
                } else {
                    assert!(parent < id && rc.run.by_id.contains_key(&parent), "blk {id}: parent {parent} must be declared before and be smaller");
                    let p = rc.run.get(parent).clone();
                    build_blk(&mut rc.builder, id, &p, Kind::from_flags(nc, ok), !rc.parents.contains(&id))
                };
                rc.run.declare(out, b);
            }
            "deliver" => {
                let rc = cur.as_mut().expect("deliver before case");
                let id: usize = t[1].parse().expect("deliver id");
                rc.run.deliver(out, id);
            }
            "burst" => {
                let rc = cur.as_mut().expect("burst before case");
                let ids = parse_ids(t[1]);
                assert!(!ids.is_empty(), "empty burst");
                rc.run.burst(out, &ids);
            }
            _ => panic!("bad replay op {line}"),
        }
    }
    finish(&mut cur, out);
}


// ------------------------------------------------------------------------------------------------
// suspected finding F7: a second queued copy of a block that fails verification (duplicate
// delivery), or a child accepted while its parent was pending, waits behind more than 128 queued
// blocks; when the first copy / the parent has been deleted the preload thread's
// `get_block(..).expect("block stored")` (or the parent-header expect) panics and the pipeline stalls.
// Burst order (one sender thread): O2..Ok (orphans, O1 missing), S1..S8, X, O1, C (child of X), X.
// ------------------------------------------------------------------------------------------------

fn f7_scenario(out: &mut Out, builder_base: &Path, node_base: &Path, attempt: u64, olen: usize, with_dup: bool) {
    let cfg = NodeCfg { epoch_len: 1000, with_pool: false, ..Default::default() };
    let consensus = make_consensus(&cfg);
    let bdir = builder_base.join(format!("f7-{attempt}"));
    let mut builder = ChainBuilder::new(consensus.clone(), &bdir);
    builder.max_branch_stores = 4;
    let mut blks = vec![genesis_blk(&consensus)];
    let slen = 8usize;
    // S chain 1..=slen
    for id in 1..=slen {
        let p = blks[id - 1].clone();
        let b = build_blk(&mut builder, id, &p, Kind::from_flags(true, true), false);
        blks.push(b);
    }
    // X = slen+1 (ctx-invalid child of S8), C = slen+2 (child of X)
    let x = slen + 1;
    let p = blks[slen].clone();
    blks.push(build_blk(&mut builder, x, &p, Kind::from_flags(true, false), false));
    let c = slen + 2;
    let p = blks[x].clone();
    blks.push(build_blk(&mut builder, c, &p, Kind::from_flags(true, true), true));
    // O chain on genesis (one more block than delivered in the burst: the probe)
    let o1 = slen + 3;
    for i in 0..=olen {
        let id = o1 + i;
        let p = if i == 0 { blks[0].clone() } else { blks[id - 1].clone() };
        let b = build_blk(&mut builder, id, &p, Kind::from_flags(true, true), i == olen);
        blks.push(b);
    }
    let probe = o1 + olen;
    drop(builder);
    let _ = std::fs::remove_dir_all(&bdir);
    let mut order: Vec<usize> = ((o1 + 1)..(o1 + olen)).collect();
    order.extend(1..=slen);
    order.push(x);
    order.push(o1);
    order.push(c);
    if with_dup {
        order.push(x);
    }
    let label = format!("el={} mode=burst thr=1 f7 attempt={} n={}", cfg.epoch_len, attempt, blks.len() - 1);
    let case = out.begin_case(&label);
    let mut run = CaseRun::start(&node_base.join(format!("f7c{case}")), &consensus, &cfg, 1);
    for b in &blks {
        run.declare(out, b.clone());
    }
    run.burst(out, &order);
    out.count("f7-scenario");
    if !run.dead {
        // probe (not an op of the protocol): one more valid block extending the heaviest chain must
        // get verified; if its callback is dropped un-called the verification pipeline is dead
        let first = run.log.lock().unwrap().events.len();
        let lb = run.lonely(probe);
        let alive = run.node().controller().verif_process_lonely_block_sync(lb);
        let waited = run.wait_quiescent();
        let verdict = run.log.lock().unwrap().events[first..].iter().find(|(i, _)| *i == probe).map(|(_, v)| *v);
        let tip_is_probe = run.node().tip_hash() == run.get(probe).block.hash();
        if !alive || waited.is_err() || verdict != Some(Verdict::New) || !tip_is_probe {
            out.count("f7-pipeline-dead");
            out.oracle_fail(
                "pipeline-dead-after-duplicate-of-failed-block",
                &format!(
                    "after `burst {}` a further valid block extending the tip is never verified: chain service alive={} quiescence={:?} callback={:?} tip_is_probe={} (preload thread panicked in get_block: the first copy of block {} failed verification and was deleted while its second queued copy was still behind >128 queued blocks)",
                    show_ids(&order), alive, waited, verdict, tip_is_probe, x
                ),
            );
            run.dead = true;
        }
    }
    run.finish(out);
}

/// Debugging aid: `VERIF_C01_LOG=info|debug` prints the node's log lines (with thread names) on stderr.
struct StderrLog;
impl ckb_logger::internal::Log for StderrLog {
    fn enabled(&self, m: &ckb_logger::internal::Metadata) -> bool {
        m.target().starts_with("ckb")
    }
    fn log(&self, r: &ckb_logger::internal::Record) {
        if self.enabled(r.metadata()) {
            eprintln!("[{}] {} {}", std::thread::current().name().unwrap_or("?"), r.level(), r.args());
        }
    }
    fn flush(&self) {}
}
static STDERR_LOG: StderrLog = StderrLog;

pub fn run(opts: &Opts) {
    if let Ok(l) = std::env::var("VERIF_C01_LOG") {
        let _ = ckb_logger::internal::set_logger(&STDERR_LOG);
        ckb_logger::internal::set_max_level(if l == "debug" { ckb_logger::internal::LevelFilter::Debug } else { ckb_logger::internal::LevelFilter::Info });
    }
    install_panic_hook();
    let mut out = Out::new(&opts.out);
    let builder_base = scratch_dir(&opts.out, "c01-b");
    let node_base = scratch_dir(&opts.out, "c01-n");
    selftest(&node_base);
    if let Some(p) = &opts.replay {
        let ops = read_replay_ops(p);
        replay(&mut out, &ops, &builder_base, &node_base);
    } else if opts.extra.iter().any(|a| a == "f7" || a == "f7ctl") {
        // `f7`: with the duplicate; `f7ctl`: the same history without it (control: must pass)
        let with_dup = opts.extra.iter().any(|a| a == "f7");
        for attempt in 0..(3 * opts.scale) {
            f7_scenario(&mut out, &builder_base, &node_base, attempt, 140, with_dup);
        }
    } else {
        generate(&mut out, opts, &builder_base, &node_base);
    }
    let _ = std::fs::remove_dir_all(&builder_base);
    let _ = std::fs::remove_dir_all(&node_base);
    out.finish("case counted when it contains a reorg, an equal-work tie at the maximum, or an invalid block inside the otherwise heaviest branch");
}
