//! C01 — the tip is the head of the heaviest fully valid chain, for any delivery order.
//!
//! Random block trees are materialised as real blocks (`ChainBuilder`) and fed to a real node (three
//! chain-service threads) in random arrival orders, with duplicates, missing ancestors, and blocks
//! that are really invalid (non-contextually: corrupted transactions root; contextually: DAO field,
//! chain-root extension, cellbase reward).
//!
//! Protocol (model side: lean/CkbVerif/Driver/C01.lean), one case per tree x arrival order, a fresh
//! node directory per case; ids: genesis = 0, other blocks in build order (parent id < child id):
//!   blk <id> <parent> <num> <epoch> <work> <nc> <ok>   -> ok
//!   deliver <id> <hint>    SERIALISED: delivered through `verif_process_lonely_block_sync`, then the
//!                          harness waits for quiescence                      -> state line
//!   burst <id,id,..>       BURST: all deliveries at once from 1-3 threads, then a fence (genesis
//!                          delivered synchronously), then quiescence           -> td=<n>
//!   expire                 the orphan-expiry timer fires (hook)                -> state line ++ pool=<ids>
//!   crash                  the chain services are stopped (at quiescence) and every handle is dropped; the
//!                          database is reopened without services: the PERSISTED state (orph=0, inv=-) ->
//!                          state line. The node stays stopped until `restart`.
//!   burststop <ids> <obs>  all ids handed over from one thread without waiting, then the node is stopped at
//!                          once (verify queue non-empty); <obs> = the persisted state observed, spaces
//!                          written as `|` (the model matches the number of completed verifications) -> state line
//!   restart <mel> <order>  (stop if running,) start the node on the same directory, wait for
//!                          InitLoadUnverified and for an empty pending set; mel = max_epoch_length,
//!                          order = ids by (number, hash) as NUMBER_HASH iterates            -> state line
//! state line: cb=<id>:<new|known|err|drop>,.. tip=<id> td=<n> orph=<k> stored=<ids> ext=<id>:<td>,..
//!             ver=<ids> inv=<ids>
//! hint = ids whose callbacks fired during the op, in firing order, without the delivered id (the
//! implementation's arbitrary HashMap sibling order when orphans are released).
//!
//! The case label carries what a replay needs besides the op lines: `el=<epoch length>` and
//! `thr=<threads of a burst>`.
use crate::common::*;
use crate::node::*;
use ckb_chain::{LonelyBlock, VerifyResult};
use ckb_db::RocksDB;
use ckb_db_schema::{COLUMNS, COLUMN_BLOCK_HEADER};
use ckb_shared::block_status::BlockStatus;
use ckb_store::{ChainDB, ChainStore};
use ckb_chain_spec::consensus::{build_genesis_epoch_ext, Consensus, ConsensusBuilder, ProposalWindow};
use ckb_dao_utils::genesis_dao_data;
use ckb_test_chain_utils::{always_success_cell, create_always_success_tx};
use ckb_types::bytes::Bytes;
use ckb_types::core::{capacity_bytes, BlockBuilder, BlockView, Capacity, EpochNumberWithFraction, TransactionBuilder, TransactionView};
use ckb_types::packed::{Byte32, CellInput, CellOutput, OutPoint};
use ckb_types::prelude::*;
use ckb_types::utilities::difficulty_to_compact;
use ckb_types::U256;
use std::collections::{HashMap, HashSet};
use std::path::{Path, PathBuf};
use std::sync::{Arc, Mutex};
use std::time::{Duration, Instant};

/// 60 s; `VERIF_C01_TIMEOUT_S` overrides it (debugging only)
fn quiescence_timeout() -> Duration {
    Duration::from_secs(std::env::var("VERIF_C01_TIMEOUT_S").ok().and_then(|v| v.parse().ok()).unwrap_or(60))
}

/// A panic of any thread other than `main` (i.e. a node thread) is recorded here by a panic hook, so
/// that a dead pipeline is reported at once, with its cause, instead of after the 60 s timeout.
/// (Nothing is caught: the thread still dies and the default hook still prints the backtrace.)
static NODE_PANIC: Mutex<Option<String>> = Mutex::new(None);

fn install_panic_hook() {
    let prev = std::panic::take_hook();
    std::panic::set_hook(Box::new(move |info| {
        let name = std::thread::current().name().unwrap_or("?").to_string();
        if name != "main" {
            let loc = info.location().map(|l| format!("{}:{}", l.file(), l.line())).unwrap_or_default();
            let p = info.payload();
            let msg = p.downcast_ref::<&str>().map(|s| s.to_string()).or_else(|| p.downcast_ref::<String>().cloned()).unwrap_or_default();
            if let Ok(mut g) = NODE_PANIC.lock() {
                g.get_or_insert(format!("thread `{name}` panicked at {loc}: {msg}"));
            }
        }
        prev(info);
    }));
}

fn node_panic() -> Option<String> {
    NODE_PANIC.lock().ok().and_then(|g| g.clone())
}

// ------------------------------------------------------------------------------------------------
// callbacks
// ------------------------------------------------------------------------------------------------

#[derive(Clone, Copy, PartialEq, Eq, PartialOrd, Ord, Debug)]
enum Verdict {
    New,
    Known,
    Err,
    Drop,
}

impl Verdict {
    fn as_str(self) -> &'static str {
        match self {
            Verdict::New => "new",
            Verdict::Known => "known",
            Verdict::Err => "err",
            Verdict::Drop => "drop",
        }
    }
}

#[derive(Default)]
struct CbLog {
    /// (id, verdict) in the order the callbacks fired / were dropped
    events: Vec<(usize, Verdict)>,
    fired: usize,
    dropped: usize,
}

/// Owned by the callback closure: calling records the verdict, dropping un-called records `drop`.
struct Guard {
    id: usize,
    log: Arc<Mutex<CbLog>>,
    called: bool,
}

impl Guard {
    fn fire(mut self, r: VerifyResult) {
        self.called = true;
        let v = match r {
            Ok(true) => Verdict::New,
            Ok(false) => Verdict::Known,
            Err(_) => Verdict::Err,
        };
        let mut l = self.log.lock().unwrap();
        l.events.push((self.id, v));
        l.fired += 1;
    }
}

impl Drop for Guard {
    fn drop(&mut self) {
        if !self.called {
            let mut l = self.log.lock().unwrap();
            l.events.push((self.id, Verdict::Drop));
            l.dropped += 1;
        }
    }
}

// ------------------------------------------------------------------------------------------------
// blocks
// ------------------------------------------------------------------------------------------------

/// What a replay needs to rebuild the consensus of a case (all of it is in the case label).
#[derive(Clone, Debug)]
enum Chain {
    /// `make_consensus`: permanent difficulty, every epoch `el` blocks long
    Flat { el: u64 },
    /// real difficulty adjustment: genesis difficulty `d0`, genesis epoch `gl` blocks long, epoch
    /// duration target `t` seconds. Without uncles the epoch length doubles at every boundary and the
    /// next epoch's difficulty follows the previous epoch's duration (hash-rate estimate clamped to a
    /// factor 2 either way): two branches diverging before a boundary carry different per-block work
    /// after it.
    Uneven { t: u64, gl: u64, d0: u64 },
}

impl Chain {
    fn consensus(&self) -> Consensus {
        match self {
            Chain::Flat { el } => make_consensus(&NodeCfg { epoch_len: *el, with_pool: false, ..Default::default() }),
            Chain::Uneven { t, gl, d0 } => uneven_consensus(*t, *gl, *d0),
        }
    }
    fn label(&self) -> String {
        match self {
            Chain::Flat { el } => format!("el={el}"),
            Chain::Uneven { t, gl, d0 } => format!("uneven=1 t={t} gl={gl} d0={d0}"),
        }
    }
    fn node_cfg(&self) -> NodeCfg {
        NodeCfg { epoch_len: match self { Chain::Flat { el } => *el, Chain::Uneven { gl, .. } => *gl }, with_pool: false, ..Default::default() }
    }
}

/// node.rs `make_consensus` with the dynamic difficulty adjustment switched on
fn uneven_consensus(t: u64, gl: u64, d0: u64) -> Consensus {
    let (_, _, always_success_script) = always_success_cell();
    let tx = create_always_success_tx();
    let cells: Vec<TransactionView> = (0..4u64)
        .map(|i| {
            TransactionBuilder::default()
                .input(CellInput::new(OutPoint::null(), 0))
                .output(CellOutput::new_builder().capacity(capacity_bytes!(50_000)).lock(always_success_script.clone()).build())
                .output_data(Bytes::from(i.to_le_bytes().to_vec()))
                .build()
        })
        .collect();
    let mut all: Vec<&TransactionView> = vec![&tx];
    all.extend(cells.iter());
    let dao = genesis_dao_data(all).unwrap();
    let compact = difficulty_to_compact(U256::from(d0));
    let genesis = BlockBuilder::default()
        .dao(dao)
        .compact_target(compact)
        .epoch(EpochNumberWithFraction::new_unchecked(0, 0, 0))
        .transaction(tx)
        .transactions(cells)
        .build();
    let epoch_reward = capacity_bytes!(1_917_808);
    let epoch0 = build_genesis_epoch_ext(epoch_reward, compact, gl, t, (1, 40));
    ConsensusBuilder::new(genesis, epoch0)
        .initial_primary_epoch_reward(epoch_reward)
        .epoch_duration_target(t)
        .permanent_difficulty_in_dummy(false)
        .tx_proposal_window(ProposalWindow(2, 10))
        .cellbase_maturity(EpochNumberWithFraction::new(0, 0, 1))
        .build()
}

/// Timestamp of block `id` on `parent`: "fast" = a few ms after the parent (what the builder would
/// choose by itself), "slow" = 40..120 s after it — a deterministic function of (parent, id, slow),
/// so that a replay (which gets the slow ids from the case label) rebuilds the same block.
fn block_ts(parent: &Blk, id: usize, slow: bool) -> u64 {
    let p = parent.block.timestamp();
    if slow { p + (40 + (id as u64 * 37) % 81) * 1000 } else { p + 1 + id as u64 % 3 }
}

#[derive(Clone, Copy, PartialEq, Eq, Debug)]
enum Kind {
    Valid,
    /// passes non-contextual verification, fails contextual verification (nc=1 ok=0)
    Ctx,
    /// fails non-contextual verification (nc=0)
    Nc,
}

impl Kind {
    fn nc(self) -> bool {
        self != Kind::Nc
    }
    fn ok(self) -> bool {
        self == Kind::Valid
    }
    fn from_flags(nc: bool, ok: bool) -> Kind {
        if !nc {
            Kind::Nc
        } else if !ok {
            Kind::Ctx
        } else {
            Kind::Valid
        }
    }
}

/// The concrete single-rule violation for a block of the given kind: a deterministic function of
/// (id, number), so that a replay rebuilds the same block. `CellbaseCapacity` only exists above the
/// finalization delay (earlier cellbases have no output).
fn tweak_for(kind: Kind, id: usize, number: u64, fdl: u64) -> Tweak {
    match kind {
        Kind::Valid => Tweak::None,
        Kind::Nc => unreachable!("built by build_nc_invalid"),
        Kind::Ctx => {
            let n = if number > fdl { 3 } else { 2 };
            match id % n {
                0 => Tweak::Dao,
                1 => Tweak::Extension,
                _ => Tweak::CellbaseCapacity(1),
            }
        }
    }
}

#[derive(Clone)]
struct Blk {
    id: usize,
    parent: usize,
    block: Arc<BlockView>,
    hash: Byte32,
    num: u64,
    epoch: u64,
    work: u128,
    kind: Kind,
}

fn u256_dec(x: &U256) -> String {
    x.to_string()
}

fn u256_u128(x: &U256) -> u128 {
    u256_dec(x).parse::<u128>().expect("difficulty fits u128 (dummy PoW, DIFF_TWO)")
}

fn genesis_blk(consensus: &ckb_chain_spec::consensus::Consensus) -> Blk {
    let g = consensus.genesis_block().clone();
    Blk {
        id: 0,
        parent: 0,
        hash: g.hash(),
        num: g.number(),
        epoch: g.epoch().number(),
        work: u256_u128(&g.header().difficulty()),
        kind: Kind::Valid,
        block: Arc::new(g),
    }
}

/// A fully valid block that is NOT attached to the builder's branch store (the store stays at the
/// parent, so a sibling can still be built in place): `Tweak::Timestamp` with the value the builder
/// would have chosen anyway. Used for blocks without children (no store is ever needed at their tip;
/// each new branch store costs a RocksDB open) and as the base of non-contextually invalid blocks.
fn build_detached(b: &mut ChainBuilder, parent: &Blk, salt: u64, ts: u64) -> BlockView {
    b.build(&parent.hash, &BlockSpec { salt, tweak: Tweak::Timestamp(ts), ..Default::default() })
}

/// A block that fails non-contextual verification (`MerkleRootVerifier`): a valid block whose
/// header's transactions_root is overwritten, converted with `into_view_without_reset_header`.
/// (`Tweak::TxRoot` of node.rs goes through `packed::Block::into_view`, which recomputes the roots,
/// so it yields a valid block.) The corrupted block is registered in the builder so that children
/// can be built on it.
fn build_nc_invalid(b: &mut ChainBuilder, parent: &Blk, salt: u64, ts: u64) -> BlockView {
    let v = build_detached(b, parent, salt, ts);
    let raw = v.data().header().raw().as_builder().transactions_root(Byte32::zero()).build();
    let header = v.data().header().as_builder().raw(raw).build();
    let block = v.data().as_builder().header(header).build().into_view_without_reset_header();
    assert!(block.transactions_root() != block.calc_transactions_root());
    b.blocks.remove(&v.hash());
    b.blocks.insert(block.hash(), block.clone());
    block
}

/// `leaf`: the caller knows that nothing will be built on this block (only an optimisation: the
/// block is byte-identical either way).
fn build_blk(b: &mut ChainBuilder, id: usize, parent: &Blk, kind: Kind, leaf: bool) -> Blk {
    build_blk_paced(b, id, parent, kind, leaf, false)
}

fn build_blk_paced(b: &mut ChainBuilder, id: usize, parent: &Blk, kind: Kind, leaf: bool, slow: bool) -> Blk {
    let fdl = b.consensus.finalization_delay_length();
    let ts = block_ts(parent, id, slow);
    let block = match kind {
        Kind::Nc => build_nc_invalid(b, parent, id as u64, ts),
        Kind::Valid if leaf => build_detached(b, parent, id as u64, ts),
        _ => {
            let tweak = tweak_for(kind, id, parent.num + 1, fdl);
            b.build(&parent.hash, &BlockSpec { salt: id as u64, tweak, timestamp: Some(ts), ..Default::default() })
        }
    };
    Blk {
        id,
        parent: parent.id,
        hash: block.hash(),
        num: block.number(),
        epoch: block.epoch().number(),
        work: u256_u128(&block.header().difficulty()),
        kind,
        block: Arc::new(block),
    }
}

fn blk_line(b: &Blk) -> String {
    // nc=0: `ok` is irrelevant, written as 1
    let ok = if b.kind == Kind::Nc { true } else { b.kind.ok() };
    format!("blk {} {} {} {} {} {} {}", b.id, b.parent, b.num, b.epoch, b.work, b.kind.nc() as u8, ok as u8)
}

// ------------------------------------------------------------------------------------------------
// one case on a real node
// ------------------------------------------------------------------------------------------------

struct StateView {
    tip: Option<usize>,
    td: u128,
    orph: usize,
    stored: Vec<usize>,
    ext: Vec<(usize, u128)>,
    ver: Vec<usize>,
    inv: Vec<usize>,
    /// the answer of `Shared::get_block_status` per declared id (ascending ids), one letter each:
    /// U UNKNOWN, H HEADER_VALID, R BLOCK_RECEIVED, S BLOCK_STORED, V BLOCK_VALID, I BLOCK_INVALID;
    /// on a stopped database: what a fresh process answers (from the persisted ext alone)
    st: String,
}

fn status_letter(s: BlockStatus) -> char {
    if s == BlockStatus::UNKNOWN {
        'U'
    } else if s == BlockStatus::HEADER_VALID {
        'H'
    } else if s == BlockStatus::BLOCK_RECEIVED {
        'R'
    } else if s == BlockStatus::BLOCK_STORED {
        'S'
    } else if s == BlockStatus::BLOCK_VALID {
        'V'
    } else if s == BlockStatus::BLOCK_INVALID {
        'I'
    } else {
        '?'
    }
}

fn state_line(cbs: &[(usize, Verdict)], v: &StateView) -> String {
    let cb = if cbs.is_empty() { "-".to_string() } else { cbs.iter().map(|(i, v)| format!("{}:{}", i, v.as_str())).collect::<Vec<_>>().join(",") };
    let ext = if v.ext.is_empty() { "-".to_string() } else { v.ext.iter().map(|(i, t)| format!("{i}:{t}")).collect::<Vec<_>>().join(",") };
    format!(
        "cb={} tip={} td={} orph={} stored={} ext={} ver={} inv={} st={}",
        cb,
        v.tip.map(|t| t.to_string()).unwrap_or("?".into()),
        v.td,
        v.orph,
        show_ids(&v.stored),
        ext,
        show_ids(&v.ver),
        show_ids(&v.inv),
        v.st
    )
}

fn show_ids(v: &[usize]) -> String {
    if v.is_empty() { "-".into() } else { v.iter().map(|i| i.to_string()).collect::<Vec<_>>().join(",") }
}

struct CaseRun {
    node: Option<Node>,
    dir: PathBuf,
    blks: Vec<Blk>,
    by_id: HashMap<usize, usize>,
    by_hash: HashMap<Byte32, usize>,
    log: Arc<Mutex<CbLog>>,
    /// callbacks handed to the node so far
    handed: usize,
    delivered: HashSet<usize>,
    prev: Option<(usize, u128)>,
    prev_tie: bool,
    dead: bool,
    had_reorg: bool,
    had_tie: bool,
    arrival: Vec<usize>,
    threads: usize,
    /// "gen" | "uneven" | "expiry" (statistics only)
    family: &'static str,
    /// ids that had an ext after the previous op
    last_ext: HashSet<usize>,
    /// ids that were in the orphan pool after some `expire` op of this case and are still there
    survivors: HashSet<usize>,
    had_multi: bool,
    /// what a restart needs
    consensus: Consensus,
    cfg: NodeCfg,
    /// ids in the orphan pool WITHOUT a harness callback: re-submitted by `InitLoadUnverified` after a
    /// restart (its deliveries carry no callback). Always a subset of the pool.
    foreign: HashSet<usize>,
    /// number of `restart` ops of this case so far
    restarts: usize,
    /// `arrival.len()` at each restart (fingerprint)
    restart_marks: Vec<usize>,
    /// some stop found: the verify queue non-empty / the pool non-empty / a stored-unverified block
    /// more than EXPIRED_EPOCH numbers below the tip (statistics; the last one is what seed m3 needs)
    had_deep_unverified: bool,
}

impl CaseRun {
    fn start(dir: &Path, consensus: &ckb_chain_spec::consensus::Consensus, cfg: &NodeCfg, threads: usize) -> CaseRun {
        let _ = std::fs::remove_dir_all(dir);
        // the dead node of an earlier case (if any) is forgotten
        if let Ok(mut g) = NODE_PANIC.lock() {
            *g = None;
        }
        let node = Node::start(dir, consensus.clone(), cfg);
        // The start-up scan (`InitLoadUnverified`, its own thread) re-delivers, without callback,
        // every stored block that has no ext. It must have finished before the first delivery (the
        // sync layer waits for the same flag), else it picks up the harness's freshly stored orphans,
        // replaces their pool entries and drops their callbacks.
        let t = Instant::now();
        while node.controller().is_verifying_unverified_blocks_on_startup() {
            assert!(t.elapsed() < Duration::from_secs(60), "the start-up scan of a fresh node did not finish in 60 s");
            std::thread::sleep(Duration::from_micros(100));
        }
        CaseRun {
            node: Some(node),
            dir: dir.to_path_buf(),
            blks: vec![],
            by_id: HashMap::new(),
            by_hash: HashMap::new(),
            log: Arc::new(Mutex::new(CbLog::default())),
            handed: 0,
            delivered: HashSet::new(),
            prev: None,
            prev_tie: false,
            dead: false,
            had_reorg: false,
            had_tie: false,
            arrival: vec![],
            threads: threads.clamp(1, 3),
            family: "gen",
            last_ext: HashSet::from([0]),
            survivors: HashSet::new(),
            had_multi: false,
            consensus: consensus.clone(),
            cfg: cfg.clone(),
            foreign: HashSet::new(),
            restarts: 0,
            restart_marks: vec![],
            had_deep_unverified: false,
        }
    }

    /// ids currently in the orphan pool (probed per declared id)
    fn pool_ids(&self) -> Vec<usize> {
        let node = self.node();
        let mut v: Vec<usize> = self.blks.iter().filter(|b| node.controller().get_orphan_block(node.store(), &b.hash).is_some()).map(|b| b.id).collect();
        v.sort();
        v
    }

    fn node(&self) -> &Node {
        self.node.as_ref().expect("malformed op sequence: the node is stopped (a `crash` / `burststop` must be followed by `restart`)")
    }

    fn in_pool(&self, id: usize) -> bool {
        let node = self.node();
        node.controller().get_orphan_block(node.store(), &self.get(id).hash).is_some()
    }

    fn get(&self, id: usize) -> &Blk {
        &self.blks[*self.by_id.get(&id).unwrap_or_else(|| panic!("block id {id} not declared"))]
    }

    fn declare(&mut self, out: &mut Out, b: Blk) {
        assert!(!self.by_id.contains_key(&b.id), "block id {} declared twice", b.id);
        if b.id == 0 {
            assert!(self.blks.is_empty(), "blk 0 must be the first declaration");
        } else {
            assert!(self.by_id.contains_key(&0), "blk 0 must be declared first");
            assert!(b.parent < b.id && self.by_id.contains_key(&b.parent), "blk {}: parent {} must be declared before and be smaller", b.id, b.parent);
        }
        out.op(&blk_line(&b), "ok");
        if std::env::var("VERIF_C01_LOG").is_ok() {
            eprintln!("[map] {} {:#x}", b.id, b.hash);
        }
        match b.kind {
            Kind::Ctx => out.count("blk-invalid-ctx"),
            Kind::Nc => out.count("blk-invalid-nc"),
            Kind::Valid => {}
        }
        self.by_id.insert(b.id, self.blks.len());
        self.by_hash.insert(b.hash.clone(), self.blks.len());
        self.blks.push(b);
    }

    fn lonely(&mut self, id: usize) -> LonelyBlock {
        let block = self.get(id).block.clone();
        self.handed += 1;
        let g = Guard { id, log: self.log.clone(), called: false };
        LonelyBlock { block, switch: None, verify_callback: Some(Box::new(move |r: VerifyResult| g.fire(r))) }
    }

    /// Sound quiescence probe: with the chain-service thread idle (a synchronous request has
    /// returned), every callback that is neither fired nor dropped is held either by the orphan pool
    /// (one per pooled hash) or by one of the two queues / the verify thread. So
    /// `handed - fired - dropped == orphan_blocks_len()` iff the queues are empty and the verify
    /// thread has finished (callbacks fire after commit, snapshot publication and pending removal).
    /// After a restart the blocks `InitLoadUnverified` re-submitted carry NO callback (`foreign` pool
    /// entries are subtracted from the pool size) and their verification is invisible to the callback
    /// count: in addition the node's `is_pending_verify` set must be empty (hook
    /// `ChainController::verif_pending_len`; a hash leaves the set after its ext / BLOCK_INVALID mark is
    /// published). A foreign queue entry is never behind a queued duplicate of itself that carries a
    /// callback (a harness re-delivery of a pooled foreign block REPLACES the pool entry), so "pending
    /// set empty and callbacks balanced" implies both queues are empty.
    fn wait_quiescent(&self) -> Result<(), String> {
        let start = Instant::now();
        let mut step = Duration::from_micros(200);
        loop {
            // a panicking node thread drops the callback it holds (recorded as `drop`), so the
            // counters below could balance on a dead pipeline: look at the recorded panic first
            if let Some(p) = node_panic() {
                return Err(format!("a node thread died: {p}"));
            }
            let (fired, dropped) = {
                let l = self.log.lock().unwrap();
                (l.fired, l.dropped)
            };
            let outstanding = self.handed - fired - dropped;
            let pool = self.node().controller().orphan_blocks_len();
            let foreign = if self.foreign.is_empty() { 0 } else { self.foreign.iter().filter(|i| self.in_pool(**i)).count() };
            if outstanding + foreign == pool && self.node().controller().verif_pending_len() == Some(0) {
                return Ok(());
            }
            if start.elapsed() > quiescence_timeout() {
                let l = self.log.lock().unwrap();
                let tail: Vec<String> = l.events.iter().rev().take(12).rev().map(|(i, v)| format!("{}:{}", i, v.as_str())).collect();
                return Err(format!(
                    "no quiescence after {}s: handed={} fired={} dropped={} orphan_pool={} of which without callback={} pending_verify={:?} last_callbacks={}",
                    quiescence_timeout().as_secs(),
                    self.handed,
                    l.fired,
                    l.dropped,
                    self.node().controller().orphan_blocks_len(),
                    foreign,
                    self.node().controller().verif_pending_len(),
                    tail.join(",")
                ));
            }
            std::thread::sleep(step);
            step = (step * 2).min(Duration::from_millis(1));
        }
    }

    fn read_state(&self, out: &mut Out) -> StateView {
        let node = self.node();
        let snap = node.shared.snapshot();
        let tip = self.by_hash.get(&snap.tip_hash()).map(|i| self.blks[*i].id);
        let td = u256_u128(snap.total_difficulty());
        let mut ids: Vec<usize> = self.blks.iter().map(|b| b.id).collect();
        ids.sort();
        let mut v = StateView { tip, td, orph: node.controller().orphan_blocks_len(), stored: vec![], ext: vec![], ver: vec![], inv: vec![], st: String::new() };
        for id in ids {
            let b = self.get(id);
            v.st.push(status_letter(node.shared.get_block_status(&b.hash)));
            if node.store().get(COLUMN_BLOCK_HEADER, b.hash.as_slice()).is_some() {
                v.stored.push(id);
            }
            if let Some(ext) = node.store().get_block_ext(&b.hash) {
                v.ext.push((id, u256_u128(&ext.total_difficulty)));
                match ext.verified {
                    Some(true) => v.ver.push(id),
                    Some(false) => out.oracle_fail("ext-false", &format!("block {id} has a persisted ext with verified == Some(false)")),
                    None => {}
                }
            }
            if node.shared.get_block_status(&b.hash) == BlockStatus::BLOCK_INVALID {
                v.inv.push(id);
            }
        }
        v
    }

    // ---- oracle helpers (on the declared tree and the delivered set only) ----

    fn valid(&self, id: usize) -> bool {
        let mut b = self.get(id);
        loop {
            if b.id == 0 {
                return true;
            }
            if !self.delivered.contains(&b.id) || !b.kind.nc() || !b.kind.ok() {
                return false;
            }
            b = self.get(b.parent);
        }
    }

    fn total_work(&self, id: usize) -> u128 {
        let mut b = self.get(id);
        let mut s = 0u128;
        loop {
            s += b.work;
            if b.id == 0 {
                return s;
            }
            b = self.get(b.parent);
        }
    }

    fn is_ancestor_or_self(&self, a: usize, mut b: usize) -> bool {
        loop {
            if a == b {
                return true;
            }
            if b == 0 {
                return false;
            }
            b = self.get(b).parent;
        }
    }

    /// delivered and connected to genesis through delivered blocks, validity ignored
    fn connected(&self, id: usize) -> bool {
        let mut b = self.get(id);
        loop {
            if b.id == 0 {
                return true;
            }
            if !self.delivered.contains(&b.id) {
                return false;
            }
            b = self.get(b.parent);
        }
    }

    /// The property, evaluated on the implementation's outputs only (no model involved).
    ///
    /// `self.delivered` is the set of blocks RECEIVED in the sense of the property. Without a restart it
    /// is the set of ids handed to the chain service (minus orphans removed by a legitimate expiry).
    /// Across a stop + start of the node on the same directory (`restart`) it is recomputed from the
    /// database as it was found after the stop, by the rule the property promises for a node that was
    /// stopped in the middle of a delivery:
    ///   * a block that has a BlockExt row counts (it needs no re-submission);
    ///   * a block whose data is STORED (`insert_block` committed before the stop: COLUMN_BLOCK_HEADER row)
    ///     without BlockExt — queued for verification or held in the orphan pool when the node stopped —
    ///     counts iff it lies inside the start-up scan horizon of `InitLoadUnverified`: its number is in
    ///     [max(1, tip − EXPIRED_EPOCH·max_epoch_length), tip + 10·BLOCK_DOWNLOAD_WINDOW] and, when above
    ///     the tip, every number between the tip and it has some stored block without ext (the scan stops
    ///     at the first number above the tip without candidate). The node must pick these up again BY
    ///     ITSELF (`restart-not-requeued` otherwise), nobody re-delivers them;
    ///   * everything else the node was given before the stop does NOT count any more and needs
    ///     re-delivery: blocks that were never stored (still in the request channel — cannot happen with
    ///     a clean stop, which drains it —, rejected, deleted after a failed verification or an expiry),
    ///     stored blocks outside the horizon (older than six maximal epochs, or above a number gap over
    ///     the tip: forgotten by design, counted as `restart-forgot-outside-horizon`). The in-memory
    ///     orphan pool, both queues, `is_pending_verify` and the BLOCK_INVALID marks are volatile: they
    ///     are gone after the stop, whether it was clean or not (a clean stop flushes none of them).
    /// The constants are read from the real crates (`VERIF_ORPHAN_EXPIRED_EPOCH`,
    /// `Consensus::max_epoch_length()`, `BLOCK_DOWNLOAD_WINDOW`), the horizon expression is this oracle's
    /// own (it is the specification the seeded change m3 violates).
    /// Clauses: validity of the tip, true total difficulty, maximality over all fully valid chains
    /// formable from the received set (at quiescence only: `maximal`), strictness (serialised ops only)
    /// and monotonicity over the whole tip history of the case — which continues across restarts.
    ///
    /// returns (old tip, new tip, reorg) when the tip changed
    fn oracle(&mut self, out: &mut Out, v: &StateView, serialised: bool, what: &str) -> Option<(usize, usize, bool)> {
        self.oracle_opt(out, v, serialised, true, what)
    }

    fn oracle_opt(&mut self, out: &mut Out, v: &StateView, serialised: bool, maximal: bool, what: &str) -> Option<(usize, usize, bool)> {
        let mut moved = None;
        let valid_ids: Vec<usize> = self.blks.iter().map(|b| b.id).filter(|i| self.valid(*i)).collect();
        let m = valid_ids.iter().map(|i| self.total_work(*i)).max().unwrap();
        match v.tip {
            None => out.oracle_fail("tip-invalid", &format!("{what}: the tip is not a declared block")),
            Some(tip) => {
                if !self.valid(tip) {
                    out.oracle_fail("tip-invalid", &format!("{what}: tip={tip} is not delivered-and-valid with valid ancestors"));
                }
                let want = self.total_work(tip);
                if v.td != want {
                    out.oracle_fail("td-mismatch", &format!("{what}: tip={tip} snapshot td={} but the work along its path is {want}", v.td));
                }
                if valid_ids.iter().any(|i| *i != tip && self.total_work(*i) == m) && v.td == m {
                    if !self.prev_tie {
                        out.count("tie-at-tip");
                    }
                    self.prev_tie = true;
                    self.had_tie = true;
                } else {
                    self.prev_tie = false;
                }
                if let Some((ptip, ptd)) = self.prev {
                    if v.td < ptd {
                        out.oracle_fail("td-decreased", &format!("{what}: td {ptd} -> {}", v.td));
                    }
                    if ptip != tip {
                        if serialised && v.td <= ptd {
                            out.oracle_fail("tip-moved-not-heavier", &format!("{what}: tip {ptip} (td {ptd}) -> {tip} (td {})", v.td));
                        }
                        let reorg = !self.is_ancestor_or_self(ptip, tip);
                        if reorg {
                            out.count("reorg");
                            self.had_reorg = true;
                            if self.get(tip).num >= self.get(ptip).num + 2 {
                                out.count("reorg-verifies-multi-above-tip");
                                // precise lower bound: blocks of the new chain above the old tip's
                                // height that were already stored with an (unverified) ext before
                                let onum = self.get(ptip).num;
                                let mut x = tip;
                                let mut stored_above = 0;
                                while x != 0 && self.get(x).num > onum {
                                    if self.last_ext.contains(&x) {
                                        stored_above += 1;
                                    }
                                    x = self.get(x).parent;
                                }
                                if serialised && stored_above >= 1 {
                                    out.count("reorg-over-stored-unverified-above-tip");
                                    self.had_multi = true;
                                }
                            }
                        }
                        moved = Some((ptip, tip, reorg));
                    } else if serialised {
                        // a block above the tip's height got an ext although the tip did not move: a
                        // branch that is longer than the main chain but not heavier
                        let tnum = self.get(tip).num;
                        if v.ext.iter().any(|(i, _)| !self.last_ext.contains(i) && self.get(*i).num > tnum) {
                            out.count("longer-but-lighter-stored");
                        }
                    }
                }
                self.prev = Some((tip, v.td));
            }
        }
        if maximal && v.td < m {
            out.oracle_fail("not-maximal", &format!("{what}: quiescent with td={} but a delivered fully valid block has total work {m}", v.td));
        }
        for id in &v.ver {
            if !self.valid(*id) {
                out.oracle_fail("verified-not-valid", &format!("{what}: block {id} has verified == Some(true) but is not valid"));
            }
        }
        for (id, t) in &v.ext {
            let want = self.total_work(*id);
            if *t != want {
                out.oracle_fail("ext-td-wrong", &format!("{what}: block {id} ext.total_difficulty={t}, work along its path is {want}"));
            }
        }
        self.last_ext = v.ext.iter().map(|(i, _)| *i).collect();
        moved
    }

    /// some block that cannot pass verification (itself or an ancestor is invalid in the declared
    /// tree) was delivered at least twice in this case: the necessary condition of finding F7
    /// (a second queued copy of a block whose first copy failed and was deleted)
    fn failed_block_delivered_twice(&self) -> bool {
        let mut seen = HashSet::new();
        // only the deliveries since the last restart: a restart empties the queues
        let from = self.restart_marks.last().copied().unwrap_or(0);
        for id in &self.arrival[from..] {
            if !seen.insert(*id) {
                let mut b = self.get(*id);
                loop {
                    if b.id == 0 {
                        break;
                    }
                    if !b.kind.nc() || !b.kind.ok() {
                        return true;
                    }
                    b = self.get(b.parent);
                }
            }
        }
        false
    }

    fn hang(&mut self, out: &mut Out, op: &str, detail: &str) {
        // a stalled pipeline is a violation either way; it is reported under the known-finding class
        // only when the case contains the trigger of F7, so that any other stall stays a plain `hang`
        let class = if self.failed_block_delivered_twice() { "pipeline-dead-after-duplicate-of-failed-block" } else { "hang" };
        out.oracle_fail(class, &format!("{op}: {detail}"));
        // no op line is written for the stalled operation (the model has no stalled state; the oracle
        // failure above is what reports it); the rest of the case is skipped
        let _ = op;
        self.dead = true;
    }

    fn deliver(&mut self, out: &mut Out, id: usize) {
        if self.dead {
            return;
        }
        let parent = self.get(id).parent;
        out.count("deliver");
        if self.delivered.contains(&id) {
            out.count("deliver-dup");
        }
        if id != 0 && parent != 0 && !self.delivered.contains(&parent) {
            out.count("deliver-orphan");
        }
        let first = self.log.lock().unwrap().events.len();
        if self.prev.is_none() {
            // the history starts at genesis
            let g = self.get(0).work;
            self.prev = Some((0, g));
        }
        let lb = self.lonely(id);
        self.arrival.push(id);
        // a pooled block without callback that is delivered again: the pool entry is replaced by this
        // copy (which carries a callback) — it stops being `foreign` before the quiescence probe runs
        let was_foreign = self.foreign.remove(&id);
        // the re-delivered copy REPLACES the callback-less pool entry (the model's `dropped` verdict) iff
        // `process_lonely_block` takes its third branch: parent neither pending (the node is quiescent:
        // nothing is pending) nor stored nor BLOCK_INVALID. Decided BEFORE the delivery: the search that
        // follows may release or reject the replaced entry in the same operation (thorough case 1009).
        let replaces_foreign = was_foreign && {
            let ps = self.node().shared.get_block_status(&self.get(parent).hash);
            !ps.contains(BlockStatus::BLOCK_STORED) && ps != BlockStatus::BLOCK_INVALID
        };
        let alive = self.node().controller().verif_process_lonely_block_sync(lb);
        if id != 0 {
            self.delivered.insert(id);
        }
        if !alive {
            return self.hang(out, &format!("deliver {id} -"), "the chain service has gone");
        }
        if let Err(e) = self.wait_quiescent() {
            return self.hang(out, &format!("deliver {id} -"), &e);
        }
        let mut events: Vec<(usize, Verdict)> = self.log.lock().unwrap().events[first..].to_vec();
        let mut hint: Vec<usize> = events.iter().filter(|(i, v)| *v != Verdict::Drop && *i != id).map(|(i, _)| *i).collect();
        self.foreign_events(id, replaces_foreign, &mut events, &mut hint);
        let mut cbs = events.clone();
        cbs.sort();
        for (_, v) in &cbs {
            match v {
                Verdict::Err => out.count("cb-err"),
                Verdict::Drop => out.count("cb-drop"),
                _ => {}
            }
        }
        let v = self.read_state(out);
        let line = state_line(&cbs, &v);
        let op = format!("deliver {} {}", id, show_ids(&hint));
        out.op(&op, &line);
        let moved = self.oracle(out, &v, true, &op);
        // orphans that survived an `expire` and are connected now
        let released: Vec<usize> = events.iter().filter(|(i, v)| *i != id && matches!(v, Verdict::New | Verdict::Known)).map(|(i, _)| *i).collect();
        if released.iter().any(|i| self.survivors.contains(i)) {
            out.count("connect-after-expire-survivor");
        }
        for i in &released {
            self.survivors.remove(i);
        }
        if let Some((_, tip, true)) = moved {
            if tip != id && released.contains(&tip) {
                out.count("reorg-by-released-orphans");
            }
        }
    }

    /// Canonicalisation of callbacks after a restart. `InitLoadUnverified` submits blocks WITHOUT
    /// callback, the model gives every delivery a notional one. For a `foreign` pool entry the harness
    /// synthesises the verdict the model reports from the observable outcome: `drop` when the block is
    /// delivered again while pooled (the pool entry is replaced, the new one carries a callback), `new`
    /// when it left the pool and has an ext, `err` when it left the pool and its data is deleted.
    /// (`known` is impossible: a pooled block has no ext.) Synthesised ids are appended to the hint in
    /// ascending order; the generator of family `restart` never has two siblings pooled together, so
    /// the release order of foreign entries is determined by the tree.
    fn foreign_events(&mut self, delivered_id: usize, replaces_foreign: bool, events: &mut Vec<(usize, Verdict)>, hint: &mut Vec<usize>) {
        if replaces_foreign {
            events.push((delivered_id, Verdict::Drop));
        }
        if self.foreign.is_empty() {
            return;
        }
        let mut f: Vec<usize> = self.foreign.iter().copied().collect();
        f.sort();
        for x in f {
            if self.in_pool(x) {
                continue;
            }
            let hash = self.get(x).hash.clone();
            let node = self.node();
            if node.store().get_block_ext(&hash).is_some() {
                events.push((x, Verdict::New));
                hint.push(x);
            } else if node.store().get(COLUMN_BLOCK_HEADER, hash.as_slice()).is_none() {
                events.push((x, Verdict::Err));
                hint.push(x);
            }
            self.foreign.remove(&x);
        }
    }

    /// `expire`: the chain-service thread runs the real `clean_expired_orphans` (hook: on demand
    /// instead of the 60 s ticker), fenced by a synchronous genesis delivery.
    fn expire(&mut self, out: &mut Out) {
        if self.dead {
            return;
        }
        out.count("expire-op");
        if self.prev.is_none() {
            let g = self.get(0).work;
            self.prev = Some((0, g));
        }
        let before = self.read_state(out);
        let pool0 = self.pool_ids();
        let first = self.log.lock().unwrap().events.len();
        let fired = self.node().controller().verif_clean_expired_orphans();
        let fence = LonelyBlock { block: self.get(0).block.clone(), switch: None, verify_callback: None };
        let alive = fired && self.node().controller().verif_process_lonely_block_sync(fence);
        if !alive {
            return self.hang(out, "expire", "the chain service did not take the request");
        }
        if let Err(e) = self.wait_quiescent() {
            return self.hang(out, "expire", &e);
        }
        let mut cbs: Vec<(usize, Verdict)> = self.log.lock().unwrap().events[first..].to_vec();
        let pool1 = self.pool_ids();
        // pool entries without callback (re-submitted by the start-up scan) that the expiry removed
        for x in pool0.iter().filter(|x| self.foreign.contains(x) && !pool1.contains(x)).copied().collect::<Vec<_>>() {
            cbs.push((x, Verdict::Drop));
            self.foreign.remove(&x);
        }
        cbs.sort();
        let v = self.read_state(out);
        out.op("expire", &format!("{} pool={}", state_line(&cbs, &v), show_ids(&pool1)));
        // ---- oracle of the retention rule, on the real blocks' epochs
        let horizon = ckb_chain::VERIF_ORPHAN_EXPIRED_EPOCH;
        let tip_epoch = before.tip.map(|t| self.get(t).epoch).unwrap_or(0);
        let in0: HashSet<usize> = pool0.iter().copied().collect();
        let in1: HashSet<usize> = pool1.iter().copied().collect();
        let mut removed = 0;
        let mut legit_any = false;
        let mut gap = false;
        for b in &pool0 {
            // the pooled ancestor whose parent is not pooled
            let mut root = *b;
            while in0.contains(&self.get(root).parent) && root != 0 {
                root = self.get(root).parent;
            }
            let legit = self.get(root).epoch + horizon < tip_epoch;
            legit_any |= legit;
            // retained by the epoch rule although the tip's NUMBER is beyond epoch + horizon: the
            // zone in which a number/epoch mix-up shows
            gap |= !legit && self.get(root).epoch + horizon < before.tip.map(|t| self.get(t).num).unwrap_or(0);
            match (legit, in1.contains(b)) {
                (false, false) => out.oracle_fail(
                    "expired-too-early",
                    &format!("expire removed orphan {b} (epoch {}, pool root {root} of epoch {}) although the tip {:?} is in epoch {tip_epoch} (horizon {horizon} epochs)", self.get(*b).epoch, self.get(root).epoch, before.tip),
                ),
                (true, true) => out.oracle_fail(
                    "not-expired",
                    &format!("expire kept orphan {b} (pool root {root} of epoch {}) although the tip is in epoch {tip_epoch} (horizon {horizon} epochs)", self.get(root).epoch),
                ),
                (true, false) => {
                    // legitimately forgotten: no longer part of what the node has been given
                    self.delivered.remove(b);
                    self.survivors.remove(b);
                    removed += 1;
                }
                (false, true) => {
                    self.survivors.insert(*b);
                }
            }
        }
        if let Some(x) = pool1.iter().find(|b| !in0.contains(b)) {
            out.oracle_fail("expire-touched-chain", &format!("block {x} entered the orphan pool during an expire"));
        }
        if removed > 0 {
            out.count("expire-removed");
        }
        if gap {
            out.count("expire-retained-though-number-beyond-horizon");
        }
        if !pool0.is_empty() && !legit_any {
            out.count("expire-nothing-legit");
        }
        if before.tip != v.tip || before.td != v.td || before.ext != v.ext || before.ver != v.ver {
            out.oracle_fail("expire-touched-chain", &format!("expire changed the chain: tip {:?}->{:?} td {}->{} exts {}->{}", before.tip, v.tip, before.td, v.td, before.ext.len(), v.ext.len()));
        }
        self.oracle(out, &v, true, "expire");
    }

    fn burst(&mut self, out: &mut Out, ids: &[usize]) {
        if self.dead {
            return;
        }
        let op = format!("burst {}", show_ids(ids));
        out.count("burst");
        for id in ids {
            let parent = self.get(*id).parent;
            out.count("deliver");
            if self.delivered.contains(id) {
                out.count("deliver-dup");
            }
            if *id != 0 && parent != 0 && !self.delivered.contains(&parent) {
                out.count("deliver-orphan");
            }
            if *id != 0 {
                self.delivered.insert(*id);
            }
            self.arrival.push(*id);
        }
        let first = self.log.lock().unwrap().events.len();
        if self.prev.is_none() {
            let g = self.get(0).work;
            self.prev = Some((0, g));
        }
        // a pooled block without callback that this burst delivers again is either replaced by the
        // copy carrying a callback or has left the pool by then: it stops being `foreign` either way
        for id in ids {
            self.foreign.remove(id);
        }
        let k = self.threads;
        let mut chunks: Vec<Vec<LonelyBlock>> = (0..k).map(|_| vec![]).collect();
        for (i, id) in ids.iter().enumerate() {
            let lb = self.lonely(*id);
            chunks[i % k].push(lb);
        }
        let controller = self.node().controller().clone();
        std::thread::scope(|s| {
            for chunk in chunks {
                let c = controller.clone();
                s.spawn(move || {
                    for lb in chunk {
                        c.asynchronous_process_lonely_block(lb);
                    }
                });
            }
        });
        // fence: the chain-service thread answers the genesis block at once; when this returns it
        // has handled every earlier request
        let fence = LonelyBlock { block: self.get(0).block.clone(), switch: None, verify_callback: None };
        let alive = controller.verif_process_lonely_block_sync(fence);
        drop(controller);
        if !alive {
            return self.hang(out, &op, "the chain service has gone");
        }
        if let Err(e) = self.wait_quiescent() {
            return self.hang(out, &op, &e);
        }
        for (_, v) in self.log.lock().unwrap().events[first..].iter() {
            match v {
                Verdict::Err => out.count("cb-err"),
                Verdict::Drop => out.count("cb-drop"),
                _ => {}
            }
        }
        let v = self.read_state(out);
        out.op(&op, &format!("td={}", v.td));
        let _ = self.oracle(out, &v, false, &op);
        if !self.foreign.is_empty() {
            let pool: HashSet<usize> = self.pool_ids().into_iter().collect();
            self.foreign.retain(|x| pool.contains(x));
        }
    }

    // ---- the sync layer's writes (Model/ChainSync.lean) -----------------------------------------

    /// `hdr <id>`: what `HeadersProcess` + `SyncShared::insert_valid_header` do to the HeaderMap: a header
    /// whose status already contains HEADER_VALID is known, a BLOCK_INVALID one is rejected, so the real
    /// `header_map().insert` happens only for an UNKNOWN block.
    /// `mark <id>`: `SyncShared::new_block_received`: BLOCK_RECEIVED is written (real `insert_block_status`)
    /// only when the status is exactly HEADER_VALID and the status map has no entry.
    /// The node is quiescent, nothing else runs; the answer is the full state line (the `st=` letters show
    /// the entry; later chain operations must remove / overwrite it as the model says).
    fn sync_write(&mut self, out: &mut Out, id: usize, mark: bool) {
        if self.dead {
            return;
        }
        if self.prev.is_none() {
            let g = self.get(0).work;
            self.prev = Some((0, g));
        }
        let b = self.get(id).clone();
        let td = self.total_work(id);
        {
            let shared = &self.node().shared;
            let status = shared.get_block_status(&b.hash);
            if mark {
                out.count("sync-mark-op");
                if status == BlockStatus::HEADER_VALID && !shared.block_status_map().contains_key(&b.hash) {
                    shared.insert_block_status(b.hash.clone(), BlockStatus::BLOCK_RECEIVED);
                    out.count("sync-mark-written");
                }
            } else {
                out.count("sync-hdr-op");
                if status == BlockStatus::UNKNOWN {
                    let h = b.block.header();
                    shared.header_map().insert(ckb_shared::HeaderIndexView::new(b.hash.clone(), h.number(), h.epoch(), h.timestamp(), h.parent_hash(), U256::from(td as u64)));
                    out.count("sync-hdr-written");
                } else if status != BlockStatus::BLOCK_INVALID {
                    out.count("sync-hdr-refused-on-known-block");
                }
            }
        }
        let v = self.read_state(out);
        let op = format!("{} {}", if mark { "mark" } else { "hdr" }, id);
        out.op(&op, &state_line(&[], &v));
        let _ = self.oracle(out, &v, true, &op);
    }

    // ---- stop / restart ------------------------------------------------------------------------

    /// the persisted state of the stopped node's database, opened without services
    fn persisted_view(&self, out: &mut Out) -> StateView {
        assert!(self.node.is_none());
        let db = ChainDB::new(RocksDB::open_in(self.dir.join("db"), COLUMNS), Default::default());
        let tip_hash = db.get_tip_header().expect("stopped database has a tip").hash();
        let tip = self.by_hash.get(&tip_hash).map(|i| self.blks[*i].id);
        let td = db.get_block_ext(&tip_hash).map(|e| u256_u128(&e.total_difficulty)).unwrap_or(0);
        let mut ids: Vec<usize> = self.blks.iter().map(|b| b.id).collect();
        ids.sort();
        let mut v = StateView { tip, td, orph: 0, stored: vec![], ext: vec![], ver: vec![], inv: vec![], st: String::new() };
        for id in ids {
            let b = self.get(id);
            if db.get(COLUMN_BLOCK_HEADER, b.hash.as_slice()).is_some() {
                v.stored.push(id);
            }
            v.st.push(match db.get_block_ext(&b.hash).map(|e| e.verified) {
                None => 'U',
                Some(None) => 'S',
                Some(Some(true)) => 'V',
                Some(Some(false)) => 'I',
            });
            if let Some(ext) = db.get_block_ext(&b.hash) {
                v.ext.push((id, u256_u128(&ext.total_difficulty)));
                match ext.verified {
                    Some(true) => v.ver.push(id),
                    Some(false) => out.oracle_fail("ext-false", &format!("block {id} has a persisted ext with verified == Some(false)")),
                    None => {}
                }
            }
        }
        drop(db);
        v
    }

    /// Stops the chain services (clean stop: the chain-service thread drains its request channel, then
    /// the preload and the verify thread are told to stop and abandon whatever is still queued) and
    /// drops every handle, so that the RocksDB lock is released. Afterwards every callback the harness
    /// ever handed over has fired or has been dropped.
    fn stop_node(&mut self, out: &mut Out, what: &str) -> bool {
        let node = self.node.take().expect("malformed op sequence: the node is already stopped");
        node.stop();
        let (fired, dropped) = {
            let l = self.log.lock().unwrap();
            (l.fired, l.dropped)
        };
        if self.handed != fired + dropped {
            // some thread of the stopped node still holds a callback: it did not terminate
            self.hang(out, what, &format!("after the stop {} callbacks are neither fired nor dropped: a node thread did not terminate", self.handed - fired - dropped));
            return false;
        }
        self.foreign.clear();
        true
    }

    /// statistics about what a stop left behind (`pool0`: ids pooled just before the stop)
    fn stop_stats(&mut self, out: &mut Out, pv: &StateView, pool0: &[usize]) {
        let ext: HashSet<usize> = pv.ext.iter().map(|(i, _)| *i).collect();
        let unext: Vec<usize> = pv.stored.iter().copied().filter(|i| *i != 0 && !ext.contains(i)).collect();
        let tipn = pv.tip.map(|t| self.get(t).num).unwrap_or(0);
        let tipe = pv.tip.map(|t| self.get(t).epoch).unwrap_or(0);
        if !unext.is_empty() {
            out.count("stop-with-stored-unverified");
        }
        if !pool0.is_empty() {
            out.count("stop-with-orphan-pool-nonempty");
        }
        if unext.iter().any(|i| !pool0.contains(i)) {
            out.count("stop-with-verify-queue-nonempty");
        }
        if unext.iter().any(|i| self.get(*i).num + ckb_chain::VERIF_ORPHAN_EXPIRED_EPOCH < tipn) {
            out.count("stop-with-stored-unverified-more-than-6-numbers-below-tip");
            self.had_deep_unverified = true;
        }
        if unext.iter().any(|i| self.get(*i).epoch + 1 < tipe) {
            out.count("stop-with-stored-unverified-more-than-one-epoch-below-tip");
        }
        if unext.iter().any(|i| self.get(*i).num > tipn) {
            out.count("stop-with-stored-unverified-above-tip");
        }
        // a stored-unverified block on a branch that is heavier than the persisted tip's chain
        if unext.iter().any(|i| self.valid(*i) && self.total_work(*i) > pv.td) {
            out.count("stop-with-heavier-branch-unverified");
        }
    }

    /// `crash`: stop the node (at quiescence in serialised histories); the persisted state is
    /// compared with the model's `crash` (volatile state dropped). The node stays stopped.
    fn stop(&mut self, out: &mut Out) {
        if self.dead {
            return;
        }
        out.count("stop-op");
        if self.prev.is_none() {
            let g = self.get(0).work;
            self.prev = Some((0, g));
        }
        let pool0 = self.pool_ids();
        if !self.stop_node(out, "crash") {
            return;
        }
        let pv = self.persisted_view(out);
        self.stop_stats(out, &pv, &pool0);
        out.op("crash", &state_line(&[], &pv));
        // the stop happened at quiescence: the persisted tip must already be maximal
        let _ = self.oracle_opt(out, &pv, false, true, "crash");
    }

    /// `burststop <ids>`: every id handed to the chain service from ONE thread without waiting for
    /// anything, then the node is stopped at once: all of them are inserted (the clean stop drains the
    /// request channel), an arbitrary prefix of the verify queue has been verified. The observed
    /// persisted state is part of the op line (spaces written as `|`): the model answers with the
    /// persisted state after that many verify steps whose state equals it (else with zero steps).
    fn burst_stop(&mut self, out: &mut Out, ids: &[usize]) {
        if self.dead {
            return;
        }
        out.count("burststop-op");
        for id in ids {
            let parent = self.get(*id).parent;
            out.count("deliver");
            if self.delivered.contains(id) {
                out.count("deliver-dup");
            }
            if *id != 0 && parent != 0 && !self.delivered.contains(&parent) {
                out.count("deliver-orphan");
            }
            if *id != 0 {
                self.delivered.insert(*id);
            }
            self.arrival.push(*id);
            self.foreign.remove(id);
        }
        if self.prev.is_none() {
            let g = self.get(0).work;
            self.prev = Some((0, g));
        }
        let pool0 = self.pool_ids();
        let lbs: Vec<LonelyBlock> = ids.iter().map(|id| self.lonely(*id)).collect();
        for lb in lbs {
            self.node().controller().asynchronous_process_lonely_block(lb);
        }
        let what = format!("burststop {}", show_ids(ids));
        if let Some(p) = node_panic() {
            return self.hang(out, &what, &format!("a node thread died: {p}"));
        }
        if !self.stop_node(out, &what) {
            return;
        }
        if let Some(p) = node_panic() {
            return self.hang(out, &what, &format!("a node thread died: {p}"));
        }
        let pv = self.persisted_view(out);
        // pooled before the burst or orphan in the burst: approximated by "no ext and parent without ext"
        let mut pooled = pool0.clone();
        let ext: HashSet<usize> = pv.ext.iter().map(|(i, _)| *i).collect();
        for id in ids {
            if !ext.contains(id) && !ext.contains(&self.get(*id).parent) && !self.connected_stored(*id, &pv) {
                pooled.push(*id);
            }
        }
        self.stop_stats(out, &pv, &pooled);
        let line = state_line(&[], &pv);
        out.op(&format!("{what} {}", line.replace(' ', "|")), &line);
        let _ = self.oracle_opt(out, &pv, false, false, &what);
    }

    /// stored and connected to a block with an ext through stored blocks (i.e. not an orphan)
    fn connected_stored(&self, id: usize, pv: &StateView) -> bool {
        let ext: HashSet<usize> = pv.ext.iter().map(|(i, _)| *i).collect();
        let mut b = self.get(id);
        loop {
            if b.id == 0 || ext.contains(&b.id) {
                return true;
            }
            if !pv.stored.contains(&b.id) {
                return false;
            }
            b = self.get(b.parent);
        }
    }

    /// how the NUMBER_HASH column iterates: (number, hash bytes)
    fn scan_order(&self) -> Vec<usize> {
        let mut v: Vec<usize> = self.blks.iter().map(|b| b.id).filter(|i| *i != 0).collect();
        v.sort_by(|a, b| (self.get(*a).num, self.get(*a).hash.as_slice().to_vec()).cmp(&(self.get(*b).num, self.get(*b).hash.as_slice().to_vec())));
        v
    }

    /// `restart`: (stop the node if it is still running,) start it again on the same directory, wait
    /// until `InitLoadUnverified` has finished and everything it re-submitted is verified or pooled.
    fn restart(&mut self, out: &mut Out) {
        if self.dead {
            return;
        }
        out.count("restart-op");
        if self.prev.is_none() {
            let g = self.get(0).work;
            self.prev = Some((0, g));
        }
        let stopped_here = if self.node.is_some() {
            let pool0 = self.pool_ids();
            if !self.stop_node(out, "restart") {
                return;
            }
            Some(pool0)
        } else {
            None
        };
        let pv = self.persisted_view(out);
        if let Some(pool0) = stopped_here {
            self.stop_stats(out, &pv, &pool0);
        }
        // ---- the received set across the restart (see `oracle`)
        let mel = self.consensus.max_epoch_length();
        let horizon = ckb_chain::VERIF_ORPHAN_EXPIRED_EPOCH * mel;
        let ext: HashSet<usize> = pv.ext.iter().map(|(i, _)| *i).collect();
        let unext: Vec<usize> = pv.stored.iter().copied().filter(|i| *i != 0 && !ext.contains(i)).collect();
        let tipn = pv.tip.map(|t| self.get(t).num).unwrap_or(0);
        let lo = std::cmp::max(1, tipn.saturating_sub(horizon));
        let hi = tipn + ckb_constant::sync::BLOCK_DOWNLOAD_WINDOW * 10;
        let unext_nums: HashSet<u64> = unext.iter().map(|i| self.get(*i).num).collect();
        let in_horizon: Vec<usize> = unext
            .iter()
            .copied()
            .filter(|i| {
                let n = self.get(*i).num;
                n >= lo && n <= hi && ((tipn + 1)..=n).all(|x| unext_nums.contains(&x))
            })
            .collect();
        let mut received: HashSet<usize> = ext.iter().copied().filter(|i| *i != 0).collect();
        received.extend(in_horizon.iter().copied());
        if unext.len() > in_horizon.len() {
            out.count("restart-forgot-outside-horizon");
        }
        if self.delivered.iter().any(|i| !received.contains(i) && self.get(*i).kind == Kind::Valid) {
            out.count("restart-forgot-something-valid");
        }
        self.delivered = received;
        self.survivors.clear();
        // ---- start
        let node = Node::start(&self.dir, self.consensus.clone(), &self.cfg);
        let t = Instant::now();
        while node.controller().is_verifying_unverified_blocks_on_startup() {
            if let Some(p) = node_panic() {
                self.node = Some(node);
                return self.hang(out, "restart", &format!("a node thread died: {p}"));
            }
            if t.elapsed() > quiescence_timeout() {
                self.node = Some(node);
                return self.hang(out, "restart", "InitLoadUnverified did not finish");
            }
            std::thread::sleep(Duration::from_micros(100));
        }
        self.node = Some(node);
        self.restarts += 1;
        self.restart_marks.push(self.arrival.len());
        // fence: when the genesis delivery is answered the chain-service thread has handled every
        // request of the scan; every pool entry is the scan's (no callback)
        let fence = LonelyBlock { block: self.get(0).block.clone(), switch: None, verify_callback: None };
        if !self.node().controller().verif_process_lonely_block_sync(fence) {
            return self.hang(out, "restart", "the chain service has gone");
        }
        self.foreign = self.blks.iter().map(|b| b.id).collect();
        if let Err(e) = self.wait_quiescent() {
            return self.hang(out, "restart", &e);
        }
        self.foreign = self.pool_ids().into_iter().collect();
        let v = self.read_state(out);
        let op = format!("restart {} {}", mel, show_ids(&self.scan_order()));
        out.op(&op, &state_line(&[], &v));
        // ---- the start-up scan must have picked up every stored-unverified block inside the horizon:
        //      afterwards it has an ext, or is pooled again, or was rejected (data deleted)
        let now_ext: HashSet<usize> = v.ext.iter().map(|(i, _)| *i).collect();
        let left: Vec<usize> = in_horizon.iter().copied().filter(|i| v.stored.contains(i) && !now_ext.contains(i) && !self.foreign.contains(i)).collect();
        if !left.is_empty() {
            out.oracle_fail(
                "restart-not-requeued",
                &format!(
                    "after the restart the blocks {:?} (numbers {:?}) are still stored without ext and are not in the orphan pool: InitLoadUnverified did not pick them up (stopped store: tip {:?} number {tipn}; stored without ext {:?} with numbers {:?}; horizon {horizon} blocks below the tip)",
                    left,
                    left.iter().map(|i| self.get(*i).num).collect::<Vec<_>>(),
                    pv.tip,
                    unext,
                    unext.iter().map(|i| self.get(*i).num).collect::<Vec<_>>()
                ),
            );
        }
        for _ in 0..in_horizon.len() {
            out.count("restart-requeued");
        }
        if !self.foreign.is_empty() {
            out.count("restart-repooled-orphans");
        }
        let moved = self.oracle(out, &v, false, "restart");
        if let Some((_, _, true)) = moved {
            out.count("restart-reorg-by-startup-verification");
        }
    }

    /// true when the case is non-trivial by the stated rule
    fn finish(mut self, out: &mut Out) {
        // an invalid block inside the otherwise heaviest branch: the heaviest delivered block that is
        // connected to genesis (validity ignored) is heavier than the heaviest valid one
        let m_valid = self.blks.iter().filter(|b| self.valid(b.id)).map(|b| self.total_work(b.id)).max().unwrap_or(0);
        let m_all = self.blks.iter().filter(|b| self.connected(b.id)).map(|b| self.total_work(b.id)).max().unwrap_or(0);
        let invalid_on_heaviest = m_all > m_valid;
        let works: HashSet<u128> = self.blks.iter().map(|b| b.work).collect();
        if works.len() >= 2 {
            out.count("uneven-distinct-work");
        }
        if self.had_multi {
            out.count("case-with-reorg-verifying-multi-above-tip");
        }
        match self.family {
            "uneven" => out.count("uneven-case"),
            "expiry" => out.count("expiry-case"),
            "restart" => out.count("restart-case"),
            "content" => out.count("content-case"),
            "sync" => out.count("sync-case"),
            _ => {}
        }
        if self.restarts > 0 && self.had_reorg {
            out.count("case-with-restart-and-reorg");
        }
        if self.restarts > 0 && self.had_deep_unverified {
            out.count("case-with-restart-over-stored-unverified-more-than-6-below-tip");
        }
        if !self.dead && (self.had_reorg || self.had_tie || invalid_on_heaviest) {
            let mut h = 0xcbf29ce484222325u64;
            let mut eat = |x: u64| {
                for b in x.to_le_bytes() {
                    h ^= b as u64;
                    h = h.wrapping_mul(0x100000001b3);
                }
            };
            for b in &self.blks {
                eat(b.parent as u64);
                eat(b.kind as u64);
            }
            eat(u64::MAX);
            for a in &self.arrival {
                eat(*a as u64);
            }
            for m in &self.restart_marks {
                eat(u64::MAX - 1);
                eat(*m as u64);
            }
            out.nontrivial(format!("{:016x}", h));
        }
        if let Some(n) = self.node.take() {
            if self.dead {
                // a dead pipeline may not join; do not wait for it
                std::mem::forget(n);
            } else {
                n.stop();
            }
        }
        let _ = std::fs::remove_dir_all(&self.dir);
    }
}

// ------------------------------------------------------------------------------------------------
// start-up self-test: every tweak is rejected at the claimed stage
// ------------------------------------------------------------------------------------------------

fn header_stored(node: &Node, h: &Byte32) -> bool {
    node.store().get(COLUMN_BLOCK_HEADER, h.as_slice()).is_some()
}

fn selftest(base: &Path) {
    assert_eq!(u256_dec(&U256::from(1234u64)), "1234", "U256 Display is not decimal");
    // `BlockStatus` bit patterns and containment as Model/ChainStatus.lean defines them
    {
        let all = [BlockStatus::UNKNOWN, BlockStatus::HEADER_VALID, BlockStatus::BLOCK_RECEIVED, BlockStatus::BLOCK_STORED, BlockStatus::BLOCK_VALID, BlockStatus::BLOCK_INVALID];
        let bits: Vec<u32> = all.iter().map(|s| s.bits()).collect();
        assert_eq!(bits, vec![0, 1, 3, 7, 15, 1 << 12], "BlockStatus bit patterns changed: Model/ChainStatus.lean assumes the shift-or chain 1,3,7,15 and the generated BLOCK_INVALID bit");
        for (i, a) in all.iter().enumerate() {
            for (j, b) in all.iter().enumerate() {
                // chain UNKNOWN < HEADER_VALID < RECEIVED < STORED < VALID; INVALID contains only UNKNOWN and itself
                let want = if i == 5 || j == 5 { i == j || j == 0 } else { j <= i };
                assert_eq!(a.contains(*b), want, "BlockStatus::contains({a:?}, {b:?})");
            }
        }
    }
    assert_eq!(ckb_chain::VERIF_ORPHAN_EXPIRED_EPOCH, 6, "the orphan retention horizon EXPIRED_EPOCH changed: the model's generated constant and this oracle assume 6");
    let cfg = NodeCfg { epoch_len: 4, with_pool: false, ..Default::default() };
    let consensus = make_consensus(&cfg);
    let fdl = consensus.finalization_delay_length();
    let dir = base.join("selftest");
    let node = Node::start(&dir.join("node"), consensus.clone(), &cfg);
    let mut b = ChainBuilder::new(consensus.clone(), &dir.join("builder"));
    let mut chain = vec![consensus.genesis_block().clone()];
    let height = fdl + 2;
    for n in 1..=height {
        let blk = b.build(&chain.last().unwrap().hash(), &BlockSpec { salt: n, ..Default::default() });
        assert_eq!(node.process(&blk), Ok(true), "selftest: valid block {n} rejected");
        chain.push(blk);
    }
    let tip = chain[height as usize].hash();
    let below = chain[height as usize - 1].hash();
    assert!(height > fdl);
    let mut salt = 1000;
    for tw in [Tweak::Dao, Tweak::Extension, Tweak::CellbaseCapacity(1)] {
        salt += 1;
        // as a sibling of the tip (equal work, not heavier): stored without verification => it passed
        // the non-contextual stage
        let side = b.build(&below, &BlockSpec { salt, tweak: tw.clone(), ..Default::default() });
        let r = node.process(&side);
        assert_eq!(r, Ok(true), "selftest: {tw:?} block must pass non-contextual verification and be stored as a side block");
        let ext = node.store().get_block_ext(&side.hash());
        assert!(header_stored(&node, &side.hash()) && matches!(ext, Some(ref e) if e.verified.is_none()), "selftest: {tw:?} side block must be stored with an unverified ext");
        assert_eq!(node.tip_hash(), tip);
        // on top of the tip (heavier): verified contextually and rejected
        salt += 1;
        let top = b.build(&tip, &BlockSpec { salt, tweak: tw.clone(), ..Default::default() });
        let r = node.process(&top);
        assert!(r.is_err(), "selftest: {tw:?} block on the tip must fail contextual verification, got {r:?}");
        assert_eq!(node.shared.get_block_status(&top.hash()), BlockStatus::BLOCK_INVALID, "selftest: {tw:?} block must be marked BLOCK_INVALID");
        assert!(!header_stored(&node, &top.hash()), "selftest: rejected {tw:?} block must be deleted");
        assert!(node.store().get_block_ext(&top.hash()).is_none(), "selftest: rejected {tw:?} block must have no ext");
        assert_eq!(node.tip_hash(), tip);
    }
    for parent in [height as usize - 1, height as usize] {
        salt += 1;
        let pb = Blk { id: 0, parent: 0, hash: chain[parent].hash(), num: chain[parent].number(), epoch: 0, work: 0, kind: Kind::Valid, block: Arc::new(chain[parent].clone()) };
        let bad = build_nc_invalid(&mut b, &pb, salt, pb.block.timestamp() + 1);
        let r = node.process(&bad);
        assert!(r.is_err(), "selftest: TxRoot block must fail, got {r:?}");
        assert_eq!(node.shared.get_block_status(&bad.hash()), BlockStatus::BLOCK_INVALID, "selftest: TxRoot block must be marked BLOCK_INVALID");
        assert!(!header_stored(&node, &bad.hash()), "selftest: TxRoot block must never be stored (non-contextual rejection)");
        assert_eq!(node.tip_hash(), tip);
    }
    // the detached way of building (used for leaves) yields the very same valid block
    let pb = Blk { id: 0, parent: 0, hash: tip.clone(), num: height, epoch: 0, work: 0, kind: Kind::Valid, block: Arc::new(chain[height as usize].clone()) };
    let d = build_detached(&mut b, &pb, 77, pb.block.timestamp() + 1 + 77 % 3);
    let n = b.build(&tip, &BlockSpec { salt: 77, ..Default::default() });
    assert_eq!(d.hash(), n.hash(), "selftest: detached building must give the same block");
    assert_eq!(node.process(&d), Ok(true), "selftest: detached-built block must be valid");
    node.stop();
    drop(b);
    let _ = std::fs::remove_dir_all(&dir);
}

// ------------------------------------------------------------------------------------------------
// generator
// ------------------------------------------------------------------------------------------------

struct TreeSpec {
    /// parent[i] for i in 1..=n (parent[0] = 0)
    parent: Vec<usize>,
    kind: Vec<Kind>,
    height: Vec<u64>,
    withheld: HashSet<usize>,
}

fn gen_tree(rng: &mut Rng, n: usize) -> TreeSpec {
    let mut parent = vec![0usize];
    let mut height = vec![0u64];
    for id in 1..=n {
        let r = rng.below(100);
        let p = if r < 55 {
            let mh = *height.iter().max().unwrap();
            let deepest: Vec<usize> = (0..id).filter(|i| height[*i] == mh).collect();
            *rng.pick(&deepest)
        } else if r < 80 {
            let lo = id.saturating_sub(6);
            rng.range(lo as u64, id as u64 - 1) as usize
        } else {
            rng.below(id as u64) as usize
        };
        parent.push(p);
        height.push(height[p] + 1);
    }
    let mut kind = vec![Kind::Valid; n + 1];
    // path of the first deepest leaf
    let mh = *height.iter().max().unwrap();
    let leaf = (0..=n).find(|i| height[*i] == mh).unwrap();
    let mut path = vec![];
    let mut x = leaf;
    while x != 0 {
        path.push(x);
        x = parent[x];
    }
    path.reverse();
    let tweaks = rng.below(4);
    for _ in 0..tweaks {
        let id = if !path.is_empty() && rng.chance(3, 4) {
            // on the longest branch, biased to its middle
            if rng.chance(2, 3) && path.len() >= 4 {
                let lo = path.len() / 4;
                let hi = path.len() - 1 - path.len() / 4;
                path[rng.range(lo as u64, hi as u64) as usize]
            } else {
                *rng.pick(&path)
            }
        } else {
            rng.range(1, n as u64) as usize
        };
        kind[id] = if rng.chance(3, 5) { Kind::Ctx } else { Kind::Nc };
    }
    let mut withheld = HashSet::new();
    if rng.chance(1, 2) {
        for _ in 0..rng.range(1, 2) {
            withheld.insert(rng.range(1, n as u64) as usize);
        }
    }
    TreeSpec { parent, kind, height, withheld }
}

fn gen_order(rng: &mut Rng, t: &TreeSpec) -> Vec<usize> {
    let n = t.parent.len() - 1;
    let mut order: Vec<usize> = (1..=n).filter(|i| !t.withheld.contains(i)).collect();
    if order.is_empty() {
        order.push(1);
    }
    match rng.below(3) {
        0 => {
            // mostly in order, a few swaps
            let swaps = rng.range(0, 2 + order.len() as u64 / 6);
            for _ in 0..swaps {
                let i = rng.below(order.len() as u64) as usize;
                let j = rng.below(order.len() as u64) as usize;
                order.swap(i, j);
            }
        }
        1 => rng.shuffle(&mut order),
        _ => {
            // children first
            order.reverse();
            let swaps = rng.range(0, 1 + order.len() as u64 / 8);
            for _ in 0..swaps {
                let i = rng.below(order.len() as u64) as usize;
                let j = rng.below(order.len() as u64) as usize;
                order.swap(i, j);
            }
        }
    }
    // duplicates: 10-30% of the deliveries are repeated, mostly later, sometimes anywhere
    let dups = (order.len() as u64 * rng.range(10, 30)).div_ceil(100);
    for _ in 0..dups {
        let i = rng.below(order.len() as u64) as usize;
        let id = order[i];
        let pos = if rng.chance(7, 10) { rng.range(i as u64 + 1, order.len() as u64) } else { rng.range(0, order.len() as u64) } as usize;
        order.insert(pos, id);
    }
    order
}

fn generate(out: &mut Out, opts: &Opts, builder_base: &Path, node_base: &Path) {
    let mut rng = Rng::new(opts.seed);
    // measured: a tree costs ~0.4 s CPU to build (one RocksDB open per branch of the builder), a case
    // ~0.2 s (node start); quick = 20 trees x 3 orders = 60 cases, thorough = 100 x 6 = 600 cases (250 x 6 took 17.7 min on the loaded machine)
    let (trees, orders) = if opts.thorough() { (100 * opts.scale, 6) } else { (20 * opts.scale, 3) };
    // debugging aid: `restartonly` as extra argument runs family `restart` alone
    let only_restart = opts.extra.iter().any(|a| a == "restartonly");
    let trees = if only_restart { 0 } else { trees };
    let t0 = Instant::now();
    let mut cases = 0u64;
    let (mut t_build, mut t_start, mut t_ops, mut t_stop) = (Duration::ZERO, Duration::ZERO, Duration::ZERO, Duration::ZERO);
    for tno in 0..trees {
        let cfg = NodeCfg { epoch_len: rng.range(3, 6), with_pool: false, ..Default::default() };
        let consensus = make_consensus(&cfg);
        let n = if opts.thorough() && rng.chance(1, 4) { rng.range(41, 120) } else { rng.range(8, 40) } as usize;
        let tree = gen_tree(&mut rng, n);
        let bdir = builder_base.join(format!("t{tno}"));
        let tb = Instant::now();
        let mut builder = ChainBuilder::new(consensus.clone(), &bdir);
        builder.max_branch_stores = 12;
        let mut blks = vec![genesis_blk(&consensus)];
        for id in 1..=n {
            let leaf = !tree.parent[id + 1..].contains(&id);
            let b = build_blk(&mut builder, id, &blks[tree.parent[id]].clone(), tree.kind[id], leaf);
            blks.push(b);
        }
        drop(builder);
        let _ = std::fs::remove_dir_all(&bdir);
        t_build += tb.elapsed();
        for ono in 0..orders {
            let order = gen_order(&mut rng, &tree);
            let burst = rng.chance(3, 10);
            let threads = rng.range(1, 3) as usize;
            let label = format!("el={} mode={} thr={} tree={} ord={} n={}", cfg.epoch_len, if burst { "burst" } else { "ser" }, threads, tno, ono, n);
            let case = out.begin_case(&label);
            let ts = Instant::now();
            let mut run = CaseRun::start(&node_base.join(format!("c{case}")), &consensus, &cfg, threads);
            t_start += ts.elapsed();
            for b in &blks {
                run.declare(out, b.clone());
            }
            let to = Instant::now();
            if burst {
                run.burst(out, &order);
            } else {
                for id in &order {
                    run.deliver(out, *id);
                    if run.dead {
                        break;
                    }
                }
            }
            t_ops += to.elapsed();
            let tf = Instant::now();
            run.finish(out);
            t_stop += tf.elapsed();
            cases += 1;
            if cases % 100 == 0 {
                eprintln!("C01: {} cases, {} trees, {:.1}s", cases, tno + 1, t0.elapsed().as_secs_f64());
            }
        }
    }
    let t_gen = t0.elapsed();
    // ---- family "uneven": real difficulty adjustment, branches of different per-block work
    let (utrees, uorders) = if opts.thorough() { (40 * opts.scale, 6) } else { (10 * opts.scale, 3) };
    let utrees = if only_restart { 0 } else { utrees };
    for tno in 0..utrees {
        let tb = Instant::now();
        let tree = gen_uneven_tree(&mut rng, &builder_base.join(format!("u{tno}")));
        t_build += tb.elapsed();
        for ono in 0..uorders {
            let order = uneven_order(&mut rng, &tree);
            let burst = rng.chance(3, 10);
            let threads = rng.range(1, 3) as usize;
            let label = format!(
                "{} mode={} thr={} fam=uneven shape={} tree={} ord={} n={} slow={}",
                tree.chain.label(),
                if burst { "burst" } else { "ser" },
                threads,
                tree.shape,
                tno,
                ono,
                tree.blks.len() - 1,
                show_ids(&tree.slow)
            );
            let ops: Vec<Op> = if burst { vec![Op::Burst(order)] } else { order.into_iter().map(Op::Deliver).collect() };
            if tree.tie {
                out.count("uneven-equal-work-different-length");
            }
            run_case(out, node_base, &label, &tree.chain, threads, "uneven", &tree.blks, &ops);
            cases += 1;
        }
    }
    let t_uneven = t0.elapsed() - t_gen;
    // ---- family "expiry": orphan chains held in the pool while `expire` fires
    let (etrees, eorders) = if opts.thorough() { (15 * opts.scale, 3) } else { (4 * opts.scale, 2) };
    let etrees = if only_restart { 0 } else { etrees };
    for tno in 0..etrees {
        let tb = Instant::now();
        let tree = gen_expiry_tree(&mut rng, &builder_base.join(format!("e{tno}")));
        t_build += tb.elapsed();
        for ono in 0..eorders {
            let ops = expiry_ops(&mut rng, &tree);
            let label = format!("{} mode=ser thr=1 fam=expiry tree={} ord={} n={}", tree.chain.label(), tno, ono, tree.blks.len() - 1);
            run_case(out, node_base, &label, &tree.chain, 1, "expiry", &tree.blks, &ops);
            cases += 1;
        }
    }
    let t_expiry = t0.elapsed() - t_gen - t_uneven;
    // ---- family "restart": the node is stopped in the middle of a delivery and started again
    let (rtrees, rorders) = if opts.thorough() { (40 * opts.scale, 5) } else { (9 * opts.scale, 3) };
    for tno in 0..rtrees {
        let tb = Instant::now();
        let tree = gen_restart_tree(&mut rng, &builder_base.join(format!("r{tno}")));
        t_build += tb.elapsed();
        for ono in 0..rorders {
            let (ops, burst_stop) = restart_ops(&mut rng, &tree);
            let threads = rng.range(1, 3) as usize;
            let label = format!("{} mode={} thr={} fam=restart tree={} ord={} n={}", tree.chain.label(), if burst_stop { "burststop" } else { "ser" }, threads, tno, ono, tree.blks.len() - 1);
            run_case(out, node_base, &label, &tree.chain, threads, "restart", &tree.blks, &ops);
            cases += 1;
        }
    }
    let t_restart = t0.elapsed() - t_gen - t_uneven - t_expiry;
    // ---- family "content": uncles and two-phase-commit transactions across A -> B -> A' -> B' switches
    let (ctrees, corders) = if opts.thorough() { (12 * opts.scale, 6) } else { (3 * opts.scale, 4) };
    let ctrees = if only_restart { 0 } else { ctrees };
    for tno in 0..ctrees {
        let cs = rng.next() % 1_000_000;
        let tb = Instant::now();
        let tree = gen_content_tree(cs, &builder_base.join(format!("k{tno}")));
        t_build += tb.elapsed();
        for ono in 0..corders {
            let (ops, mode) = content_ops(&mut rng, &tree);
            let threads = rng.range(1, 3) as usize;
            let label = format!("{} mode={} thr={} fam=content cs={} tree={} ord={} n={}", tree.chain.label(), mode, threads, cs, tno, ono, tree.blks.len() - 1);
            run_case(out, node_base, &label, &tree.chain, threads, "content", &tree.blks, &ops);
            cases += 1;
        }
    }
    let t_content = t0.elapsed() - t_gen - t_uneven - t_expiry - t_restart;
    // ---- family "sync": the sync layer's HeaderMap / BLOCK_RECEIVED writes between serialised deliveries
    // (own random stream, so that the other families' cases do not depend on it)
    let mut srng = Rng::new(opts.seed ^ 0x5c_5c_a11e);
    let strees = if only_restart { 0 } else if opts.thorough() { 12 * opts.scale } else { 3 * opts.scale };
    for tno in 0..strees {
        let cfg = NodeCfg { epoch_len: srng.range(3, 6), with_pool: false, ..Default::default() };
        let consensus = make_consensus(&cfg);
        let n = srng.range(8, 24) as usize;
        let tree = gen_tree(&mut srng, n);
        let bdir = builder_base.join(format!("s{tno}"));
        let mut builder = ChainBuilder::new(consensus.clone(), &bdir);
        builder.max_branch_stores = 12;
        let mut blks = vec![genesis_blk(&consensus)];
        for id in 1..=n {
            let leaf = !tree.parent[id + 1..].contains(&id);
            let b = build_blk(&mut builder, id, &blks[tree.parent[id]].clone(), tree.kind[id], leaf);
            blks.push(b);
        }
        drop(builder);
        let _ = std::fs::remove_dir_all(&bdir);
        for ono in 0..2 {
            let order = gen_order(&mut srng, &tree);
            let mut ops = vec![];
            for id in order {
                // a header (and then a received mark) for the block about to arrive — as a peer's
                // headers / block message would —, for some other block (verified ones included: refused),
                // or nothing
                match srng.below(6) {
                    0 | 1 => {
                        ops.push(Op::Hdr(id));
                        if srng.chance(2, 3) {
                            ops.push(Op::Mark(id));
                        }
                    }
                    2 => {
                        let x = srng.range(1, n as u64) as usize;
                        ops.push(Op::Hdr(x));
                        if srng.chance(1, 2) {
                            ops.push(Op::Mark(x));
                        }
                    }
                    3 => ops.push(Op::Mark(srng.range(1, n as u64) as usize)),
                    _ => {}
                }
                ops.push(Op::Deliver(id));
            }
            let chain = Chain::Flat { el: cfg.epoch_len };
            let label = format!("{} mode=ser thr=1 fam=sync tree={} ord={} n={}", chain.label(), tno, ono, n);
            run_case(out, node_base, &label, &chain, 1, "sync", &blks, &ops);
            cases += 1;
        }
    }
    eprintln!("C01: content {:.1}s", t_content.as_secs_f64());
    eprintln!("C01: general {:.1}s, uneven {:.1}s, expiry {:.1}s, restart {:.1}s", t_gen.as_secs_f64(), t_uneven.as_secs_f64(), t_expiry.as_secs_f64(), t_restart.as_secs_f64());
    eprintln!(
        "C01: {} cases in {:.1}s (building blocks {:.1}s, node start {:.1}s, deliveries {:.1}s, node stop {:.1}s)",
        cases,
        t0.elapsed().as_secs_f64(),
        t_build.as_secs_f64(),
        t_start.as_secs_f64(),
        t_ops.as_secs_f64(),
        t_stop.as_secs_f64()
    );
}

enum Op {
    Deliver(usize),
    Burst(Vec<usize>),
    Expire,
    /// `crash`: stop the node, compare the persisted state
    Stop,
    /// `burststop <ids>`: hand the ids over without waiting and stop the node at once
    BurstStop(Vec<usize>),
    /// `restart`: (stop and) start the node on the same directory
    Restart,
    /// `hdr <id>` / `mark <id>`: the sync layer's HeaderMap / BLOCK_RECEIVED writes
    Hdr(usize),
    Mark(usize),
}

fn run_case(out: &mut Out, node_base: &Path, label: &str, chain: &Chain, threads: usize, family: &'static str, blks: &[Blk], ops: &[Op]) {
    let case = out.begin_case(label);
    let mut run = CaseRun::start(&node_base.join(format!("c{case}")), &chain.consensus(), &chain.node_cfg(), threads);
    run.family = family;
    for b in blks {
        run.declare(out, b.clone());
    }
    for op in ops {
        match op {
            Op::Deliver(id) => run.deliver(out, *id),
            Op::Burst(ids) => run.burst(out, ids),
            Op::Expire => run.expire(out),
            Op::Stop => run.stop(out),
            Op::BurstStop(ids) => run.burst_stop(out, ids),
            Op::Restart => run.restart(out),
            Op::Hdr(id) => run.sync_write(out, *id, false),
            Op::Mark(id) => run.sync_write(out, *id, true),
        }
        if run.dead {
            break;
        }
    }
    run.finish(out);
}

fn path_work(blks: &[Blk], mut id: usize) -> u128 {
    let mut s = 0;
    loop {
        s += blks[id].work;
        if id == 0 {
            return s;
        }
        id = blks[id].parent;
    }
}

/// random merge of two sequences, each keeping its own order
fn merge_keep_order(rng: &mut Rng, a: &[usize], b: &[usize]) -> Vec<usize> {
    let (mut i, mut j) = (0, 0);
    let mut v = vec![];
    while i < a.len() || j < b.len() {
        let take_a = j >= b.len() || (i < a.len() && rng.below((a.len() - i + b.len() - j) as u64) < (a.len() - i) as u64);
        if take_a {
            v.push(a[i]);
            i += 1;
        } else {
            v.push(b[j]);
            j += 1;
        }
    }
    v
}

fn add_dups(rng: &mut Rng, order: &mut Vec<usize>, pct_lo: u64, pct_hi: u64) {
    let dups = order.len() as u64 * rng.range(pct_lo, pct_hi) / 100;
    for _ in 0..dups {
        let i = rng.below(order.len() as u64) as usize;
        let id = order[i];
        let pos = if rng.chance(7, 10) { rng.range(i as u64 + 1, order.len() as u64) } else { rng.range(0, order.len() as u64) } as usize;
        order.insert(pos, id);
    }
}

// ---- family "uneven" ------------------------------------------------------------------------------

/// Main chain M (ids 1..=h, fast blocks: heavy after the epoch boundary) and a fork F leaving it
/// before the boundary with slow blocks (light after the boundary).
///   shape a: F grows LONGER than M while still LIGHTER, then overtakes it and is extended further
///   shape b: F stops exactly at equal total work (different lengths), when the numbers allow it
///   shape c: F ends longer than M but lighter
/// `m2`: M extended again after F (may take the tip back).
struct UnevenTree {
    chain: Chain,
    blks: Vec<Blk>,
    slow: Vec<usize>,
    prefix: Vec<usize>,
    m: Vec<usize>,
    f: Vec<usize>,
    m2: Vec<usize>,
    shape: char,
    /// shape b reached: the fork ends at exactly the main chain's total work, with a different length
    tie: bool,
}

fn gen_uneven_tree(rng: &mut Rng, bdir: &Path) -> UnevenTree {
    let shape = match rng.below(20) {
        0..=10 => 'a',
        11..=14 => 'b',
        _ => 'c',
    };
    // shape b wants exact multiples: with gl = 3, t = 48 the fully clamped slow fork has exactly a
    // quarter of the main chain's per-block work (1000000 : 250000)
    let (gl, t) = if shape == 'b' { (3, 48) } else { (rng.range(2, 4), *rng.pick(&[48u64, 48, 96])) };
    let chain = Chain::Uneven { t, gl, d0: 1_000_000 };
    let consensus = chain.consensus();
    let mut builder = ChainBuilder::new(consensus.clone(), bdir);
    builder.max_branch_stores = 4;
    // without uncles the epoch lengths are gl, 2gl, 4gl: boundaries (first height of the next epoch)
    let bnd = if shape == 'b' || rng.chance(3, 5) { gl } else { 3 * gl };
    let fp = if shape == 'b' { 0 } else { rng.range(bnd.saturating_sub(3), bnd - 2) as usize };
    let h = (bnd - 1 + rng.range(1, 3)) as usize;
    let mut blks = vec![genesis_blk(&consensus)];
    let mut slow = vec![];
    for id in 1..=h {
        let p = blks[id - 1].clone();
        blks.push(build_blk_paced(&mut builder, id, &p, Kind::Valid, false, false));
    }
    let prefix: Vec<usize> = (1..=fp).collect();
    let m: Vec<usize> = (fp + 1..=h).collect();
    let td_m = path_work(&blks, h);
    let slow_after = rng.chance(1, 3);
    let c_len = h as u64 + rng.range(2, 4);
    let mut f = vec![];
    let mut extra: Option<u64> = None;
    let mut tie = false;
    let mut parent = fp;
    loop {
        let id = blks.len();
        let hf = blks[parent].num + 1;
        let is_slow = hf < bnd || (slow_after && rng.chance(2, 3));
        let p = blks[parent].clone();
        blks.push(build_blk_paced(&mut builder, id, &p, Kind::Valid, false, is_slow));
        if is_slow {
            slow.push(id);
        }
        f.push(id);
        parent = id;
        let td_f = path_work(&blks, id);
        if f.len() >= 40 {
            break;
        }
        match shape {
            'c' => {
                if hf >= c_len || td_f + blks[id].work >= td_m {
                    break;
                }
            }
            _ => {
                if shape == 'b' && td_f == td_m {
                    tie = true;
                    break;
                }
                if td_f > td_m && extra.is_none() {
                    extra = Some(if shape == 'a' { rng.range(1, 3) } else { rng.range(0, 1) });
                }
                if let Some(e) = extra {
                    if e == 0 {
                        break;
                    }
                    extra = Some(e - 1);
                }
            }
        }
    }
    let mut m2 = vec![];
    if shape != 'c' && rng.chance(2, 5) {
        let mut parent = h;
        for _ in 0..rng.range(1, 2) {
            let id = blks.len();
            let p = blks[parent].clone();
            blks.push(build_blk_paced(&mut builder, id, &p, Kind::Valid, false, false));
            m2.push(id);
            parent = id;
        }
    }
    drop(builder);
    let _ = std::fs::remove_dir_all(bdir);
    UnevenTree { chain, blks, slow, prefix, m, f, m2, shape, tie }
}

fn uneven_order(rng: &mut Rng, t: &UnevenTree) -> Vec<usize> {
    let h = t.blks[*t.m.last().unwrap()].num;
    let cat = |parts: &[&[usize]]| -> Vec<usize> { parts.iter().flat_map(|p| p.iter().copied()).collect() };
    let mut order = match rng.below(6) {
        // M, then F in order: F's blocks above M's tip are stored unverified until F is heavier
        0 | 1 => cat(&[&t.prefix, &t.m, &t.f, &t.m2]),
        // the same with one F block near M's tip height arriving last of F: the rest waits as orphans
        2 => {
            let hi = t.f.iter().position(|i| t.blks[*i].num > h).unwrap_or(t.f.len() - 1);
            let lo = hi.saturating_sub(1);
            let g = rng.range(lo as u64, (hi + 1).min(t.f.len() - 1) as u64) as usize;
            let mut f: Vec<usize> = t.f.clone();
            let x = f.remove(g);
            f.push(x);
            cat(&[&t.prefix, &t.m, &f, &t.m2])
        }
        // M and F interleaved
        3 => {
            let mf = merge_keep_order(rng, &t.m, &t.f);
            cat(&[&t.prefix, &mf, &t.m2])
        }
        // F first (it is the tip), then the heavier M
        4 => cat(&[&t.prefix, &t.f, &t.m, &t.m2]),
        // anything
        _ => {
            let mut all = cat(&[&t.prefix, &t.m, &t.f, &t.m2]);
            if rng.chance(1, 2) {
                rng.shuffle(&mut all);
            } else {
                all.reverse();
            }
            all
        }
    };
    add_dups(rng, &mut order, 0, 15);
    order
}

// ---- family "expiry" ------------------------------------------------------------------------------

/// Main chain 1..=L (permanent difficulty, short epochs) and two orphan chains whose first block
/// (`pa`, `pb`: children of an early / a late main block) is delivered late or never: chain `a` sits
/// in early epochs, chain `b` in late ones.
struct ExpiryTree {
    chain: Chain,
    blks: Vec<Blk>,
    main: Vec<usize>,
    pa: usize,
    a: Vec<usize>,
    pb: usize,
    b: Vec<usize>,
}

fn gen_expiry_tree(rng: &mut Rng, bdir: &Path) -> ExpiryTree {
    let el = rng.range(2, 3);
    let chain = Chain::Flat { el };
    let consensus = chain.consensus();
    let mut builder = ChainBuilder::new(consensus.clone(), bdir);
    builder.max_branch_stores = 4;
    let l = rng.range(25, 30) as usize;
    let mut blks = vec![genesis_blk(&consensus)];
    for id in 1..=l {
        let p = blks[id - 1].clone();
        blks.push(build_blk(&mut builder, id, &p, Kind::Valid, false));
    }
    let mut side = |blks: &mut Vec<Blk>, at: usize, k: u64| -> (usize, Vec<usize>) {
        let mut parent = at;
        let mut ids = vec![];
        for i in 0..=k {
            let id = blks.len();
            let p = blks[parent].clone();
            blks.push(build_blk(&mut builder, id, &p, Kind::Valid, i == k));
            ids.push(id);
            parent = id;
        }
        (ids[0], ids[1..].to_vec())
    };
    let at_a = rng.range(1, 3) as usize;
    let ka = rng.range(8, 14);
    let (pa, a) = side(&mut blks, at_a, ka);
    let at_b = l - rng.range(3, 8) as usize;
    let kb = rng.range(3, 8);
    let (pb, b) = side(&mut blks, at_b, kb);
    drop(builder);
    let _ = std::fs::remove_dir_all(bdir);
    ExpiryTree { chain, blks, main: (1..=l).collect(), pa, a, pb, b }
}

fn expiry_ops(rng: &mut Rng, t: &ExpiryTree) -> Vec<Op> {
    let el = match t.chain {
        Chain::Flat { el } => el,
        _ => unreachable!(),
    } as usize;
    let l = t.main.len();
    let scramble = |rng: &mut Rng, v: &[usize]| -> Vec<usize> {
        let mut v = v.to_vec();
        match rng.below(3) {
            0 => {}
            1 => v.reverse(),
            _ => rng.shuffle(&mut v),
        }
        v
    };
    let ea = t.blks[t.a[0]].epoch as usize;
    let mut ops: Vec<usize> = vec![]; // usize::MAX = expire
    const EXPIRE: usize = usize::MAX;
    // 1. a few main blocks, chain a (and sometimes chain b) as orphans; nothing may expire
    let m1 = rng.range(3, 6) as usize;
    let b_early = rng.chance(1, 2);
    let mut early = scramble(rng, &t.a);
    if b_early {
        let sb = scramble(rng, &t.b);
        early = merge_keep_order(rng, &early, &sb);
    }
    ops.extend(merge_keep_order(rng, &t.main[..m1], &early));
    ops.push(EXPIRE);
    // 2. up to a height whose epoch is still within the horizon of chain a (but whose NUMBER is far
    //    beyond its epoch number + horizon): still nothing may expire
    let last_in_horizon = ((ea + 7) * el - 1).min(l - 3);
    let m2 = if m1 < last_in_horizon { rng.range((m1 + 1).max((ea + 8).min(last_in_horizon)) as u64, last_in_horizon as u64) as usize } else { m1 };
    ops.extend(&t.main[m1..m2]);
    if rng.chance(1, 3) {
        ops.push(*rng.pick(&t.a));
    }
    ops.push(EXPIRE);
    if rng.chance(1, 2) {
        // 3x. the missing parent arrives within the horizon: chain a must connect (and win when heavier)
        ops.push(t.pa);
        ops.extend(&t.main[m2..]);
        if rng.chance(1, 2) {
            ops.push(EXPIRE);
        }
    } else {
        // 3y. the main chain leaves the horizon of chain a: expire removes it (not the young chain b);
        //     its parent then arrives, some of its blocks are delivered again
        ops.extend(&t.main[m2..]);
        ops.push(EXPIRE);
        ops.push(t.pa);
        let j = rng.range(1, t.a.len() as u64) as usize;
        ops.extend(scramble(rng, &t.a[..j]));
    }
    // 4. chain b
    if !b_early {
        ops.extend(scramble(rng, &t.b));
    }
    if rng.chance(1, 2) {
        ops.push(EXPIRE);
    }
    ops.push(t.pb);
    if rng.chance(1, 2) {
        ops.push(EXPIRE);
    }
    ops.into_iter().map(|x| if x == EXPIRE { Op::Expire } else { Op::Deliver(x) }).collect()
}

// ---- family "restart" -----------------------------------------------------------------------------

/// Main chain 1..=l (permanent difficulty, short epochs: the chain spans several epochs) and 1-3
/// competing branches, each a simple chain leaving the main chain at `fork` (a main block id, 0 =
/// genesis), heavier (longer), lighter or exactly as heavy as the rest of the main chain; a branch may
/// contain one invalid block. `ids[0]` of a branch is its CONNECTOR: while it is withheld the rest of
/// the branch waits in the orphan pool (stored, no ext).
/// Shape restriction (stated in the manifest): two siblings are never in the orphan pool together
/// (branches are chains, the main chain is delivered in order, branches forking above main block 3
/// have distinct fork points), so the order in which pooled blocks are released is determined by the
/// tree — after a restart the pool entries carry no callback from which the harness could read it.
struct RBranch {
    fork: usize,
    ids: Vec<usize>,
    all_valid: bool,
}

struct RestartTree {
    chain: Chain,
    blks: Vec<Blk>,
    l: usize,
    branches: Vec<RBranch>,
}

fn gen_restart_tree(rng: &mut Rng, bdir: &Path) -> RestartTree {
    let chain = Chain::Flat { el: rng.range(3, 6) };
    let consensus = chain.consensus();
    let mut builder = ChainBuilder::new(consensus.clone(), bdir);
    builder.max_branch_stores = 6;
    let l = rng.range(12, 22) as usize;
    let mut blks = vec![genesis_blk(&consensus)];
    for id in 1..=l {
        let p = blks[id - 1].clone();
        blks.push(build_blk(&mut builder, id, &p, Kind::Valid, id == l));
    }
    let mut branches: Vec<RBranch> = vec![];
    for _ in 0..rng.range(1, 3) {
        let mut f = if rng.chance(3, 5) { rng.range(0, 3) } else { rng.range(0, l as u64 - 2) } as usize;
        if f > 3 && branches.iter().any(|b| b.fork == f) {
            f = rng.range(0, 3) as usize;
        }
        let rest = l - f;
        let len = match rng.below(5) {
            0 | 1 => rest + rng.range(1, 2) as usize, // heavier than the main chain
            2 => rest,                                 // exactly as heavy (tie)
            _ => rng.range(2, (rest as u64 - 1).max(2)) as usize,
        }
        .min(26);
        let bad = if rng.chance(1, 4) { Some((rng.below(len as u64) as usize, if rng.chance(3, 5) { Kind::Ctx } else { Kind::Nc })) } else { None };
        let mut parent = f;
        let mut ids = vec![];
        for i in 0..len {
            let id = blks.len();
            let p = blks[parent].clone();
            let kind = match bad {
                Some((j, k)) if j == i => k,
                _ => Kind::Valid,
            };
            blks.push(build_blk(&mut builder, id, &p, kind, i + 1 == len));
            ids.push(id);
            parent = id;
        }
        branches.push(RBranch { fork: f, ids, all_valid: bad.is_none() });
    }
    drop(builder);
    let _ = std::fs::remove_dir_all(bdir);
    RestartTree { chain, blks, l, branches }
}

/// (ops, burst-stop used)
fn restart_ops(rng: &mut Rng, t: &RestartTree) -> (Vec<Op>, bool) {
    let l = t.l;
    let scramble = |rng: &mut Rng, v: &[usize]| -> Vec<usize> {
        let mut v = v.to_vec();
        match rng.below(3) {
            0 => {}
            1 => v.reverse(),
            _ => rng.shuffle(&mut v),
        }
        v
    };
    let burst_stop = rng.chance(2, 5);
    // main blocks received before the stop: 1..=a (the tip is at least 9, so that blocks of a branch
    // forking at 0..3 sit more than EXPIRED_EPOCH = 6 numbers below it)
    let a = rng.range(9, l as u64 - if burst_stop { 1 } else { 0 }) as usize;
    // in burst mode the last blocks of 1..=a are part of the burst
    let a0 = if burst_stop { a - rng.range(1, (a as u64 - 4).min(8)) as usize } else { a };
    #[derive(Clone, Copy, PartialEq)]
    enum Plan {
        /// before the stop, WITHOUT its connector: pooled orphans
        Orphan,
        /// before the stop, completely and in order (its fork point is connected by then)
        Full,
        /// after the restart
        Later,
    }
    let mut plans: Vec<Plan> = t
        .branches
        .iter()
        .map(|b| {
            // `Full` inside a burst must not contain a block that fails verification: a failure that
            // is decided while later blocks of the burst arrive makes the persisted state depend on the
            // thread timing (child rejected on arrival / child queued and still stored at the stop)
            let full_ok = b.fork <= a0 && (!burst_stop || b.all_valid);
            match rng.below(10) {
                0..=4 if b.ids.len() >= 2 => Plan::Orphan,
                5..=7 if full_ok => Plan::Full,
                _ => Plan::Later,
            }
        })
        .collect();
    if !burst_stop && !plans.contains(&Plan::Orphan) {
        // a serialised stop leaves stored-unverified blocks only in the orphan pool
        if let Some(i) = (0..plans.len()).find(|i| t.branches[*i].ids.len() >= 2) {
            plans[i] = Plan::Orphan;
        }
    }
    let orphans: Vec<Vec<usize>> = (0..plans.len()).filter(|i| plans[*i] == Plan::Orphan).map(|i| scramble(rng, &t.branches[i].ids[1..])).collect();
    let fulls: Vec<Vec<usize>> = (0..plans.len()).filter(|i| plans[*i] == Plan::Full).map(|i| t.branches[i].ids.clone()).collect();
    let merge_all = |rng: &mut Rng, parts: &[Vec<usize>]| -> Vec<usize> {
        let mut acc: Vec<usize> = vec![];
        for p in parts {
            acc = merge_keep_order(rng, &acc, p);
        }
        acc
    };
    let mut ops: Vec<Op> = vec![];
    let mut before: Vec<usize> = vec![];
    // ---- phase A (serialised): main 1..=a0, the orphans merged in; complete branches afterwards
    let main_a: Vec<usize> = (1..=a0).collect();
    let (orph_ser, orph_burst): (Vec<Vec<usize>>, Vec<Vec<usize>>) = if burst_stop { orphans.into_iter().partition(|_| rng.chance(1, 2)) } else { (orphans, vec![]) };
    let orph_ser_merged = merge_all(rng, &orph_ser);
    let mut phase_a = merge_keep_order(rng, &main_a, &orph_ser_merged);
    if !burst_stop {
        phase_a.extend(merge_all(rng, &fulls));
    }
    before.extend(&phase_a);
    ops.extend(phase_a.into_iter().map(Op::Deliver));
    if burst_stop {
        // ---- the burst: the rest of main 1..=a, complete branches (queued behind each other), more
        //      orphans; then the node stops at once
        let main_b: Vec<usize> = (a0 + 1..=a).collect();
        let mut parts = vec![main_b];
        parts.extend(fulls);
        parts.extend(orph_burst);
        let ids = merge_all(rng, &parts);
        before.extend(&ids);
        ops.push(Op::BurstStop(ids));
    } else if rng.chance(1, 2) {
        ops.push(Op::Stop);
    }
    ops.push(Op::Restart);
    // ---- phase B: connectors (3 of 4), the rest of the main chain in order, the branches not seen yet
    //      (complete, in order, after the main chain reached their fork point), re-deliveries of
    //      none / some / all blocks the node already had
    let mut later: Vec<usize> = vec![];
    let mut withheld: Vec<usize> = vec![];
    for (i, b) in t.branches.iter().enumerate() {
        if plans[i] == Plan::Orphan {
            if rng.chance(3, 4) {
                later.push(b.ids[0]);
            } else {
                withheld.push(b.ids[0]);
            }
        }
    }
    rng.shuffle(&mut later);
    let main_rest: Vec<usize> = (a + 1..=l).collect();
    let mut phase_b = merge_keep_order(rng, &main_rest, &later);
    for (i, b) in t.branches.iter().enumerate() {
        if plans[i] == Plan::Later {
            if b.fork <= a && rng.chance(1, 2) {
                phase_b = merge_keep_order(rng, &phase_b, &b.ids);
            } else {
                phase_b.extend(&b.ids);
            }
        }
    }
    let final_burst = rng.chance(1, 4);
    if !final_burst {
        let again: Vec<usize> = match rng.below(4) {
            0 | 1 => vec![],
            2 => before.iter().copied().filter(|_| rng.chance(1, 4)).collect(),
            _ => before.clone(),
        };
        for id in again {
            let pos = rng.range(0, phase_b.len() as u64) as usize;
            phase_b.insert(pos, id);
        }
    }
    if rng.chance(1, 2) {
        phase_b.extend(&withheld);
    }
    if final_burst {
        if !phase_b.is_empty() {
            ops.push(Op::Burst(phase_b));
        }
    } else {
        let second = if rng.chance(1, 3) && !phase_b.is_empty() { Some(rng.range(0, phase_b.len() as u64) as usize) } else { None };
        for (i, id) in phase_b.into_iter().enumerate() {
            if second == Some(i) {
                if rng.chance(1, 2) {
                    ops.push(Op::Stop);
                }
                ops.push(Op::Restart);
            }
            ops.push(Op::Deliver(id));
        }
    }
    (ops, burst_stop)
}

// ------------------------------------------------------------------------------------------------
// replay
// ------------------------------------------------------------------------------------------------


// ---- family "content" -----------------------------------------------------------------------------

/// Blocks whose validity depends on what the chain they sit on has ALREADY embedded / spent, under
/// repeated switches between two branches (A -> B -> A' -> B'): uncles (the uncle index of a detached
/// block must be forgotten, that of a re-attached block restored) and transactions with the two-phase
/// commit (the live-cell set of a detached block must be rolled back, that of a re-attached, already
/// verified block re-applied). The tree is a deterministic function of the content seed `cs` (in the
/// case label), so a replay rebuilds the same blocks.
///
///   prefix P1..Pk (k = 1..2) on genesis; uncle u = a sibling of Pk (a valid block, never delivered)
///   A1 [proposes tx1 tx2 tx1x tg tg2] A2 A3 [commits tx1 tg]           tx1: spends genesis cell g0
///   B1 [proposes tx1b tx2b tg] B2 B3 [commits tx1b] B4 [commits tg]  tx1b: spends g0 too (valid on B)
///   A4 A5 [commits tx2: spends an output of tx1; tg2]  -> A is heavier again
///      A5x (sibling of A5) [commits tx1x: spends g0 again]           INVALID (double spend in the chain)
///      A5u (sibling of A5) [embeds u]                                INVALID iff A already embedded u
///   B5 B6 [commits tx2b: spends an output of tx1b]  -> B is heavier again
///      B6u (sibling of B6) [embeds u]                                INVALID iff B already embedded u
///      B6p (sibling of B6) [commits tg2, proposed on A only]         INVALID (not proposed on its chain)
/// `ua` / `ub`: which block of A / B (if any) embeds u.
struct ContentTree {
    chain: Chain,
    blks: Vec<Blk>,
    k: usize,
    /// ids: prefix, A1..A3, B1..B4, A4 A5 A5x A5u, B5 B6 B6u
    pre: Vec<usize>,
    a1: Vec<usize>,
    b1: Vec<usize>,
    a2: Vec<usize>,
    b2: Vec<usize>,
}

fn content_block(b: &mut ChainBuilder, id: usize, parent: &Blk, kind: Kind, detached: bool, txs: Vec<TransactionView>, proposals: Vec<ckb_types::packed::ProposalShortId>, uncles: Vec<ckb_types::core::UncleBlockView>) -> Blk {
    let ts = block_ts(parent, id, false);
    // `Tweak::Timestamp` with the timestamp the builder would take anyway: the block is byte-identical
    // to the untweaked one but is not attached to the builder's branch store (leaves, invalid blocks)
    let tweak = if detached { Tweak::Timestamp(ts) } else { Tweak::None };
    let block = b.build(&parent.hash, &BlockSpec { txs, proposals, uncles, salt: id as u64, tweak, timestamp: Some(ts) });
    Blk { id, parent: parent.id, hash: block.hash(), num: block.number(), epoch: block.epoch().number(), work: u256_u128(&block.header().difficulty()), kind, block: Arc::new(block) }
}

fn gen_content_tree(cs: u64, bdir: &Path) -> ContentTree {
    let mut rng = Rng::new(cs ^ 0x5eed_c01c_0de5);
    let chain = Chain::Flat { el: 60 };
    let consensus = chain.consensus();
    let mut b = ChainBuilder::new(consensus.clone(), bdir);
    b.max_branch_stores = 8;
    let k = rng.range(1, 2) as usize;
    // 0 = nobody, 1 / 2 = the first / second block of the branch's first phase
    let ua = if rng.chance(3, 4) { rng.range(1, 2) as usize } else { 0 };
    let ub = if rng.chance(3, 4) { rng.range(2, 3) as usize } else { 0 };
    let g = genesis_cells(&consensus);
    let out_of = |tx: &TransactionView, i: usize| -> (OutPoint, u64) {
        let c: Capacity = tx.outputs().get(i).unwrap().capacity().unpack();
        (OutPoint::new(tx.hash(), i as u32), c.as_u64())
    };
    let tx1 = spend_tx(&[g[0].clone()], 2, 1000, 1);
    let tx1x = spend_tx(&[g[0].clone()], 1, 2000, 2);
    let tx2 = spend_tx(&[out_of(&tx1, rng.below(2) as usize)], 1, 1000, 3);
    let tx1b = spend_tx(&[g[0].clone()], 2, 1500, 4);
    let tx2b = spend_tx(&[out_of(&tx1b, rng.below(2) as usize)], 1, 1000, 5);
    let tg = spend_tx(&[g[1].clone()], 1, 1000, 6);
    // proposed on branch A only
    let tg2 = spend_tx(&[g[2].clone()], 1, 1000, 7);
    let pid = |tx: &TransactionView| tx.proposal_short_id();
    let mut blks = vec![genesis_blk(&consensus)];
    let mut id = 0usize;
    let push = |blks: &mut Vec<Blk>, blk: Blk| -> usize {
        blks.push(blk);
        blks.len() - 1
    };
    // prefix
    let mut pre = vec![];
    for _ in 0..k {
        id += 1;
        let p = blks[id - 1].clone();
        let blk = content_block(&mut b, id, &p, Kind::Valid, false, vec![], vec![], vec![]);
        pre.push(push(&mut blks, blk));
    }
    // the uncle: a sibling of Pk (child of P(k-1)); a valid block of its own, never declared
    let up = blks[k - 1].clone();
    let u = build_detached(&mut b, &up, 9001, block_ts(&up, 9001, false)).as_uncle();
    let fork = blks[k].clone();
    let unc = |on: bool| if on { vec![u.clone()] } else { vec![] };
    // A1..A3
    let mut a1 = vec![];
    let mut p = fork.clone();
    for i in 1..=3usize {
        id += 1;
        let props = if i == 1 { vec![pid(&tx1), pid(&tx2), pid(&tx1x), pid(&tg), pid(&tg2)] } else { vec![] };
        let txs = if i == 3 { vec![tx1.clone(), tg.clone()] } else { vec![] };
        let blk = content_block(&mut b, id, &p, Kind::Valid, false, txs, props, unc(ua == i));
        p = blk.clone();
        a1.push(push(&mut blks, blk));
    }
    let a3 = p.clone();
    // B1..B4
    let mut b1 = vec![];
    let mut p = fork.clone();
    for i in 1..=4usize {
        id += 1;
        let props = if i == 1 { vec![pid(&tx1b), pid(&tx2b), pid(&tg)] } else { vec![] };
        let txs = match i {
            3 => vec![tx1b.clone()],
            4 => vec![tg.clone()],
            _ => vec![],
        };
        let blk = content_block(&mut b, id, &p, Kind::Valid, false, txs, props, unc(ub == i));
        p = blk.clone();
        b1.push(push(&mut blks, blk));
    }
    let b4 = p.clone();
    // A4, A5, A5x, A5u
    let mut a2 = vec![];
    id += 1;
    let a4 = content_block(&mut b, id, &a3, Kind::Valid, false, vec![], vec![], vec![]);
    a2.push(push(&mut blks, a4.clone()));
    id += 1;
    let blk = content_block(&mut b, id, &a4, Kind::Valid, true, vec![tx2.clone(), tg2.clone()], vec![], vec![]);
    a2.push(push(&mut blks, blk));
    id += 1;
    let blk = content_block(&mut b, id, &a4, Kind::Ctx, true, vec![tx1x.clone()], vec![], vec![]);
    a2.push(push(&mut blks, blk));
    id += 1;
    let blk = content_block(&mut b, id, &a4, if ua != 0 { Kind::Ctx } else { Kind::Valid }, true, vec![], vec![], unc(true));
    a2.push(push(&mut blks, blk));
    // B5, B6, B6u
    let mut b2 = vec![];
    id += 1;
    let b5 = content_block(&mut b, id, &b4, Kind::Valid, false, vec![], vec![], vec![]);
    b2.push(push(&mut blks, b5.clone()));
    id += 1;
    let blk = content_block(&mut b, id, &b5, Kind::Valid, true, vec![tx2b.clone()], vec![], vec![]);
    b2.push(push(&mut blks, blk));
    id += 1;
    let blk = content_block(&mut b, id, &b5, if ub != 0 { Kind::Ctx } else { Kind::Valid }, true, vec![], vec![], unc(true));
    b2.push(push(&mut blks, blk));
    // B6p: commits a transaction that was proposed on branch A only (two-phase commit violated on B)
    id += 1;
    let blk = content_block(&mut b, id, &b5, Kind::Ctx, true, vec![tg2.clone()], vec![], vec![]);
    b2.push(push(&mut blks, blk));
    drop(b);
    let _ = std::fs::remove_dir_all(bdir);
    ContentTree { chain, blks, k, pre, a1, b1, a2, b2 }
}

/// arrival orders of family `content`; returns (ops, mode name)
fn content_ops(rng: &mut Rng, t: &ContentTree) -> (Vec<Op>, &'static str) {
    let mut tail_a = t.a2.clone();
    // A4 first, its three children in any order
    rng.shuffle(&mut tail_a[1..]);
    let mut tail_b = t.b2.clone();
    rng.shuffle(&mut tail_b[1..]);
    let cat = |parts: &[&[usize]]| -> Vec<usize> { parts.iter().flat_map(|p| p.iter().copied()).collect() };
    match rng.below(5) {
        0 => (cat(&[&t.pre, &t.a1, &t.b1, &tail_a, &tail_b]).into_iter().map(Op::Deliver).collect(), "a-b-a-b"),
        1 => (cat(&[&t.pre, &t.b1, &t.a1, &tail_a, &tail_b]).into_iter().map(Op::Deliver).collect(), "b-a-a-b"),
        2 => {
            // every branch in its own order, merged at random, with duplicates
            let a = cat(&[&t.a1, &tail_a]);
            let bb = cat(&[&t.b1, &tail_b]);
            let mut o = t.pre.clone();
            o.extend(merge_keep_order(rng, &a, &bb));
            add_dups(rng, &mut o, 10, 30);
            (o.into_iter().map(Op::Deliver).collect(), "merge")
        }
        3 => {
            // any order at all (orphans), serialised
            let mut o = cat(&[&t.pre, &t.a1, &t.b1, &tail_a, &tail_b]);
            rng.shuffle(&mut o);
            (o.into_iter().map(Op::Deliver).collect(), "shuffle")
        }
        _ => {
            // the switches happen inside bursts
            let first = cat(&[&t.pre, &t.a1]);
            let mut rest = merge_keep_order(rng, &cat(&[&t.b1, &tail_b]), &tail_a);
            if rng.chance(1, 2) {
                rng.shuffle(&mut rest);
            }
            let mut ops: Vec<Op> = first.into_iter().map(Op::Deliver).collect();
            ops.push(Op::Burst(rest));
            (ops, "burst")
        }
    }
}

fn label_num(tokens: &[&str], key: &str, default: u64) -> u64 {
    tokens.iter().find_map(|t| t.strip_prefix(key).and_then(|v| v.parse::<u64>().ok())).unwrap_or(default)
}

fn parse_ids(s: &str) -> Vec<usize> {
    if s == "-" {
        return vec![];
    }
    s.split(',').map(|x| x.parse::<usize>().unwrap_or_else(|_| panic!("bad id list {s}"))).collect()
}

struct ReplayCase {
    /// family `content`: the whole tree, rebuilt from the label's `cs=`
    content: Option<Vec<Blk>>,
    run: CaseRun,
    /// ids built with a slow timestamp (label `slow=<ids>`)
    slow: HashSet<usize>,
    /// ids that some later `blk` line of the case names as parent
    parents: HashSet<usize>,
    builder: ChainBuilder,
    bdir: PathBuf,
}

fn replay(out: &mut Out, ops: &[String], builder_base: &Path, node_base: &Path) {
    let mut cur: Option<ReplayCase> = None;
    let mut cno = 0;
    let finish = |cur: &mut Option<ReplayCase>, out: &mut Out| {
        if let Some(rc) = cur.take() {
            rc.run.finish(out);
            drop(rc.builder);
            let _ = std::fs::remove_dir_all(&rc.bdir);
        }
    };
    for (lno, line) in ops.iter().enumerate() {
        let t: Vec<&str> = line.split_whitespace().collect();
        match t[0] {
            "case" => {
                let parents: HashSet<usize> = ops[lno + 1..]
                    .iter()
                    .take_while(|l| !l.starts_with("case"))
                    .filter_map(|l| {
                        let t: Vec<&str> = l.split_whitespace().collect();
                        if t.len() == 8 && t[0] == "blk" && t[1] != "0" { t[2].parse::<usize>().ok() } else { None }
                    })
                    .collect();
                finish(&mut cur, out);
                cno += 1;
                let thr = label_num(&t[2..], "thr=", 2) as usize;
                let chain = if label_num(&t[2..], "uneven=", 0) == 1 {
                    Chain::Uneven {
                        t: label_num(&t[2..], "t=", 48).max(8),
                        gl: label_num(&t[2..], "gl=", 3).max(1),
                        d0: label_num(&t[2..], "d0=", 1_000_000).max(1),
                    }
                } else {
                    Chain::Flat { el: label_num(&t[2..], "el=", 4).clamp(1, 1000) }
                };
                let slow: HashSet<usize> = t[2..].iter().find_map(|x| x.strip_prefix("slow=")).map(|l| parse_ids(l).into_iter().collect()).unwrap_or_default();
                let family = if matches!(chain, Chain::Uneven { .. }) {
                    "uneven"
                } else if t[2..].contains(&"fam=expiry") {
                    "expiry"
                } else if t[2..].contains(&"fam=restart") {
                    "restart"
                } else if t[2..].contains(&"fam=content") {
                    "content"
                } else if t[2..].contains(&"fam=sync") {
                    "sync"
                } else {
                    "gen"
                };
                let cfg = chain.node_cfg();
                let consensus = chain.consensus();
                out.begin_case(&t[2..].join(" "));
                let bdir = builder_base.join(format!("r{cno}"));
                let mut builder = ChainBuilder::new(consensus.clone(), &bdir);
                builder.max_branch_stores = 12;
                let content = if family == "content" { Some(gen_content_tree(label_num(&t[2..], "cs=", 0), &builder_base.join(format!("rk{cno}"))).blks) } else { None };
                let mut run = CaseRun::start(&node_base.join(format!("r{cno}")), &consensus, &cfg, thr);
                run.family = family;
                cur = Some(ReplayCase { content, run, slow, parents, builder, bdir });
            }
            "blk" => {
                let rc = cur.as_mut().expect("blk before case");
                assert_eq!(t.len(), 8, "bad blk line {line}");
                let id: usize = t[1].parse().expect("blk id");
                let parent: usize = t[2].parse().expect("blk parent");
                let nc = t[6] == "1";
                let ok = t[7] == "1";
                let b = if let Some(tree) = &rc.content {
                    let b = tree.get(id).unwrap_or_else(|| panic!("blk {id}: the content tree has {} blocks", tree.len())).clone();
                    assert!(b.parent == parent && b.kind.nc() == nc && (b.kind.ok() == ok || !nc), "blk {id}: the line does not describe block {id} of the content tree");
                    b
                } else if id == 0 {
                    genesis_blk(&rc.builder.consensus)
                } else {
                    assert!(parent < id && rc.run.by_id.contains_key(&parent), "blk {id}: parent {parent} must be declared before and be smaller");
                    let p = rc.run.get(parent).clone();
                    build_blk_paced(&mut rc.builder, id, &p, Kind::from_flags(nc, ok), !rc.parents.contains(&id), rc.slow.contains(&id))
                };
                rc.run.declare(out, b);
            }
            "deliver" => {
                let rc = cur.as_mut().expect("deliver before case");
                let id: usize = t[1].parse().expect("deliver id");
                rc.run.deliver(out, id);
            }
            "burst" => {
                let rc = cur.as_mut().expect("burst before case");
                let ids = parse_ids(t[1]);
                assert!(!ids.is_empty(), "empty burst");
                rc.run.burst(out, &ids);
            }
            "expire" => {
                let rc = cur.as_mut().expect("expire before case");
                rc.run.expire(out);
            }
            "crash" => {
                let rc = cur.as_mut().expect("crash before case");
                rc.run.stop(out);
            }
            "burststop" => {
                // the observed state (third token) is recomputed by this run
                let rc = cur.as_mut().expect("burststop before case");
                let ids = parse_ids(t[1]);
                assert!(!ids.is_empty(), "empty burststop");
                rc.run.burst_stop(out, &ids);
            }
            "hdr" | "mark" => {
                let rc = cur.as_mut().expect("hdr/mark before case");
                let id: usize = t[1].parse().expect("id");
                rc.run.sync_write(out, id, t[0] == "mark");
            }
            "restart" => {
                // max_epoch_length and the scan order are recomputed by this run
                let rc = cur.as_mut().expect("restart before case");
                rc.run.restart(out);
            }
            _ => panic!("bad replay op {line}"),
        }
    }
    finish(&mut cur, out);
}


// ------------------------------------------------------------------------------------------------
// suspected finding F7: a second queued copy of a block that fails verification (duplicate
// delivery), or a child accepted while its parent was pending, waits behind more than 128 queued
// blocks; when the first copy / the parent has been deleted the preload thread's
// `get_block(..).expect("block stored")` (or the parent-header expect) panics and the pipeline stalls.
// Burst order (one sender thread): O2..Ok (orphans, O1 missing), S1..S8, X, O1, C (child of X), X.
// ------------------------------------------------------------------------------------------------

fn f7_scenario(out: &mut Out, builder_base: &Path, node_base: &Path, attempt: u64, olen: usize, with_dup: bool) {
    let cfg = NodeCfg { epoch_len: 1000, with_pool: false, ..Default::default() };
    let consensus = make_consensus(&cfg);
    let bdir = builder_base.join(format!("f7-{attempt}"));
    let mut builder = ChainBuilder::new(consensus.clone(), &bdir);
    builder.max_branch_stores = 4;
    let mut blks = vec![genesis_blk(&consensus)];
    let slen = 8usize;
    // S chain 1..=slen
    for id in 1..=slen {
        let p = blks[id - 1].clone();
        let b = build_blk(&mut builder, id, &p, Kind::from_flags(true, true), false);
        blks.push(b);
    }
    // X = slen+1 (ctx-invalid child of S8), C = slen+2 (child of X)
    let x = slen + 1;
    let p = blks[slen].clone();
    blks.push(build_blk(&mut builder, x, &p, Kind::from_flags(true, false), false));
    let c = slen + 2;
    let p = blks[x].clone();
    blks.push(build_blk(&mut builder, c, &p, Kind::from_flags(true, true), true));
    // O chain on genesis (one more block than delivered in the burst: the probe)
    let o1 = slen + 3;
    for i in 0..=olen {
        let id = o1 + i;
        let p = if i == 0 { blks[0].clone() } else { blks[id - 1].clone() };
        let b = build_blk(&mut builder, id, &p, Kind::from_flags(true, true), i == olen);
        blks.push(b);
    }
    let probe = o1 + olen;
    drop(builder);
    let _ = std::fs::remove_dir_all(&bdir);
    let mut order: Vec<usize> = ((o1 + 1)..(o1 + olen)).collect();
    order.extend(1..=slen);
    order.push(x);
    order.push(o1);
    order.push(c);
    if with_dup {
        order.push(x);
    }
    let label = format!("el={} mode=burst thr=1 f7 attempt={} n={}", cfg.epoch_len, attempt, blks.len() - 1);
    let case = out.begin_case(&label);
    let mut run = CaseRun::start(&node_base.join(format!("f7c{case}")), &consensus, &cfg, 1);
    for b in &blks {
        run.declare(out, b.clone());
    }
    run.burst(out, &order);
    out.count("f7-scenario");
    if !run.dead {
        // probe (not an op of the protocol): one more valid block extending the heaviest chain must
        // get verified; if its callback is dropped un-called the verification pipeline is dead
        let first = run.log.lock().unwrap().events.len();
        let lb = run.lonely(probe);
        let alive = run.node().controller().verif_process_lonely_block_sync(lb);
        let waited = run.wait_quiescent();
        let verdict = run.log.lock().unwrap().events[first..].iter().find(|(i, _)| *i == probe).map(|(_, v)| *v);
        let tip_is_probe = run.node().tip_hash() == run.get(probe).block.hash();
        if !alive || waited.is_err() || verdict != Some(Verdict::New) || !tip_is_probe {
            out.count("f7-pipeline-dead");
            out.oracle_fail(
                "pipeline-dead-after-duplicate-of-failed-block",
                &format!(
                    "after `burst {}` a further valid block extending the tip is never verified: chain service alive={} quiescence={:?} callback={:?} tip_is_probe={} (preload thread panicked in get_block: the first copy of block {} failed verification and was deleted while its second queued copy was still behind >128 queued blocks)",
                    show_ids(&order), alive, waited, verdict, tip_is_probe, x
                ),
            );
            run.dead = true;
        }
    }
    run.finish(out);
}

/// Debugging aid: `VERIF_C01_LOG=info|debug` prints the node's log lines (with thread names) on stderr.
struct StderrLog;
impl ckb_logger::internal::Log for StderrLog {
    fn enabled(&self, m: &ckb_logger::internal::Metadata) -> bool {
        m.target().starts_with("ckb")
    }
    fn log(&self, r: &ckb_logger::internal::Record) {
        if self.enabled(r.metadata()) {
            eprintln!("[{}] {} {}", std::thread::current().name().unwrap_or("?"), r.level(), r.args());
        }
    }
    fn flush(&self) {}
}
static STDERR_LOG: StderrLog = StderrLog;

pub fn run(opts: &Opts) {
    if let Ok(l) = std::env::var("VERIF_C01_LOG") {
        let _ = ckb_logger::internal::set_logger(&STDERR_LOG);
        ckb_logger::internal::set_max_level(if l == "debug" { ckb_logger::internal::LevelFilter::Debug } else { ckb_logger::internal::LevelFilter::Info });
    }
    install_panic_hook();
    let mut out = Out::new(&opts.out);
    let builder_base = scratch_dir(&opts.out, "c01-b");
    let node_base = scratch_dir(&opts.out, "c01-n");
    selftest(&node_base);
    if let Some(p) = &opts.replay {
        let ops = read_replay_ops(p);
        replay(&mut out, &ops, &builder_base, &node_base);
    } else if opts.extra.iter().any(|a| a == "f7" || a == "f7ctl") {
        // `f7`: with the duplicate; `f7ctl`: the same history without it (control: must pass)
        let with_dup = opts.extra.iter().any(|a| a == "f7");
        for attempt in 0..(3 * opts.scale) {
            f7_scenario(&mut out, &builder_base, &node_base, attempt, 140, with_dup);
        }
    } else {
        generate(&mut out, opts, &builder_base, &node_base);
    }
    let _ = std::fs::remove_dir_all(&builder_base);
    let _ = std::fs::remove_dir_all(&node_base);
    out.finish("case counted when it contains a reorg, an equal-work tie at the maximum, or an invalid block inside the otherwise heaviest branch");
}
