//! C02, stream `fork` — the real `find_fork` on stored block trees.
//!
//! The `store` stream ties `verify_block` as a whole; its theorems (`reorg_eq_replay`) used to take
//! the detached / attached lists as given.  This stream ties the function that computes them:
//! `ConsumeUnverifiedBlockProcessor::find_fork` (with `alignment_fork`,
//! `find_fork_until_latest_common`, `ForkChanges::verified_len`), reached read-only through the
//! `verif-hooks` wrapper `ckb_chain::verif_find_fork`, against `Model/Fork.lean`, about which
//! `find_fork_lists`, `find_fork_new_main`, `dirty_exts_aligned` are proved.
//!
//! One real node (`Shared` over a RocksDB `ChainDB`) for the whole run.  A case is a random block
//! tree stored in that database exactly as the chain service stores side branches: every block
//! body with `insert_block`, an ext row per block (`verified` = `Some(true)` or `None`, ancestor
//! closed: a verified block never sits on an unverified one), and a main chain attached with
//! `attach_block` (number <-> hash index).  Blocks are headers with a number, a parent hash and a
//! unique nonce — `find_fork` reads nothing else.  The ext's total difficulty is a unique tag
//! (`number * 1_000_000 + id * 10`) so that which ext was zipped with which block is observable;
//! the ext passed in for the new tip carries its own tag (`+ 7`), different from the stored row.
//!
//! Line protocol:
//!   blk <id> <parent> <number> <td> <N|T|F>     store a block and its ext row (id 0 = the real genesis) => ok
//!   main <id0,id1,...>                           re-point the main-chain index        => ok
//!   fork <id> <td>                               find_fork(|main|-1, block id, ext td) =>
//!        det=<ids> att=<ids> dirty=<total difficulties> vlen=<verified_len>
//!
//! Oracle (implementation only, from the harness's own parent pointers):
//!   * `fork-detached` / `fork-attached`: with c = the highest height < number(new tip), <= tip at
//!     which the new tip's ancestor is the main chain's block, detached = main[c+1..=tip] and
//!     attached = the ancestors of the new tip at c+1..=number(new tip), both ascending;
//!   * `fork-unlinked`: both lists are parent-linked through the headers read back from the store
//!     and hang on the same block (the common ancestor), numbers consecutive;
//!   * `fork-new-main`: main[..=c] ++ attached is the parent path genesis..=new tip;
//!   * `fork-panicked`: find_fork does not panic on a well-formed store (incl. the debug-build
//!     `is_sorted_assert` and the usize subtraction of `verified_len`);
//!   * `fork-verified-len`: verified_len = |attached| - |dirty|, |dirty| >= 1;
//!   * `fork-dirty-misaligned`: the i-th dirty ext is the ext of the block it is zipped with
//!     (attached[verified_len + i]) — same total difficulty tag, `verified == None`;
//!   * `fork-dirty-set`: the zipped blocks are exactly the attached blocks whose stored ext is
//!     unverified (plus the new tip), the skipped prefix is verified.
use crate::common::*;
use crate::node::*;
use ckb_store::ChainStore;
use ckb_types::U256;
use ckb_types::core::{BlockBuilder, BlockExt, BlockView, EpochNumberWithFraction};
use ckb_types::packed::Byte32;
use std::collections::HashMap;

const TIP_EXT_TAG: u64 = 7;

#[derive(Clone)]
struct Blk {
    parent: usize,
    number: u64,
    td: u64,
    /// 'N' | 'T' | 'F'
    ver: char,
    view: BlockView,
}

struct Exec<'a> {
    out: &'a mut Out,
    node: Node,
    nonce: u128,
    /// by block id (ids need not be consecutive: a shrunk replay has gaps)
    blocks: HashMap<usize, Blk>,
    by_hash: HashMap<Byte32, usize>,
    main: Vec<usize>,
    /// the blocks currently attached above genesis in the real index
    attached_in_db: Vec<BlockView>,
}

fn ids(v: &[usize]) -> String {
    if v.is_empty() { "-".into() } else { v.iter().map(|x| x.to_string()).collect::<Vec<_>>().join(",") }
}

fn u256_to_u64(v: &U256) -> u64 {
    let s = v.to_string();
    s.parse::<u64>().unwrap_or(u64::MAX)
}

impl<'a> Exec<'a> {
    fn new(out: &'a mut Out, base: &std::path::Path) -> Exec<'a> {
        let cfg = NodeCfg { genesis_cells: 1, ..Default::default() };
        let consensus = make_consensus(&cfg);
        let node = Node::start(&base.join("fork-node"), consensus, &cfg);
        Exec { out, node, nonce: 1, blocks: HashMap::new(), by_hash: HashMap::new(), main: vec![], attached_in_db: vec![] }
    }

    fn finish(self) {
        let Exec { node, .. } = self;
        node.stop();
    }

    fn begin_case(&mut self, label: &str) {
        self.out.begin_case(label);
        self.blocks.clear();
        self.by_hash.clear();
        self.main.clear();
    }

    fn ext(td: u64, ver: char) -> BlockExt {
        BlockExt {
            received_at: 0,
            total_difficulty: U256::from(td),
            total_uncles_count: 0,
            verified: match ver { 'T' => Some(true), 'F' => Some(false), _ => None },
            txs_fees: vec![],
            cycles: None,
            txs_sizes: None,
        }
    }

    fn op_blk(&mut self, id: usize, parent: usize, number: u64, td: u64, ver: char) {
        assert!(!self.blocks.contains_key(&id), "C02 fork: block id defined twice");
        let store = self.node.store();
        let view = if id == 0 {
            assert!(parent == 0 && number == 0, "C02 fork: block 0 is genesis");
            let h = store.get_block_hash(0).expect("genesis");
            store.get_block(&h).expect("genesis block")
        } else {
            assert!(self.blocks.contains_key(&parent), "C02 fork: unknown parent");
            assert!(self.blocks[&parent].number + 1 == number, "C02 fork: number must be the parent's + 1");
            self.nonce += 1;
            BlockBuilder::default()
                .number(number)
                .parent_hash(self.blocks[&parent].view.hash())
                .epoch(EpochNumberWithFraction::new(0, number % 1000, 1000))
                .timestamp(1_700_000_000_000u64 + number)
                .nonce(self.nonce)
                .build()
        };
        let txn = store.begin_transaction();
        if id != 0 {
            txn.insert_block(&view).expect("insert_block");
        }
        txn.insert_block_ext(&view.hash(), &Self::ext(td, ver)).expect("insert_block_ext");
        txn.commit().expect("commit");
        self.by_hash.insert(view.hash(), id);
        self.blocks.insert(id, Blk { parent, number, td, ver, view });
        self.out.op(&format!("blk {} {} {} {} {}", id, parent, number, td, ver), "ok");
    }

    fn op_main(&mut self, main: Vec<usize>) {
        assert!(!main.is_empty() && main[0] == 0, "C02 fork: main chain starts at genesis");
        assert!(self.blocks.contains_key(&0), "C02 fork: genesis not defined");
        for w in main.windows(2) {
            assert!(self.blocks.contains_key(&w[1]) && self.blocks[&w[1]].parent == w[0], "C02 fork: main chain must be parent-linked");
        }
        let store = self.node.store();
        let txn = store.begin_transaction();
        for b in self.attached_in_db.iter().rev() {
            txn.detach_block(b).expect("detach_block");
        }
        self.attached_in_db.clear();
        for &i in main.iter().skip(1) {
            txn.attach_block(&self.blocks[&i].view).expect("attach_block");
            self.attached_in_db.push(self.blocks[&i].view.clone());
        }
        txn.commit().expect("commit");
        self.out.op(&format!("main {}", ids(&main)), "ok");
        self.main = main;
    }

    fn op_fork(&mut self, id: usize, td: u64) {
        assert!(id != 0 && self.blocks.contains_key(&id) && !self.main.is_empty(), "C02 fork: bad fork op");
        let cur = (self.main.len() - 1) as u64;
        let tip = self.blocks[&id].clone();
        // a panic inside find_fork (an `expect`, the debug `is_sorted_assert`, a usize underflow in
        // `verified_len`) would kill the chain-service thread of a node: report it, do not die with it
        let shared = self.node.shared.clone();
        let view = tip.view.clone();
        let r = match std::panic::catch_unwind(std::panic::AssertUnwindSafe(|| ckb_chain::verif_find_fork(&shared, cur, &view, Self::ext(td, 'N')))) {
            Ok(r) => r,
            Err(_) => {
                self.out.op(&format!("fork {} {}", id, td), "panic");
                self.out.oracle_fail("fork-panicked", &format!("find_fork panicked: tip={} cur={}", id, cur));
                return;
            }
        };
        let unknown = usize::MAX;
        let det: Vec<usize> = r.detached.iter().map(|h| *self.by_hash.get(h).unwrap_or(&unknown)).collect();
        let att: Vec<usize> = r.attached.iter().map(|h| *self.by_hash.get(h).unwrap_or(&unknown)).collect();
        let dirty: Vec<u64> = r.dirty_exts.iter().map(|e| u256_to_u64(&e.total_difficulty)).collect();
        let answer = format!(
            "det={} att={} dirty={} vlen={}",
            ids(&det),
            ids(&att),
            if dirty.is_empty() { "-".to_string() } else { dirty.iter().map(|x| x.to_string()).collect::<Vec<_>>().join(",") },
            r.verified_len
        );
        self.out.op(&format!("fork {} {}", id, td), &answer);

        // ---- oracle: from the harness's own parent pointers -------------------------------
        let n = tip.number as usize;
        let mut path = vec![0usize; n + 1]; // path[h] = ancestor of the new tip at height h
        let mut x = id;
        for h in (0..=n).rev() {
            path[h] = x;
            x = self.blocks[&x].parent;
        }
        let top = std::cmp::min(n - 1, cur as usize);
        let c = (0..=top).rev().find(|&h| path[h] == self.main[h]).expect("genesis is common");
        let want_att: Vec<usize> = path[c + 1..].to_vec();
        let want_det: Vec<usize> = self.main[c + 1..].to_vec();
        let ctx = format!("tip={} cur={} c={}", id, cur, c);
        if det != want_det {
            self.out.oracle_fail("fork-detached", &format!("{} detached={} expected={}", ctx, ids(&det), ids(&want_det)));
        }
        if att != want_att {
            self.out.oracle_fail("fork-attached", &format!("{} attached={} expected={}", ctx, ids(&att), ids(&want_att)));
        }
        // parent-linked, consecutive numbers, both hanging on one block — through the real store
        let store = self.node.store();
        let mut roots = vec![];
        for (name, list) in [("detached", &r.detached), ("attached", &r.attached)] {
            let mut prev: Option<(Byte32, u64)> = None;
            for h in list.iter() {
                match store.get_block_header(h) {
                    None => self.out.oracle_fail("fork-unlinked", &format!("{} {} block not stored", ctx, name)),
                    Some(hd) => {
                        match &prev {
                            None => roots.push((hd.parent_hash(), hd.number())),
                            Some((ph, pn)) => {
                                if hd.parent_hash() != *ph || hd.number() != pn + 1 {
                                    self.out.oracle_fail("fork-unlinked", &format!("{} {} not parent-linked / not consecutive at number {}", ctx, name, hd.number()));
                                }
                            }
                        }
                        prev = Some((h.clone(), hd.number()));
                    }
                }
            }
        }
        if roots.len() == 2 && roots[0] != roots[1] {
            self.out.oracle_fail("fork-unlinked", &format!("{} detached and attached do not hang on the same block", ctx));
        }
        // the new main chain is the parent path of the new tip
        let mut new_main: Vec<usize> = self.main[..=c].to_vec();
        new_main.extend(att.iter().cloned());
        if new_main != path {
            self.out.oracle_fail("fork-new-main", &format!("{} main[..=c]++attached={} path={}", ctx, ids(&new_main), ids(&path)));
        }
        // verified_len and the zip of reconcile_main_chain
        if dirty.is_empty() || dirty.len() > att.len() || r.verified_len != att.len() - dirty.len() {
            self.out.oracle_fail("fork-verified-len", &format!("{} attached={} dirty={} verified_len={}", ctx, att.len(), dirty.len(), r.verified_len));
        } else {
            let vlen = r.verified_len;
            for (i, e) in r.dirty_exts.iter().enumerate() {
                let b = att[vlen + i];
                if b == unknown {
                    continue;
                }
                let want = if b == id { td } else { self.blocks[&b].td };
                if u256_to_u64(&e.total_difficulty) != want || e.verified.is_some() {
                    self.out.oracle_fail(
                        "fork-dirty-misaligned",
                        &format!("{} dirty[{}] (td {}, verified {:?}) is zipped with block {} (ext td {})", ctx, i, dirty[i], e.verified, b, want),
                    );
                }
            }
            // exactly the unverified attached blocks are verified now; the skipped prefix is verified
            let closed = {
                // the generator keeps "verified != None" ancestor-closed; replays may not
                let mut ok = true;
                for h in 1..=n {
                    if self.blocks[&path[h]].ver != 'N' && self.blocks[&path[h - 1]].ver == 'N' {
                        ok = false;
                    }
                }
                ok
            };
            if closed {
                for (k, &b) in att.iter().enumerate() {
                    if b == unknown {
                        continue;
                    }
                    let unverified = b == id || self.blocks[&b].ver == 'N';
                    if unverified != (k >= vlen) {
                        self.out.oracle_fail(
                            "fork-dirty-set",
                            &format!("{} attached[{}]=block {} (ext {}) is {} the verified prefix of length {}", ctx, k, b, self.blocks[&b].ver, if k < vlen { "inside" } else { "outside" }, vlen),
                        );
                    }
                }
            }
        }

        // ---- coverage ------------------------------------------------------------------------
        let align = if (n as u64) < cur { "lower" } else if n as u64 == cur { "equal" } else { "higher" };
        let fp = if c == 0 { "genesis" } else if c as u64 == cur { "tip" } else if c as u64 + 1 == cur { "tip-1" } else { "mid" };
        self.out.count(&format!("align-{}", align));
        self.out.count(&format!("forkpoint-{}", fp));
        self.out.count(if r.verified_len > 0 { "verified-prefix" } else { "all-dirty" });
        self.out.count(&format!("dirty-len-{}", std::cmp::min(dirty.len(), 9)));
        if !det.is_empty() {
            self.out.nontrivial(format!("{}/{}/v{}/d{}/a{}", align, fp, std::cmp::min(r.verified_len, 4), std::cmp::min(dirty.len(), 6), std::cmp::min(det.len(), 6)));
        }
    }

    fn apply(&mut self, line: &str) {
        let t: Vec<&str> = line.split_whitespace().collect();
        match t.as_slice() {
            ["blk", id, parent, number, td, ver] => {
                let ver = ver.chars().next().unwrap();
                assert!(matches!(ver, 'N' | 'T' | 'F'), "C02 fork: bad verified flag");
                self.op_blk(id.parse().unwrap(), parent.parse().unwrap(), number.parse().unwrap(), td.parse().unwrap(), ver)
            }
            ["main", l] => self.op_main(l.split(',').map(|x| x.parse().unwrap()).collect()),
            ["fork", id, td] => self.op_fork(id.parse().unwrap(), td.parse().unwrap()),
            _ => panic!("C02 fork: unknown op {line}"),
        }
    }
}

/// is this replay file one of the `fork` stream?
pub fn is_fork_file(ops: &[String]) -> bool {
    ops.iter().any(|l| l.starts_with("blk ") || l.starts_with("fork "))
}

fn tag(number: u64, id: usize) -> u64 {
    number * 1_000_000 + id as u64 * 10
}

fn gen_case(ex: &mut Exec, rng: &mut Rng, case: u64, big: bool) {
    // tree: parent, number, ver
    let mut par: Vec<usize> = vec![0];
    let mut num: Vec<u64> = vec![0];
    let mut ver: Vec<char> = vec!['T'];
    let add = |par: &mut Vec<usize>, num: &mut Vec<u64>, ver: &mut Vec<char>, p: usize, v: char| -> usize {
        par.push(p);
        num.push(num[p] + 1);
        ver.push(v);
        par.len() - 1
    };
    // the trunk: verified
    let trunk_len = match case % 5 {
        0 => rng.range(1, 3),
        _ => rng.range(2, if big { 24 } else { 12 }),
    };
    let mut trunk = vec![0usize];
    for _ in 0..trunk_len {
        let p = *trunk.last().unwrap();
        trunk.push(add(&mut par, &mut num, &mut ver, p, 'T'));
    }
    // branches of different lengths; fork points biased to genesis / mid / tip-1 / tip / branch nodes
    let branches = rng.range(2, if big { 9 } else { 6 });
    for _ in 0..branches {
        let fp = match rng.below(8) {
            0 => 0,
            1 => trunk[trunk.len() - 1],
            2 => trunk[trunk.len().saturating_sub(2)],
            3 | 4 => trunk[rng.below(trunk.len() as u64) as usize],
            _ => rng.below(par.len() as u64) as usize,
        };
        // lower / equal / higher than the trunk tip
        let room = trunk_len as i64 - num[fp] as i64;
        let len = match rng.below(4) {
            0 => std::cmp::max(1, room),                 // equal
            1 => std::cmp::max(1, room + rng.range(1, 4) as i64), // higher
            2 => std::cmp::max(1, room - rng.range(1, 3) as i64), // lower
            _ => rng.range(1, 8) as i64,
        } as u64;
        let len = std::cmp::min(len, if big { 20 } else { 12 });
        // a verified prefix of random length (every length incl. 0 and all), then unverified
        let k = if ver[fp] == 'N' { 0 } else { match rng.below(4) { 0 => 0, 1 => len, _ => rng.range(0, len) } };
        let mut p = fp;
        for i in 0..len {
            p = add(&mut par, &mut num, &mut ver, p, if i < k { 'T' } else { 'N' });
        }
    }
    ex.begin_case(&format!("fork trunk={} blocks={}", trunk_len, par.len()));
    for i in 0..par.len() {
        ex.op_blk(i, par[i], num[i], tag(num[i], i), ver[i]);
    }
    // main chains: the trunk, then up to two other fully verified paths (branch B took over)
    let mut mains: Vec<usize> = vec![trunk[trunk.len() - 1]];
    let verified: Vec<usize> = (1..par.len()).filter(|&i| ver[i] == 'T').collect();
    for _ in 0..2 {
        if !verified.is_empty() && rng.chance(2, 3) {
            // prefer deep verified blocks
            let a = *rng.pick(&verified);
            let b = *rng.pick(&verified);
            mains.push(if num[a] >= num[b] { a } else { b });
        }
    }
    if rng.chance(1, 6) {
        mains.push(0); // the main chain is genesis only
    }
    mains.dedup();
    for m in mains {
        let mut chain = vec![];
        let mut x = m;
        loop {
            chain.push(x);
            if x == 0 {
                break;
            }
            x = par[x];
        }
        chain.reverse();
        ex.op_main(chain.clone());
        // every unverified block is a candidate new tip (in quick, a random subset of large trees)
        let mut cands: Vec<usize> = (1..par.len()).filter(|&i| ver[i] == 'N').collect();
        // (verify_block returns before find_fork for a block whose stored ext is already verified;
        // a new block on top of a verified side branch is an 'N' block whose ancestors are 'T')
        if !big && cands.len() > 24 {
            rng.shuffle(&mut cands);
            cands.truncate(24);
            cands.sort();
        }
        for t in cands {
            ex.op_fork(t, tag(num[t], t) + TIP_EXT_TAG);
        }
    }
}

pub fn run(opts: &Opts) {
    let base = scratch_dir(&opts.out, "c02fork");
    let mut out = Out::new(&opts.out);
    if let Some(rp) = &opts.replay {
        let ops = read_replay_ops(rp);
        if is_fork_file(&ops) {
            let mut ex = Exec::new(&mut out, &base);
            let mut started = false;
            for l in ops {
                if l.starts_with("case ") {
                    let label = l.splitn(3, ' ').nth(2).unwrap_or("replay").to_string();
                    ex.begin_case(&label);
                    started = true;
                } else {
                    if !started {
                        ex.begin_case("replay");
                        started = true;
                    }
                    ex.apply(&l);
                }
            }
            ex.finish();
        }
        out.finish("replay");
        let _ = std::fs::remove_dir_all(&base);
        return;
    }
    {
        let mut ex = Exec::new(&mut out, &base);
        let mut rng = Rng::new(opts.seed ^ 0xF02C);
        let cases = if opts.thorough() { 15000 } else { 1200 } * opts.scale;
        for c in 0..cases {
            gen_case(&mut ex, &mut rng, c, opts.thorough() && c % 3 == 0);
        }
        ex.finish();
    }
    out.finish("a fork evaluation is non-trivial when find_fork detaches at least one block; the fingerprint is (new tip lower/equal/higher than the current tip, fork point genesis/mid/tip-1/tip, verified prefix length, dirty length, detached length — capped)");
    let _ = std::fs::remove_dir_all(&base);
}
