//! C02 — stored chain state and every snapshot equal a replay of the main chain.
//!
//! The harness drives a real node (`node.rs`) with random block trees over random always-success
//! transaction DAGs and, after every processed block / truncation, dumps the real database
//! (COLUMN_CELL / CELL_DATA / CELL_DATA_HASH / TRANSACTION_INFO / INDEX / UNCLES / EPOCH /
//! BLOCK_EPOCH / BLOCK_EXT / META) into a canonical text form (ids instead of hashes).
//!
//!   * model tie: the dump is the answer line; `ckbmodel C02` must print the same line from
//!     `Model/Store.lean` (the chain-service step over the column maps).
//!   * oracle (implementation only): the same dump of `ChainBuilder::replay_store(tip)` — a store
//!     that only ever attached genesis..=tip in order — must agree column by column (exactly for the
//!     main-chain view columns, on the main chain's keys for the per-block records), the raw bytes
//!     of the view columns must be identical, and the chain-root MMR nodes below the tip's mmr size
//!     must be identical. Every block is built valid against the replay of its own branch, so the
//!     node must accept it (`valid-block-rejected`: verification read a state that is not the replay). Published snapshots (kept by the writer after every op and grabbed by a
//!     reader thread at random instants) are checked against the replay of the chain their own tip
//!     names, and must never change afterwards.
//!
//! Line protocol (one case = one node):
//!   cfg <epoch_len> <w_close> <w_far> <genesis_cells>
//!   gtx <id> out=<dlen>.<dtag>,...                       genesis transactions (checked against the real genesis)
//!   genesis txs=<id,...>                                 => dump
//!   tx <id> fee=<f> salt=<s> in=<tx:idx,...> out=<dlen>.<dtag>,...
//!   block <id> <parent> salt=<s> ep=<n>.<i>.<l> cb=<0|1> cbid=<tx id|auto> txs=<..> props=<..> uncles=<..>   => new|known|err dump
//!   truncate <block id>                                   => ok|err dump
//!   snap <k>                                              => dump of the snapshot published after the k-th state op
//!   xblock <id> <parent> … uncles=<..> bad=<cap|capm|dao|ext|none>   a block that must be refused once it or a descendant becomes the best chain => new|err dump
//!   xcols 1                                               => ok; from now on every dump ends with ` mmr=<pos>:<block ids covered>,…`: ALL rows of COLUMN_CHAIN_ROOT_MMR (stale ones included)
use crate::common::*;
use crate::node::*;
use ckb_db::iter::IteratorMode;
use ckb_db_schema::*;
use ckb_merkle_mountain_range::leaf_index_to_mmr_size;
use ckb_snapshot::Snapshot;
use ckb_store::ChainStore;
use ckb_types::core::{BlockView, EpochNumberWithFraction, TransactionView};
use ckb_types::packed::{self, Byte32, OutPoint};
use ckb_types::prelude::*;
use molecule::prelude::Reader as _;
use std::collections::{BTreeMap, BTreeSet, HashMap, HashSet};
use std::path::PathBuf;
use std::sync::atomic::{AtomicBool, Ordering};
use std::sync::{Arc, Mutex};

pub const ZERO_ID: u64 = 4_000_000_000;
pub const CB_BASE: u64 = 1_000_000;

// ------------------------------------------------------------------------------------------------
// ids and the canonical dump
// ------------------------------------------------------------------------------------------------

#[derive(Default)]
pub struct Ids {
    pub blk: HashMap<Byte32, u64>,
    pub tx: HashMap<Byte32, u64>,
    pub txv: HashMap<u64, TransactionView>,
    pub blkv: HashMap<u64, BlockView>,
}

const UNKNOWN: u64 = u64::MAX;

impl Ids {
    fn b(&self, h: &Byte32) -> (u64, String) {
        if h == &Byte32::zero() {
            return (ZERO_ID, ZERO_ID.to_string());
        }
        match self.blk.get(h) {
            Some(i) => (*i, i.to_string()),
            None => (UNKNOWN, format!("?{}", &hex(h.as_slice())[..8])),
        }
    }
    fn t(&self, h: &Byte32) -> (u64, String) {
        match self.tx.get(h) {
            Some(i) => (*i, i.to_string()),
            None => (UNKNOWN, format!("?{}", &hex(h.as_slice())[..8])),
        }
    }
    /// returns the id of the block's cellbase transaction: sibling blocks at one height can carry
    /// the *same* cellbase transaction (the hash excludes the witness), which then has one id
    pub fn add_block(&mut self, id: u64, b: &BlockView) -> u64 {
        self.blk.insert(b.hash(), id);
        self.blkv.insert(id, b.clone());
        let cb = b.transactions()[0].clone();
        if let Some(i) = self.tx.get(&cb.hash()) {
            return *i;
        }
        self.tx.insert(cb.hash(), CB_BASE + id);
        self.txv.insert(CB_BASE + id, cb);
        CB_BASE + id
    }
    pub fn add_tx(&mut self, id: u64, t: &TransactionView) {
        self.tx.insert(t.hash(), id);
        self.txv.insert(id, t.clone());
    }
}

fn le64(b: &[u8]) -> u64 {
    let mut a = [0u8; 8];
    a.copy_from_slice(&b[..8]);
    u64::from_le_bytes(a)
}

/// `<len>.<tag>` of a cell data: tag = the value for 8-byte data, else the first 8 bytes of its hash
pub fn dtag(data: &[u8]) -> String {
    if data.is_empty() {
        return "-".to_string();
    }
    let tag = if data.len() == 8 { le64(data) } else { le64(packed::CellOutput::calc_data_hash(data).as_slice()) };
    format!("{}.{}", data.len(), tag)
}

fn ep(v: u64) -> String {
    let e = EpochNumberWithFraction::from_full_value_unchecked(v);
    format!("{}.{}.{}", e.number(), e.index(), e.length())
}

const SECTIONS: [&str; 12] = ["cell", "data", "dhash", "txinfo", "index", "rindex", "uncles", "bepoch", "epoch", "epnum", "ext", "meta"];
/// columns that are exactly the main chain's view
const EXACT: [&str; 8] = ["cell", "data", "dhash", "txinfo", "index", "rindex", "uncles", "meta"];
/// per-block records: the node also keeps rows of side-chain blocks; the replay's rows must be there
const SUBSET: [&str; 3] = ["bepoch", "epoch", "ext"];

#[derive(Default, Clone, PartialEq)]
pub struct Dump {
    pub sec: BTreeMap<&'static str, BTreeMap<Vec<u64>, String>>,
}

impl Dump {
    fn put(&mut self, s: &'static str, k: Vec<u64>, v: String) {
        self.sec.entry(s).or_default().insert(k, v);
    }
    pub fn line(&self) -> String {
        let mut parts = vec![];
        for s in SECTIONS {
            let e: Vec<String> = self.sec.get(s).map(|m| m.values().cloned().collect()).unwrap_or_default();
            parts.push(format!("{}={}", s, if e.is_empty() { "-".to_string() } else { e.join(",") }));
        }
        parts.join(" ")
    }
}

fn iter_col<S: ChainStore>(s: &S, col: Col) -> Vec<(Vec<u8>, Vec<u8>)> {
    s.get_iter(col, IteratorMode::Start).map(|(k, v)| (k.to_vec(), v.to_vec())).collect()
}

pub fn dump<S: ChainStore>(s: &S, ids: &Ids, genesis_difficulty: &ckb_types::U256) -> Dump {
    let mut d = Dump::default();
    for (k, v) in iter_col(s, COLUMN_CELL) {
        let h = Byte32::from_slice(&k[..32]).unwrap();
        let idx = u32::from_be_bytes([k[32], k[33], k[34], k[35]]) as u64;
        let (ti, ts) = ids.t(&h);
        let e = packed::CellEntryReader::from_slice_should_be_ok(&v);
        let (_, bs) = ids.b(&e.block_hash().to_entity());
        let num: u64 = e.block_number().into();
        let epv: u64 = e.block_epoch().into();
        let txi: u32 = e.index().into();
        let dsz: u64 = e.data_size().into();
        let same = ids.txv.get(&ti).and_then(|t| t.output(idx as usize)).map(|o| o.as_slice() == e.output().as_slice()).unwrap_or(false);
        d.put("cell", vec![ti, idx], format!("{}:{}@{}/{}/{}/{}/{}/{}", ts, idx, bs, num, ep(epv), txi, dsz, if same { "=" } else { "!" }));
    }
    for (k, v) in iter_col(s, COLUMN_CELL_DATA) {
        let h = Byte32::from_slice(&k[..32]).unwrap();
        let idx = u32::from_be_bytes([k[32], k[33], k[34], k[35]]) as u64;
        let (ti, ts) = ids.t(&h);
        let txt = if v.is_empty() {
            "-".to_string()
        } else {
            let e = packed::CellDataEntryReader::from_slice_should_be_ok(&v);
            let data = e.output_data().raw_data();
            let ok = packed::CellOutput::calc_data_hash(data).as_slice() == e.output_data_hash().as_slice();
            format!("{}{}", dtag(data), if ok { "" } else { "!" })
        };
        d.put("data", vec![ti, idx], format!("{}:{}/{}", ts, idx, txt));
    }
    for (k, v) in iter_col(s, COLUMN_CELL_DATA_HASH) {
        let h = Byte32::from_slice(&k[..32]).unwrap();
        let idx = u32::from_be_bytes([k[32], k[33], k[34], k[35]]) as u64;
        let (ti, ts) = ids.t(&h);
        let txt = if v.is_empty() {
            "-".to_string()
        } else {
            // must be the hash of that output's data in the transaction itself
            match ids.txv.get(&ti).and_then(|t| t.outputs_data().get(idx as usize)) {
                Some(data) if packed::CellOutput::calc_data_hash(&data.raw_data()).as_slice() == &v[..] => dtag(&data.raw_data()),
                _ => "!".to_string(),
            }
        };
        d.put("dhash", vec![ti, idx], format!("{}:{}/{}", ts, idx, txt));
    }
    for (k, v) in iter_col(s, COLUMN_TRANSACTION_INFO) {
        let (ti, ts) = ids.t(&Byte32::from_slice(&k).unwrap());
        let e = packed::TransactionInfoReader::from_slice_should_be_ok(&v);
        let (_, bs) = ids.b(&e.key().block_hash().to_entity());
        let num: u64 = e.block_number().into();
        let epv: u64 = e.block_epoch().into();
        let idx: u32 = e.key().index().into();
        d.put("txinfo", vec![ti], format!("{}@{}/{}/{}/{}", ts, bs, idx, num, ep(epv)));
    }
    for (k, v) in iter_col(s, COLUMN_INDEX) {
        if k.len() == 8 {
            let (_, bs) = ids.b(&Byte32::from_slice(&v).unwrap());
            d.put("index", vec![le64(&k)], format!("{}:{}", le64(&k), bs));
        } else {
            let (bi, bs) = ids.b(&Byte32::from_slice(&k).unwrap());
            d.put("rindex", vec![bi], format!("{}:{}", bs, le64(&v)));
        }
    }
    for (k, v) in iter_col(s, COLUMN_UNCLES) {
        let kh = Byte32::from_slice(&k).unwrap();
        let (bi, bs) = ids.b(&kh);
        let hv = packed::HeaderViewReader::from_slice_should_be_ok(&v);
        let ok = hv.hash().as_slice() == kh.as_slice();
        d.put("uncles", vec![bi], format!("{}{}", bs, if ok { "" } else { "!" }));
    }
    for (k, v) in iter_col(s, COLUMN_BLOCK_EPOCH) {
        let (bi, bs) = ids.b(&Byte32::from_slice(&k).unwrap());
        let (_, ks) = ids.b(&Byte32::from_slice(&v).unwrap());
        d.put("bepoch", vec![bi], format!("{}:{}", bs, ks));
    }
    for (k, v) in iter_col(s, COLUMN_EPOCH) {
        if k.len() == 8 {
            let (_, ks) = ids.b(&Byte32::from_slice(&v).unwrap());
            d.put("epnum", vec![le64(&k)], format!("{}:{}", le64(&k), ks));
        } else {
            let kh = Byte32::from_slice(&k).unwrap();
            let (ki, ks) = ids.b(&kh);
            let e: ckb_types::core::EpochExt = packed::EpochExtReader::from_slice_should_be_ok(&v).into();
            let ok = e.last_block_hash_in_previous_epoch() == kh;
            d.put("epoch", vec![ki], format!("{}:{}/{}/{}{}", ks, e.number(), e.start_number(), e.length(), if ok { "" } else { "!" }));
        }
    }
    for (k, _v) in iter_col(s, COLUMN_BLOCK_EXT) {
        let kh = Byte32::from_slice(&k).unwrap();
        let (bi, bs) = ids.b(&kh);
        let e = s.get_block_ext(&kh).expect("ext row");
        let v = match e.verified {
            Some(true) => "T",
            Some(false) => "F",
            None => "N",
        };
        let td = if &e.total_difficulty >= genesis_difficulty {
            let x = &e.total_difficulty - genesis_difficulty;
            let q = &x / genesis_difficulty;
            let r = &x % genesis_difficulty;
            if r == ckb_types::U256::zero() { q.to_string() } else { format!("{}!", e.total_difficulty) }
        } else {
            format!("{}!", e.total_difficulty)
        };
        let fees: Vec<String> = e.txs_fees.iter().map(|c| c.as_u64().to_string()).collect();
        d.put("ext", vec![bi], format!("{}:{}/{}/{}/{}", bs, v, td, e.total_uncles_count, if fees.is_empty() { "-".to_string() } else { fees.join(".") }));
    }
    // meta: tip and current epoch only (chain-spec hash, migration version, filter marker are not chain state)
    if let Some(v) = s.get(COLUMN_META, META_TIP_HEADER_KEY) {
        let (_, bs) = ids.b(&Byte32::from_slice(v.as_ref()).unwrap());
        d.put("meta", vec![0], format!("tip:{}", bs));
    }
    // the raw META row (Snapshot::get_current_epoch_ext answers from memory instead)
    if let Some(raw) = s.get(COLUMN_META, META_CURRENT_EPOCH_KEY) {
        let e: ckb_types::core::EpochExt = packed::EpochExtReader::from_slice_should_be_ok(raw.as_ref()).into();
        let (_, ks) = ids.b(&e.last_block_hash_in_previous_epoch());
        d.put("meta", vec![1], format!("cur:{}/{}/{}/{}", e.number(), e.start_number(), e.length(), ks));
    }
    d
}

/// ext text without the fields a replay store cannot know (nothing today: received_at, cycles and
/// sizes are not printed at all)
fn first_diff(a: &BTreeMap<Vec<u64>, String>, b: &BTreeMap<Vec<u64>, String>, subset: bool) -> Option<String> {
    for (k, v) in b {
        match a.get(k) {
            Some(x) if x == v => {}
            Some(x) => return Some(format!("node has `{}` replay has `{}`", x, v)),
            None => return Some(format!("node lacks `{}`", v)),
        }
    }
    if !subset {
        for (k, v) in a {
            if !b.contains_key(k) {
                return Some(format!("node has extra `{}`", v));
            }
        }
    }
    None
}

/// the property itself, on the implementation alone: node dump vs dump of the reference replay
pub fn compare_with_replay(node: &Dump, replay: &Dump) -> Vec<(String, String)> {
    let empty = BTreeMap::new();
    let mut v = vec![];
    for s in EXACT {
        if let Some(d) = first_diff(node.sec.get(s).unwrap_or(&empty), replay.sec.get(s).unwrap_or(&empty), false) {
            v.push((format!("view-{}-neq-replay", s), d));
        }
    }
    for s in SUBSET {
        if let Some(d) = first_diff(node.sec.get(s).unwrap_or(&empty), replay.sec.get(s).unwrap_or(&empty), true) {
            v.push((format!("record-{}-neq-replay", s), d));
        }
    }
    // F9: the epoch number -> epoch index rows are part of the main-chain view
    if let Some(d) = first_diff(node.sec.get("epnum").unwrap_or(&empty), replay.sec.get("epnum").unwrap_or(&empty), false) {
        v.push(("epoch-number-row-neq-replay".to_string(), d));
    }
    v
}

fn raw_view<S: ChainStore>(s: &S) -> Vec<(Col, Vec<(Vec<u8>, Vec<u8>)>)> {
    [COLUMN_CELL, COLUMN_CELL_DATA, COLUMN_CELL_DATA_HASH, COLUMN_TRANSACTION_INFO, COLUMN_INDEX, COLUMN_UNCLES].iter().map(|c| (*c, iter_col(s, c))).collect()
}

fn mmr_rows<S: ChainStore>(s: &S, tip_number: u64) -> Vec<Option<Vec<u8>>> {
    let size = leaf_index_to_mmr_size(tip_number);
    (0..size).map(|p| s.get_header_digest(p).map(|d| d.as_slice().to_vec())).collect()
}

// ------------------------------------------------------------------------------------------------
// abstract history
// ------------------------------------------------------------------------------------------------

#[derive(Clone, Debug)]
pub struct ATx {
    pub id: u64,
    pub fee: u64,
    pub salt: u64,
    pub inputs: Vec<(u64, u32)>,
    pub nout: usize,
}

#[derive(Clone, Debug)]
pub struct ABlock {
    pub id: u64,
    pub parent: u64,
    pub number: u64,
    pub salt: u64,
    pub cb_out: bool,
    pub cbid: u64,
    pub txs: Vec<u64>,
    pub props: Vec<u64>,
    pub uncles: Vec<u64>,
}

fn list<T: ToString>(v: &[T]) -> String {
    if v.is_empty() { "-".into() } else { v.iter().map(|x| x.to_string()).collect::<Vec<_>>().join(",") }
}

fn parse_list(s: &str) -> Vec<u64> {
    if s == "-" { vec![] } else { s.split(',').map(|x| x.parse().expect("number list")).collect() }
}

fn kv<'a>(tok: &'a str, key: &str) -> &'a str {
    tok.strip_prefix(key).and_then(|r| r.strip_prefix('=')).unwrap_or_else(|| panic!("malformed op: expected {}=…, got {}", key, tok))
}


// ------------------------------------------------------------------------------------------------
// executor: op lines -> real node
// ------------------------------------------------------------------------------------------------

struct Reader {
    stop: Arc<AtomicBool>,
    got: Arc<Mutex<Vec<Arc<Snapshot>>>>,
    jh: Option<std::thread::JoinHandle<()>>,
}

pub struct Exec<'a> {
    pub out: &'a mut Out,
    pub base: PathBuf,
    pub case_no: u64,
    pub cfg: NodeCfg,
    pub node: Option<Node>,
    pub builder: Option<ChainBuilder>,
    /// start the node with a freezer ("ancient") directory (used by C10)
    pub ancient: bool,
    pub ids: Ids,
    pub ablocks: HashMap<u64, ABlock>,
    pub atxs: HashMap<u64, ATx>,
    gdiff: ckb_types::U256,
    /// (snapshot, dump line at publication time) after every state op
    snaps: Vec<(Arc<Snapshot>, String)>,
    truncated: bool,
    reader: Option<Reader>,
    pub reorg_depths: BTreeSet<u64>,
    /// special reorg shapes reached in this case ("aba", "same-epoch-number", "multi-spend")
    pub reorg_shapes: BTreeSet<String>,
    pub stale_epnum_seen: bool,
    /// the next block `Gen::build` emits is made invalid in this way (an `xblock … bad=<kind>` line)
    pub bad_next: Option<String>,
    /// blocks the node refused (`err`): deleted again by `delete_unverified_block`, never a parent
    pub dead: HashSet<u64>,
    /// stored blocks that are invalid or have an invalid ancestor: must never become the tip
    pub poisoned: HashSet<u64>,
    /// stored blocks with unresolvable inputs: the chain builder cannot build on them
    pub nochild: HashSet<u64>,
    /// `xcols 1`: dumps include the chain-root MMR column
    pub xcols: bool,
    /// digest of the perfect subtree of height h ending at block id, over the block's own ancestors
    mmr_dig: HashMap<(u64, u32), packed::HeaderDigest>,
    /// raw digest -> the ids of the blocks it covers ("a.b.c")
    mmr_names: HashMap<Vec<u8>, String>,
}

/// every column of the database, raw
const ALL_COLUMNS: [Col; 19] = [
    COLUMN_INDEX, COLUMN_BLOCK_HEADER, COLUMN_BLOCK_BODY, COLUMN_BLOCK_UNCLE, COLUMN_META, COLUMN_TRANSACTION_INFO,
    COLUMN_BLOCK_EXT, COLUMN_BLOCK_PROPOSAL_IDS, COLUMN_BLOCK_EPOCH, COLUMN_EPOCH, COLUMN_CELL, COLUMN_UNCLES,
    COLUMN_CELL_DATA, COLUMN_NUMBER_HASH, COLUMN_CELL_DATA_HASH, COLUMN_BLOCK_EXTENSION, COLUMN_CHAIN_ROOT_MMR,
    COLUMN_BLOCK_FILTER, COLUMN_BLOCK_FILTER_HASH,
];

fn raw_all<S: ChainStore>(s: &S) -> Vec<(Col, Vec<(Vec<u8>, Vec<u8>)>)> {
    ALL_COLUMNS.iter().map(|c| (*c, iter_col(s, c))).collect()
}

impl<'a> Exec<'a> {
    pub fn new(out: &'a mut Out, base: PathBuf) -> Self {
        Exec {
            out,
            base,
            case_no: 0,
            cfg: NodeCfg::default(),
            node: None,
            builder: None,
            ancient: false,
            ids: Ids::default(),
            ablocks: HashMap::new(),
            atxs: HashMap::new(),
            gdiff: ckb_types::U256::one(),
            snaps: vec![],
            truncated: false,
            reader: None,
            reorg_depths: BTreeSet::new(),
            reorg_shapes: BTreeSet::new(),
            stale_epnum_seen: false,
            bad_next: None,
            dead: HashSet::new(),
            poisoned: HashSet::new(),
            nochild: HashSet::new(),
            xcols: false,
            mmr_dig: HashMap::new(),
            mmr_names: HashMap::new(),
        }
    }

    /// Explain the digests block `id` (already in `ablocks` / `ids.blkv`) can contribute to an MMR:
    /// the leaf, and for every h with 2^h | number+1 the node of height h whose last leaf it is,
    /// computed with the real `MergeHeaderDigest::merge` over the block's own parent path.
    fn name_digests(&mut self, id: u64) {
        use ckb_merkle_mountain_range::Merge;
        use ckb_types::utilities::merkle_mountain_range::MergeHeaderDigest;
        let blk = self.ids.blkv[&id].clone();
        let n = blk.number();
        let leaf = blk.digest();
        self.mmr_names.insert(leaf.as_slice().to_vec(), id.to_string());
        self.mmr_dig.insert((id, 0), leaf);
        let mut h = 1u32;
        while (n + 1) % (1u64 << h) == 0 {
            let mut left_end = id;
            for _ in 0..(1u64 << (h - 1)) {
                left_end = self.ablocks[&left_end].parent;
            }
            let (l, r) = match (self.mmr_dig.get(&(left_end, h - 1)), self.mmr_dig.get(&(id, h - 1))) {
                (Some(l), Some(r)) => (l.clone(), r.clone()),
                _ => break,
            };
            let m = match MergeHeaderDigest::merge(&l, &r) {
                Ok(m) => m,
                Err(_) => break,
            };
            let name = format!("{}.{}", self.mmr_names[l.as_slice()], self.mmr_names[r.as_slice()]);
            self.mmr_names.insert(m.as_slice().to_vec(), name);
            self.mmr_dig.insert((id, h), m);
            h += 1;
        }
    }

    /// the dump line of a store / snapshot, with the MMR column when `xcols` is on
    fn full_line<S: ChainStore>(&self, s: &S, d: &Dump) -> String {
        let line = d.line();
        if !self.xcols {
            return line;
        }
        let mut rows: Vec<(u64, String)> = iter_col(s, COLUMN_CHAIN_ROOT_MMR)
            .into_iter()
            .map(|(k, v)| (le64(&k), self.mmr_names.get(&v).cloned().unwrap_or_else(|| "?".to_string())))
            .collect();
        rows.sort();
        let txt: Vec<String> = rows.iter().map(|(p, n)| format!("{}:{}", p, n)).collect();
        format!("{} mmr={}", line, if txt.is_empty() { "-".to_string() } else { txt.join(",") })
    }

    /// live out-points of the branch genesis..=tip, from the abstract history alone
    pub fn branch_live(&self, tip: u64) -> BTreeSet<(u64, u32)> {
        let mut path = vec![tip];
        let mut cur = tip;
        while cur != 0 {
            cur = self.ablocks[&cur].parent;
            path.push(cur);
        }
        path.reverse();
        let mut live = BTreeSet::new();
        for b in path {
            let ab = &self.ablocks[&b];
            if b == 0 {
                live.insert((0, 0));
            } else if ab.cb_out {
                live.insert((ab.cbid, 0));
            }
            for t in &ab.txs {
                let at = &self.atxs[t];
                for i in &at.inputs {
                    live.remove(i);
                }
                for o in 0..at.nout {
                    live.insert((*t, o as u32));
                }
            }
        }
        live
    }

    /// independent of the node and of the Lean model: some input of `txs` (in block order, on top of
    /// `parent`'s branch) is dead, unknown, spent twice in the block or created later in the block
    pub fn unresolvable(&self, parent: u64, txs: &[u64]) -> bool {
        let live = self.branch_live(parent);
        let mut seen: HashSet<(u64, u32)> = HashSet::new();
        for (k, t) in txs.iter().enumerate() {
            for i in &self.atxs[t].inputs {
                if !seen.insert(*i) {
                    return true;
                }
                if let Some(pos) = txs.iter().position(|x| *x == i.0) {
                    if pos >= k || (i.1 as usize) >= self.atxs[&i.0].nout {
                        return true;
                    }
                } else if !live.contains(i) {
                    return true;
                }
            }
        }
        false
    }

    pub fn begin_case(&mut self, label: &str) {
        self.end_case();
        self.case_no = self.out.begin_case(label);
    }

    pub fn tip_id(&self) -> u64 {
        *self.ids.blk.get(&self.node.as_ref().unwrap().tip_hash()).expect("tip id")
    }

    pub fn cap_of(&self, tx: u64, idx: u32) -> u64 {
        let c: ckb_types::core::Capacity = self.ids.txv[&tx].output(idx as usize).expect("output").capacity().unpack();
        c.as_u64()
    }

    fn start_reader(&mut self) {
        let shared = self.node.as_ref().unwrap().shared.clone();
        let stop = Arc::new(AtomicBool::new(false));
        let got = Arc::new(Mutex::new(Vec::<Arc<Snapshot>>::new()));
        let (s2, g2) = (stop.clone(), got.clone());
        let seed = self.case_no;
        let jh = std::thread::spawn(move || {
            let mut rng = Rng::new(seed ^ 0x5eed);
            let mut last: *const Snapshot = std::ptr::null();
            while !s2.load(Ordering::Relaxed) {
                let s = shared.cloned_snapshot();
                if Arc::as_ptr(&s) != last {
                    last = Arc::as_ptr(&s);
                    let mut g = g2.lock().unwrap();
                    if g.len() < 400 {
                        g.push(s);
                    }
                }
                let us = rng.below(400);
                if us > 50 {
                    std::thread::sleep(std::time::Duration::from_micros(us));
                }
            }
        });
        self.reader = Some(Reader { stop, got, jh: Some(jh) });
    }

    /// node dump + all oracles at a quiescent point; returns the dump line
    fn observe(&mut self) -> String {
        let node = self.node.as_ref().unwrap();
        let snap = node.shared.cloned_snapshot();
        let d = dump(node.store(), &self.ids, &self.gdiff);
        let line = self.full_line(node.store(), &d);
        let tip = node.store().get_tip_header().expect("tip");
        // the published snapshot is the committed state
        let sd = dump(&*snap, &self.ids, &self.gdiff);
        let sline = self.full_line(&*snap, &sd);
        if sd != d || sline != line {
            self.out.oracle_fail("snapshot-neq-store-at-quiescence", &format!("snapshot `{}` store `{}`", sline, line));
        }
        if self.xcols {
            // every MMR row below the tip's mmr size is the merge tree of a run of main-chain blocks
            let size = leaf_index_to_mmr_size(tip.number());
            for (k, v) in iter_col(node.store(), COLUMN_CHAIN_ROOT_MMR) {
                let p = le64(&k);
                if p >= size {
                    continue;
                }
                match self.mmr_names.get(&v) {
                    None => self.out.oracle_fail("mmr-node-not-a-chain-segment", &format!("position {} below mmr size {}", p, size)),
                    Some(n) => {
                        let last: u64 = n.rsplit('.').next().unwrap().parse().unwrap();
                        let h = self.ids.blkv[&last].hash();
                        if !node.store().is_main_chain(&h) {
                            self.out.oracle_fail("mmr-node-of-a-side-branch-below-size", &format!("position {} covers blocks {} (mmr size {})", p, n, size));
                        }
                    }
                }
            }
        }
        if snap.tip_hash() != tip.hash() {
            self.out.oracle_fail("snapshot-tip-neq-store-tip", "");
        }
        let raw_node = raw_view(node.store());
        let mmr_node = mmr_rows(node.store(), tip.number());
        let b = self.builder.as_mut().unwrap();
        let rs = b.replay_store(&tip.hash());
        let rd = dump(rs, &self.ids, &self.gdiff);
        let mut fails = compare_with_replay(&d, &rd);
        let raw_replay = raw_view(rs);
        for ((c, a), (_, r)) in raw_node.iter().zip(raw_replay.iter()) {
            if a != r {
                fails.push((format!("raw-column-{}-neq-replay", c), format!("{} rows vs {} rows", a.len(), r.len())));
            }
        }
        if mmr_node != mmr_rows(rs, tip.number()) {
            fails.push(("mmr-neq-replay".to_string(), format!("tip number {}", tip.number())));
        }
        // the snapshot's in-memory tip / epoch (what the node uses as "current epoch")
        {
            let want = rs.get_current_epoch_ext().expect("replay epoch");
            if snap.epoch_ext() != &want {
                fails.push(("snapshot-inmem-epoch-neq-replay".to_string(), format!("snapshot epoch {} replay {}", snap.epoch_ext().number(), want.number())));
            }
        }
        for (c, t) in fails {
            let c = if c == "view-meta-neq-replay" && t.contains("cur:") && self.truncated { "current-epoch-row-stale-after-truncate".to_string() } else { c };
            if c == "epoch-number-row-neq-replay" {
                self.stale_epnum_seen = true;
                // observable effect: the epoch the node reports for that number is not the main chain's
                let store = node.store();
                let mut eff = String::new();
                for n in 0..=store.get_current_epoch_ext().map(|e| e.number()).unwrap_or(0) {
                    if let Some(e) = store.get_epoch_index(n).and_then(|i| store.get_epoch_ext(&i)) {
                        let h = e.last_block_hash_in_previous_epoch();
                        if n > 0 && !store.is_main_chain(&h) {
                            eff = format!("get_epoch_index({n}) -> epoch whose last_block_hash_in_previous_epoch is block {} which is NOT on the main chain", self.ids.b(&h).1);
                        }
                    }
                }
                self.out.oracle_fail(&c, &format!("{} ; {}", t, eff));
            } else {
                self.out.oracle_fail(&c, &t);
            }
        }
        self.snaps.push((snap, sline));
        line
    }

    fn check_snapshot(&mut self, s: &Arc<Snapshot>, what: &str) {
        let d = dump(&**s, &self.ids, &self.gdiff);
        let b = self.builder.as_mut().unwrap();
        let rs = b.replay_store(&s.tip_hash());
        let rd = dump(rs, &self.ids, &self.gdiff);
        for (c, t) in compare_with_replay(&d, &rd) {
            if c == "view-meta-neq-replay" && t.contains("cur:") && self.truncated {
                self.out.oracle_fail("current-epoch-row-stale-after-truncate", &format!("({}) {}", what, t));
            } else if c == "epoch-number-row-neq-replay" {
                self.out.oracle_fail(&c, &format!("({}) {}", what, t));
            } else {
                self.out.oracle_fail(&format!("{}-{}", what, c), &t);
            }
        }
        let n = s.tip_header().number();
        if mmr_rows(&**s, n) != mmr_rows(rs, n) {
            self.out.oracle_fail(&format!("{}-mmr-neq-replay", what), "");
        }
        self.out.count(&format!("{}_checked", what));
    }

    pub fn end_case(&mut self) {
        if self.node.is_none() {
            return;
        }
        // snapshots grabbed concurrently: each equals the replay of the chain its own tip names
        if let Some(mut r) = self.reader.take() {
            r.stop.store(true, Ordering::Relaxed);
            r.jh.take().unwrap().join().unwrap();
            let got: Vec<Arc<Snapshot>> = std::mem::take(&mut *r.got.lock().unwrap());
            let mut seen = HashSet::new();
            // at most 12 per case (each needs a reference replay), spread over the run
            let step = (got.len() / 12).max(1);
            for s in got.iter().step_by(step) {
                if seen.insert(Arc::as_ptr(s) as usize) {
                    self.check_snapshot(s, "reader-snapshot");
                }
            }
        }
        // snapshots are values: every snapshot published earlier still reads what it read then
        let snaps = std::mem::take(&mut self.snaps);
        for (s, line) in snaps.iter() {
            let now = self.full_line(&**s, &dump(&**s, &self.ids, &self.gdiff));
            if &now != line {
                self.out.oracle_fail("snapshot-changed-after-publication", &format!("then `{}` now `{}`", line, now));
            }
        }
        drop(snaps);
        if let Some(n) = self.node.take() {
            n.stop();
        }
        self.builder.take();
        self.ids = Ids::default();
        self.truncated = false;
        self.ablocks.clear();
        self.atxs.clear();
        self.bad_next = None;
        self.dead.clear();
        self.poisoned.clear();
        self.nochild.clear();
        self.xcols = false;
        self.mmr_dig.clear();
        self.mmr_names.clear();
        let _ = std::fs::remove_dir_all(self.base.join(format!("case-{}", self.case_no)));
    }

    fn outs_text(t: &TransactionView) -> String {
        let v: Vec<String> = t.outputs_data().into_iter().map(|d| dtag(&d.raw_data())).collect();
        list(&v)
    }

    /// op lines describing the genesis block of a configuration
    pub fn genesis_ops(cfg: &NodeCfg) -> Vec<String> {
        let c = make_consensus(cfg);
        let mut v = vec![];
        let g = c.genesis_block();
        for (i, t) in g.transactions().iter().enumerate() {
            v.push(format!("gtx {} out={}", i, Self::outs_text(t)));
        }
        v.push(format!("genesis txs={}", list(&(0..g.transactions().len() as u64).collect::<Vec<_>>())));
        v
    }

    pub fn apply(&mut self, line: &str) {
        let t: Vec<&str> = line.split(' ').collect();
        match t[0] {
            "cfg" => {
                let cfg = NodeCfg { epoch_len: t[1].parse().unwrap(), window: (t[2].parse().unwrap(), t[3].parse().unwrap()), genesis_cells: t[4].parse().unwrap(), with_pool: false, ..Default::default() };
                let consensus = make_consensus(&cfg);
                let dir = self.base.join(format!("case-{}", self.case_no));
                let _ = std::fs::remove_dir_all(&dir);
                self.gdiff = consensus.genesis_block().difficulty();
                self.node = Some(if self.ancient {
                    {
                        std::fs::create_dir_all(dir.join("ancient")).unwrap();
                        Node::start_with_ancient(&dir.join("node"), consensus.clone(), &cfg, Some(dir.join("ancient")))
                    }
                } else {
                    Node::start(&dir.join("node"), consensus.clone(), &cfg)
                });
                let mut b = ChainBuilder::new(consensus.clone(), &dir.join("builder"));
                b.max_branch_stores = 8;
                self.builder = Some(b);
                self.cfg = cfg;
                self.out.op(line, "ok");
            }
            "xcols" => {
                self.xcols = true;
                self.out.op(line, "ok");
            }
            "gtx" => {
                let id: u64 = t[1].parse().unwrap();
                let g = self.node.as_ref().unwrap().consensus.genesis_block().clone();
                let tx = g.transactions().get(id as usize).expect("genesis tx index").clone();
                assert_eq!(kv(t[2], "out"), Self::outs_text(&tx), "gtx line does not describe the real genesis");
                self.ids.add_tx(id, &tx);
                self.atxs.insert(id, ATx { id, fee: 0, salt: 0, inputs: vec![], nout: tx.outputs().len() });
                self.out.op(line, "ok");
            }
            "genesis" => {
                let g = self.node.as_ref().unwrap().consensus.genesis_block().clone();
                let txs = parse_list(kv(t[1], "txs"));
                assert_eq!(txs.len(), g.transactions().len());
                self.ids.blk.insert(g.hash(), 0);
                self.ids.blkv.insert(0, g.clone());
                self.ablocks.insert(0, ABlock { id: 0, parent: 0, number: 0, salt: 0, cb_out: true, cbid: 0, txs: txs[1..].to_vec(), props: vec![], uncles: vec![] });
                self.name_digests(0);
                self.start_reader();
                let d = self.observe();
                self.out.op(line, &d);
            }
            "tx" => {
                let id: u64 = t[1].parse().unwrap();
                let fee: u64 = kv(t[2], "fee").parse().unwrap();
                let salt: u64 = kv(t[3], "salt").parse().unwrap();
                let ins: Vec<(u64, u32)> = kv(t[4], "in").split(',').map(|p| { let (a, b) = p.split_once(':').expect("tx:idx"); (a.parse().unwrap(), b.parse().unwrap()) }).collect();
                let outs = kv(t[5], "out");
                let nout = outs.split(',').count();
                let inputs: Vec<(OutPoint, u64)> = ins.iter().map(|(a, i)| (OutPoint::new(self.ids.txv.get(a).expect("input tx known").hash(), *i), self.cap_of(*a, *i))).collect();
                let tx = spend_tx(&inputs, nout, fee, salt);
                assert_eq!(outs, Self::outs_text(&tx), "tx line does not describe the built transaction");
                self.ids.add_tx(id, &tx);
                self.atxs.insert(id, ATx { id, fee, salt, inputs: ins, nout });
                self.out.op(line, "ok");
                self.out.count("tx");
            }
            "block" | "xblock" => {
                // `xblock … bad=<kind>`: a block that must fail verification when it (or a descendant)
                // becomes the best chain: cap / capm (cellbase capacity +1 / -1), dao (DAO field), ext
                // (chain-root extension) — rules outside the store model, flagged to it — or none: the
                // listed transactions have an unresolvable input (the model decides that itself)
                let bad: Option<&str> = if t[0] == "xblock" { Some(kv(t[10], "bad")) } else { None };
                let id: u64 = t[1].parse().unwrap();
                let parent: u64 = t[2].parse().unwrap();
                let salt: u64 = kv(t[3], "salt").parse().unwrap();
                let epf = kv(t[4], "ep");
                let cb: u64 = kv(t[5], "cb").parse().unwrap();
                let cbid_s = kv(t[6], "cbid");
                let txs = parse_list(kv(t[7], "txs"));
                let props = parse_list(kv(t[8], "props"));
                let uncles = parse_list(kv(t[9], "uncles"));
                let ph = self.ids.blkv.get(&parent).expect("parent known").hash();
                let spec = BlockSpec {
                    txs: txs.iter().map(|i| self.ids.txv[i].clone()).collect(),
                    proposals: props.iter().map(|i| self.ids.txv[i].proposal_short_id()).collect(),
                    uncles: uncles.iter().map(|i| self.ids.blkv[i].as_uncle()).collect(),
                    salt,
                    tweak: match bad {
                        None | Some("none") => Tweak::None,
                        Some("cap") => Tweak::CellbaseCapacity(1),
                        Some("capm") => Tweak::CellbaseCapacity(-1),
                        Some("dao") => Tweak::Dao,
                        Some("ext") => Tweak::Extension,
                        Some(k) => panic!("malformed op: unknown bad kind {}", k),
                    },
                    ..Default::default()
                };
                assert!(!self.dead.contains(&parent) && !self.nochild.contains(&parent), "malformed op: parent {} cannot be built on", parent);
                let unres = self.unresolvable(parent, &txs);
                match bad {
                    Some("none") => assert!(unres, "malformed op: xblock bad=none whose inputs all resolve"),
                    Some("cap") | Some("capm") => assert!(cb == 1, "malformed op: cellbase tweak on a block without cellbase output"),
                    _ => {}
                }
                let flagged = matches!(bad, Some(k) if k != "none");
                let poisoned_now = flagged || unres || self.poisoned.contains(&parent);
                let blk = if unres {
                    // the chain builder tries (and fails, inside catch_unwind) to attach the block to its
                    // branch store: keep that expected panic message off stderr
                    let prev = std::panic::take_hook();
                    std::panic::set_hook(Box::new(|_| {}));
                    let b = self.builder.as_mut().unwrap().build(&ph, &spec);
                    std::panic::set_hook(prev);
                    b
                } else {
                    self.builder.as_mut().unwrap().build(&ph, &spec)
                };
                let e = blk.epoch();
                assert_eq!(epf, format!("{}.{}.{}", e.number(), e.index(), e.length()), "block line epoch differs from the built block");
                assert_eq!(cb as usize, blk.transactions()[0].outputs().len(), "block line cb differs from the built block");
                let cbid = self.ids.add_block(id, &blk);
                let line_owned = if cbid_s == "auto" { line.replacen("cbid=auto", &format!("cbid={}", cbid), 1) } else { assert_eq!(cbid_s, cbid.to_string(), "block line cbid differs from the built block"); line.to_string() };
                let line = line_owned.as_str();
                let number = blk.number();
                self.ablocks.insert(id, ABlock { id, parent, number, salt, cb_out: cb == 1, cbid, txs, props, uncles: uncles.clone() });
                self.name_digests(id);
                let old_tip = self.node.as_ref().unwrap().tip();
                let common_before = {
                    let store = self.node.as_ref().unwrap().store();
                    let mut h = blk.parent_hash();
                    while !(store.get_block_hash(store.get_block_header(&h).unwrap().number()).as_ref() == Some(&h)) {
                        h = store.get_block_header(&h).unwrap().parent_hash();
                    }
                    store.get_block_header(&h).unwrap().number()
                };
                // attached blocks below the new block whose ext is already verified (verified_len of find_fork)
                let reattached_verified = {
                    let store = self.node.as_ref().unwrap().store();
                    let mut k = 0u64;
                    let mut h = blk.parent_hash();
                    loop {
                        let hd = store.get_block_header(&h).unwrap();
                        if hd.number() <= common_before {
                            break;
                        }
                        if store.get_block_ext(&h).map(|e| e.verified == Some(true)).unwrap_or(false) {
                            k += 1;
                        }
                        h = hd.parent_hash();
                    }
                    k
                };
                // a block that must be refused: the whole database, raw, before it is submitted
                let db_before = if poisoned_now { Some(raw_all(self.node.as_ref().unwrap().store())) } else { None };
                let r = self.node.as_ref().unwrap().process(&blk);
                let res = match &r {
                    Ok(true) => "new",
                    Ok(false) => "known",
                    Err(_) => "err",
                };
                if r.is_err() && poisoned_now {
                    // all or nothing, on the implementation alone: the tip did not move and EVERY column
                    // of the database is byte-identical to what it was before the block was submitted
                    // (the reorg transaction was dropped, `delete_unverified_block` undid `insert_block`)
                    self.out.count("invalid_block_refused");
                    self.out.count(&format!("invalid_block_refused_{}", if unres { "unresolvable" } else if flagged { bad.unwrap() } else { "bad_ancestor" }));
                    let node = self.node.as_ref().unwrap();
                    if node.tip().hash() != old_tip.hash() {
                        self.out.oracle_fail("failed-reorg-moved-tip", &format!("block {} refused but the tip moved", id));
                    }
                    let after = raw_all(node.store());
                    for ((c, a), (_, b)) in db_before.as_ref().unwrap().iter().zip(after.iter()) {
                        if a != b {
                            self.out.oracle_fail(&format!("failed-reorg-changed-column-{}", c), &format!("block {} refused: {} rows before, {} rows after", id, a.len(), b.len()));
                        }
                    }
                    let depth = old_tip.number().saturating_sub(common_before);
                    self.out.count(&format!("failed_reorg_depth_{:02}", depth));
                    if reattached_verified > 0 {
                        self.out.count("failed_reorg_reattaching_verified_blocks");
                    }
                } else if let Err(e) = &r {
                    self.out.count("block_rejected");
                    eprintln!("C02: block {} rejected: {}", id, e);
                    // every block of this stream is built valid against the replay of its own branch
                    // (ChainBuilder: cellbase, DAO, epoch, chain root computed on a reference store), so a
                    // rejection means verification, which reads cells / MMR / epoch through the reorg
                    // transaction, saw a chain state that is not that replay
                    let kind: String = e.chars().take_while(|c| c.is_ascii_alphanumeric() || *c == '(' || *c == '_').collect();
                    self.out.oracle_fail("valid-block-rejected", &format!("block {} (parent {}, number {}) rejected: {}", id, parent, number, kind));
                }
                let new_tip = self.node.as_ref().unwrap().tip();
                if new_tip.hash() == blk.hash() && blk.parent_hash() != old_tip.hash() {
                    // depth of the reorg = number of detached blocks
                    let depth = old_tip.number().saturating_sub(common_before);
                    self.reorg_depths.insert(depth);
                    self.out.count("reorg");
                    self.out.count(&format!("reorg_depth_{:02}", depth));
                    if reattached_verified > 0 {
                        // A -> B -> A': blocks verified earlier are attached again without verification
                        self.out.count("reorg_reattaching_verified_blocks");
                        self.reorg_shapes.insert("aba".into());
                    }
                    // both tips inside one epoch number, fork point before that epoch's first block,
                    // new tip not an epoch head: only `fork.has_detached()` rewrites META current-epoch
                    let e_new = blk.epoch();
                    if old_tip.epoch().number() == e_new.number() && e_new.index() != 0 && common_before + e_new.index() < blk.number() {
                        self.out.count("reorg_inside_epoch_number_fork_before_boundary");
                        self.reorg_shapes.insert("same-epoch-number".into());
                    }
                    // a detached block with a transaction spending two outputs of one transaction that stays on the main chain
                    {
                        let mut det = vec![];
                        let mut x = *self.ids.blk.get(&old_tip.hash()).expect("old tip id");
                        while self.ablocks[&x].number > common_before {
                            det.push(x);
                            x = self.ablocks[&x].parent;
                        }
                        let det_txs: HashSet<u64> = det.iter().flat_map(|b| self.ablocks[b].txs.iter().cloned()).collect();
                        let mut hit = false;
                        for b in &det {
                            let mut per_parent: HashMap<u64, u32> = HashMap::new();
                            for t in &self.ablocks[b].txs {
                                for (p, _) in &self.atxs[t].inputs {
                                    if !det_txs.contains(p) {
                                        *per_parent.entry(*p).or_insert(0) += 1;
                                    }
                                }
                            }
                            if per_parent.values().any(|c| *c >= 2) {
                                hit = true;
                            }
                        }
                        if hit {
                            self.out.count("reorg_detaching_multi_spend_of_one_tx");
                            self.reorg_shapes.insert("multi-spend".into());
                        }
                    }
                } else if new_tip.hash() == blk.hash() {
                    self.out.count("extend");
                } else {
                    self.out.count("side_block");
                }
                if !uncles.is_empty() {
                    self.out.count("block_with_uncles");
                }
                // what the transaction graph of this block exercises
                {
                    let ab = &self.ablocks[&id];
                    for t in &ab.txs {
                        self.out.count("committed_tx");
                        let at = &self.atxs[t];
                        if at.inputs.iter().any(|(p, _)| ab.txs.contains(p)) {
                            self.out.count("in_block_create_and_spend");
                        }
                        if self.ablocks.values().any(|o| o.id != id && o.txs.contains(t)) {
                            self.out.count("tx_committed_on_two_branches");
                        }
                        if at.inputs.iter().any(|(p, _)| *p >= CB_BASE) {
                            self.out.count("cellbase_output_spent");
                        }
                    }
                }
                if r.is_err() {
                    self.dead.insert(id);
                    self.ablocks.remove(&id);
                } else if poisoned_now {
                    self.poisoned.insert(id);
                    if unres {
                        self.nochild.insert(id);
                    }
                    self.out.count("invalid_block_stored_as_side_block");
                }
                if self.poisoned.contains(&self.tip_id()) {
                    self.out.oracle_fail("invalid-chain-became-main", &format!("the tip {} is an invalid block or has an invalid ancestor", self.tip_id()));
                }
                let d = self.observe();
                self.out.op(line, &format!("{} {}", res, d));
            }
            "truncate" => {
                let id: u64 = t[1].parse().unwrap();
                let h = self.ids.blkv.get(&id).expect("block known").hash();
                let r = self.node.as_ref().unwrap().controller().truncate(h);
                self.truncated = true;
                let d = self.observe();
                self.out.op(line, &format!("{} {}", if r.is_ok() { "ok" } else { "err" }, d));
                self.out.count("truncate");
            }
            "snap" => {
                let k: usize = t[1].parse().unwrap();
                let (s, then) = self.snaps.get(k).expect("snapshot index").clone();
                let now = self.full_line(&*s, &dump(&*s, &self.ids, &self.gdiff));
                if now != then {
                    self.out.oracle_fail("snapshot-changed-after-publication", &format!("then `{}` now `{}`", then, now));
                }
                self.check_snapshot(&s, "kept-snapshot");
                self.out.op(line, &now);
            }
            _ => panic!("malformed op line: {}", line),
        }
    }

    pub fn n_state_ops(&self) -> usize {
        self.snaps.len()
    }

    /// stop the node, dropping every snapshot that pins the database
    pub fn stop_node(&mut self) {
        if let Some(mut r) = self.reader.take() {
            r.stop.store(true, Ordering::Relaxed);
            r.jh.take().unwrap().join().unwrap();
        }
        self.snaps.clear();
        if let Some(node) = self.node.take() {
            node.stop();
        }
    }

    /// open the node of this case again on its directory
    pub fn start_node(&mut self) {
        let dir = self.base.join(format!("case-{}", self.case_no));
        let consensus = make_consensus(&self.cfg);
        self.node = Some(if self.ancient {
            Node::start_with_ancient(&dir.join("node"), consensus, &self.cfg, Some(dir.join("ancient")))
        } else {
            Node::start(&dir.join("node"), consensus, &self.cfg)
        });
        self.start_reader();
    }

    pub fn case_dir(&self) -> PathBuf {
        self.base.join(format!("case-{}", self.case_no))
    }

    /// stop the node and open it again
    pub fn restart(&mut self) {
        self.stop_node();
        self.start_node();
    }
}

// ------------------------------------------------------------------------------------------------
// generator
// ------------------------------------------------------------------------------------------------

struct Ctx {
    live: BTreeSet<(u64, u32)>,
    proposed: HashMap<u64, Vec<u64>>,
    committed: HashSet<u64>,
    ancestors: Vec<u64>,
    uncled: HashSet<u64>,
}

pub struct Gen {
    pub next_tx: u64,
    pub next_blk: u64,
    pub l: u64,
    pub w: (u64, u64),
}

impl Gen {
    fn ctx(&self, ex: &Exec, tip: u64) -> Ctx {
        let mut path = vec![tip];
        let mut cur = tip;
        while cur != 0 {
            cur = ex.ablocks[&cur].parent;
            path.push(cur);
        }
        path.reverse();
        let mut c = Ctx { live: BTreeSet::new(), proposed: HashMap::new(), committed: HashSet::new(), ancestors: path.clone(), uncled: HashSet::new() };
        for b in path {
            let ab = &ex.ablocks[&b];
            if b == 0 {
                c.live.insert((0, 0));
            } else if ab.cb_out {
                c.live.insert((ab.cbid, 0));
            }
            for t in &ab.txs {
                let at = &ex.atxs[t];
                for i in &at.inputs {
                    c.live.remove(i);
                }
                for o in 0..at.nout {
                    c.live.insert((*t, o as u32));
                }
                c.committed.insert(*t);
            }
            if b != 0 {
                for p in &ab.props {
                    c.proposed.entry(*p).or_default().push(ab.number);
                }
                for u in &ab.uncles {
                    c.uncled.insert(*u);
                    for p in &ex.ablocks[u].props {
                        c.proposed.entry(*p).or_default().push(ab.number);
                    }
                }
            }
        }
        c
    }

    /// emit (tx lines +) one block line on `parent`; returns the block id
    pub fn build(&mut self, ex: &mut Exec, rng: &mut Rng, parent: u64, busy: bool) -> u64 {
        let mut bad = ex.bad_next.take();
        let c = self.ctx(ex, parent);
        let n = ex.ablocks[&parent].number + 1;
        let (wc, wf) = self.w;
        let in_window = |ps: &Vec<u64>| ps.iter().any(|p| *p >= 1 && p + wc <= n && n <= p + wf);
        // commits
        let mut live = c.live.clone();
        let mut cands: Vec<u64> = c.proposed.iter().filter(|(t, ps)| !c.committed.contains(*t) && in_window(ps)).map(|(t, _)| *t).collect();
        cands.sort();
        let mut txs = vec![];
        for t in cands {
            let at = ex.atxs[&t].clone();
            if rng.chance(4, 5) && at.inputs.iter().all(|i| live.contains(i)) {
                for i in &at.inputs {
                    live.remove(i);
                }
                for o in 0..at.nout {
                    live.insert((t, o as u32));
                }
                txs.push(t);
            }
        }
        // pending (proposed, not committed, still committable later) transactions of this branch
        let pending: Vec<u64> = c.proposed.iter().filter(|(t, ps)| !c.committed.contains(*t) && !txs.contains(t) && ps.iter().any(|p| n < p + wf)).map(|(t, _)| *t).collect();
        let mut claimed: HashSet<(u64, u32)> = HashSet::new();
        let mut avail: Vec<(u64, u32)> = live.iter().filter(|x| **x != (0, 0)).cloned().collect();
        for t in &pending {
            let at = &ex.atxs[t];
            for i in &at.inputs {
                claimed.insert(*i);
            }
            for o in 0..at.nout {
                avail.push((*t, o as u32));
            }
        }
        avail.sort();
        // proposals
        let mut props: Vec<u64> = vec![];
        let k = if busy { rng.range(0, 3) } else { rng.range(0, 1) };
        for _ in 0..k {
            // mostly unclaimed cells; sometimes a conflicting spend (only one of the two can be committed)
            let pool: Vec<(u64, u32)> = avail.iter().filter(|x| !claimed.contains(x) || rng.chance(1, 8)).filter(|x| ex.cap_of(x.0, x.1) >= 300_0000_0000).cloned().collect();
            if pool.is_empty() {
                break;
            }
            let nin = if pool.len() >= 2 && rng.chance(1, 4) { 2 } else { 1 };
            let mut ins: Vec<(u64, u32)> = vec![];
            // one transaction spending TWO outputs of one earlier transaction: when its block is
            // detached, detach_block_cell must restore each of them from the one tx-info row
            let twins: Vec<u64> = pool.iter().filter(|x| x.1 == 0 && pool.contains(&(x.0, 1))).map(|x| x.0).collect();
            if !twins.is_empty() && rng.chance(1, 3) {
                let t = *rng.pick(&twins);
                ins = vec![(t, 0), (t, 1)];
                ex.out_count("tx_spending_two_outputs_of_one_tx");
            }
            for _ in 0..(if ins.is_empty() { nin } else { 0 }) {
                let x = *rng.pick(&pool);
                if !ins.contains(&x) {
                    ins.push(x);
                }
            }
            let fee = 1000 + rng.below(5) * 100;
            let total: u64 = ins.iter().map(|x| ex.cap_of(x.0, x.1)).sum::<u64>() - fee;
            let mut nout = rng.range(1, 3) as usize;
            while nout > 1 && total / (nout as u64) < 300_0000_0000 {
                nout -= 1;
            }
            let id = self.next_tx;
            self.next_tx += 1;
            let outs: Vec<String> = (0..nout).map(|_| format!("8.{}", id)).collect();
            let ins_s: Vec<String> = ins.iter().map(|(a, b)| format!("{}:{}", a, b)).collect();
            ex.apply(&format!("tx {} fee={} salt={} in={} out={}", id, fee, id, ins_s.join(","), outs.join(",")));
            for i in &ins {
                claimed.insert(*i);
            }
            for o in 0..nout {
                avail.push((id, o as u32));
            }
            props.push(id);
        }
        // re-propose transactions known from other branches (or whose window ran out) whose inputs exist here
        let mut others: Vec<u64> = ex.atxs.keys().filter(|t| **t >= 100 && !c.committed.contains(*t) && !txs.contains(*t) && !pending.contains(*t) && !props.contains(*t)).cloned().collect();
        others.sort();
        for t in others {
            if props.len() < 4 && rng.chance(1, 2) && ex.atxs[&t].inputs.iter().all(|i| avail.contains(i)) {
                props.push(t);
                ex.out_count("reproposed");
            }
        }
        // uncles
        let mut uncles = vec![];
        if rng.chance(1, 2) {
            let mut cand: Vec<u64> = ex
                .ablocks
                .values()
                .filter(|u| u.id != 0 && !c.ancestors.contains(&u.id) && c.ancestors.contains(&u.parent) && u.number < n && u.number / self.l == n / self.l && !c.uncled.contains(&u.id))
                .map(|u| u.id)
                .collect();
            cand.sort();
            rng.shuffle(&mut cand);
            for u in cand.into_iter().take(rng.range(1, 2) as usize) {
                uncles.push(u);
            }
        }
        let id = self.next_blk;
        self.next_blk += 1;
        let cb = if n > wf + 1 { 1 } else { 0 };
        // an invalid block: a rule outside the store model (cap / capm / dao / ext), or a transaction
        // with an unresolvable input: dead (spent earlier on this branch), twice (one live cell spent by
        // two transactions of the block), foreign (a cell that exists on another branch only)
        if let Some(k) = bad.clone() {
            let new_tx = |ex: &mut Exec, g: &mut Gen, inp: (u64, u32)| -> u64 {
                let tid = g.next_tx;
                g.next_tx += 1;
                ex.apply(&format!("tx {} fee=1000 salt={} in={}:{} out=8.{}", tid, tid, inp.0, inp.1, tid));
                tid
            };
            let big = |ex: &Exec, x: &(u64, u32)| ex.cap_of(x.0, x.1) >= 200_0000_0000;
            let mut eff: Option<String> = None;
            match k.as_str() {
                "dead" => {
                    let mut cand: Vec<(u64, u32)> = c.committed.iter().filter(|t| **t >= 100).flat_map(|t| ex.atxs[t].inputs.clone()).filter(|i| !live.contains(i) && !txs.contains(&i.0) && big(ex, i)).collect();
                    cand.sort();
                    if !cand.is_empty() {
                        let i = *rng.pick(&cand);
                        let t = new_tx(ex, self, i);
                        txs.push(t);
                        eff = Some("none".into());
                    }
                }
                "twice" => {
                    let cand: Vec<(u64, u32)> = live.iter().filter(|x| **x != (0, 0) && big(ex, x)).cloned().collect();
                    if !cand.is_empty() {
                        let i = *rng.pick(&cand);
                        let t1 = new_tx(ex, self, i);
                        let t2 = new_tx(ex, self, i);
                        txs.push(t1);
                        txs.push(t2);
                        eff = Some("none".into());
                    }
                }
                "foreign" => {
                    let mut cand: Vec<u64> = ex.atxs.keys().filter(|t| **t >= 100 && !c.committed.contains(*t) && !txs.contains(*t) && !live.contains(&(**t, 0))).cloned().collect();
                    cand.sort();
                    let cand: Vec<u64> = cand.into_iter().filter(|t| big(ex, &(*t, 0))).collect();
                    if !cand.is_empty() {
                        let t0 = *rng.pick(&cand);
                        let t = new_tx(ex, self, (t0, 0));
                        txs.push(t);
                        eff = Some("none".into());
                    }
                }
                "cap" | "capm" if cb == 1 => eff = Some(k.clone()),
                "ext" => eff = Some(k.clone()),
                _ => {}
            }
            bad = Some(eff.unwrap_or_else(|| "dao".into()));
        }
        let line = match &bad {
            None => format!("block {} {} salt={} ep={}.{}.{} cb={} cbid=auto txs={} props={} uncles={}", id, parent, id, n / self.l, n % self.l, self.l, cb, list(&txs), list(&props), list(&uncles)),
            Some(k) => format!("xblock {} {} salt={} ep={}.{}.{} cb={} cbid=auto txs={} props={} uncles={} bad={}", id, parent, id, n / self.l, n % self.l, self.l, cb, list(&txs), list(&props), list(&uncles), k),
        };
        ex.apply(&line);
        id
    }
}

impl Exec<'_> {
    pub fn out_count(&mut self, k: &str) {
        self.out.count(k);
    }
    pub fn ancestor(&self, mut b: u64, back: u64) -> u64 {
        for _ in 0..back {
            if b == 0 {
                break;
            }
            b = self.ablocks[&b].parent;
        }
        b
    }
}

fn gen_case(ex: &mut Exec, rng: &mut Rng, case: u64, target_blocks: u64) {
    let l = rng.range(3, 8);
    let w = *rng.pick(&[(1u64, 3u64), (2, 4), (1, 2)]);
    let gcells = rng.range(5, 9);
    ex.begin_case(&format!("store l={} w={}.{} g={}", l, w.0, w.1, gcells));
    let cfg = NodeCfg { epoch_len: l, window: w, genesis_cells: gcells, with_pool: false, ..Default::default() };
    ex.apply(&format!("cfg {} {} {} {}", l, w.0, w.1, gcells));
    ex.apply("xcols 1");
    for op in Exec::genesis_ops(&cfg) {
        ex.apply(&op);
    }
    let mut g = Gen { next_tx: 100, next_blk: 1, l, w };
    let mut tips: Vec<u64> = vec![];
    let mut old_mains: Vec<u64> = vec![];
    let _ = case;
    while g.next_blk <= target_blocks {
        let tip = ex.tip_id();
        let tipn = ex.ablocks[&tip].number;
        let r = rng.below(100);
        // blocks that were the verified main tip before a reorg and are off the main chain now
        old_mains.retain(|a| {
            let mut x = tip;
            while ex.ablocks[&x].number > ex.ablocks[a].number {
                x = ex.ablocks[&x].parent;
            }
            x != *a
        });
        tips.retain(|t| !ex.dead.contains(t) && !ex.nochild.contains(t));
        if r < 29 || tipn < 3 {
            g.build(ex, rng, tip, true);
        } else if r < 38 {
            // invalid blocks: the node must refuse them and leave every column as it was
            const KINDS: [&str; 7] = ["dead", "twice", "foreign", "cap", "capm", "dao", "ext"];
            const RULES: [&str; 4] = ["cap", "capm", "dao", "ext"];
            let shape = rng.below(4);
            if shape == 0 {
                // directly on the tip: a failing extension
                ex.bad_next = Some(rng.pick(&KINDS).to_string());
                g.build(ex, rng, tip, true);
                ex.out_count("bad_shape_extension");
            } else if shape == 1 {
                // a valid fork of depth d whose overtaking block is invalid (rollback of d blocks and
                // d attaches inside the transaction that is dropped), then a valid sibling that overtakes
                let d = rng.range(1, tipn.min(6));
                let mut p = ex.ancestor(tip, d);
                for _ in 0..d {
                    p = g.build(ex, rng, p, true);
                }
                if ex.tip_id() == tip {
                    ex.bad_next = Some(rng.pick(&KINDS).to_string());
                    g.build(ex, rng, p, true);
                    if rng.chance(1, 2) && ex.tip_id() == tip {
                        let q = g.build(ex, rng, p, true);
                        if ex.tip_id() == q {
                            old_mains.push(tip);
                        }
                    } else {
                        tips.push(p);
                    }
                }
                ex.out_count("bad_shape_overtaking_block");
            } else if shape == 2 {
                // a fork with an invalid block in it (stored as a side block), valid blocks on top: every
                // block that would make the fork the best chain is refused, again and again
                let d = rng.range(1, tipn.min(5));
                let mut p = ex.ancestor(tip, d);
                let j = rng.below(d);
                let mut k = 0;
                while ex.tip_id() == tip && k < d + 3 && !ex.dead.contains(&p) {
                    if k == j {
                        ex.bad_next = Some(rng.pick(&RULES).to_string());
                    }
                    let q = g.build(ex, rng, p, k % 2 == 0);
                    if ex.dead.contains(&q) {
                        // refused: try once more from the same parent
                        if rng.chance(1, 2) {
                            g.build(ex, rng, p, false);
                        }
                        break;
                    }
                    p = q;
                    k += 1;
                }
                if !ex.dead.contains(&p) {
                    tips.push(p);
                }
                ex.out_count("bad_shape_inside_fork");
            } else if !old_mains.is_empty() {
                // A -> B -> A' where A' contains an invalid block: verified blocks are re-attached
                // (verified_len > 0) before the failure
                let i = rng.below(old_mains.len() as u64) as usize;
                let mut p = old_mains.remove(i);
                ex.bad_next = Some(rng.pick(&RULES).to_string());
                let mut k = 0;
                while ex.tip_id() == tip && k < 14 {
                    let q = g.build(ex, rng, p, false);
                    if ex.dead.contains(&q) {
                        break;
                    }
                    p = q;
                    k += 1;
                }
                ex.out_count("bad_shape_aba");
            } else {
                ex.bad_next = Some(rng.pick(&RULES).to_string());
                g.build(ex, rng, tip, false);
                ex.out_count("bad_shape_extension");
            }
        } else if r < 45 && !old_mains.is_empty() {
            // A -> B -> A': extend a branch that was verified and main until it wins again, so that
            // find_fork's attached list starts with already verified blocks (verified_len > 0)
            let i = rng.below(old_mains.len() as u64) as usize;
            let mut p = old_mains.remove(i);
            let mut need = tipn + 1 - ex.ablocks[&p].number.min(tipn);
            while need > 0 && g.next_blk <= target_blocks + 12 {
                let busy = rng.chance(1, 2);
                p = g.build(ex, rng, p, busy);
                need -= 1;
            }
            if ex.tip_id() == p {
                old_mains.push(tip);
            }
            ex.out_count("aba_attempt");
        } else if r < 45 {
            g.build(ex, rng, tip, true);
        } else if r < 65 {
            // a fork of depth d that overtakes the main chain (reorg of depth d), the main chain racing sometimes
            let d = rng.range(1, tipn.min(10));
            let mut p = ex.ancestor(tip, d);
            let mut need = d + 1;
            while need > 0 && g.next_blk <= target_blocks + 12 {
                p = g.build(ex, rng, p, true);
                need -= 1;
                if need > 0 && rng.chance(1, 6) {
                    let t2 = ex.tip_id();
                    if t2 != p {
                        g.build(ex, rng, t2, false);
                        need += 1;
                    }
                }
            }
            if ex.tip_id() == p {
                old_mains.push(tip);
            }
        } else if r < 75 {
            // F9 shape: a fork that diverges before an epoch boundary and crosses it while staying
            // lighter than the main chain
            let k = tipn / l;
            if k >= 1 {
                let bnd = k * l; // first block of epoch k, bnd <= tipn
                let j = rng.range(1, bnd.min(3));
                let mut p = ex.ancestor(tip, tipn - (bnd - j));
                for _ in 0..j {
                    p = g.build(ex, rng, p, false);
                }
                ex.out_count("fork_crossing_epoch_boundary_lighter");
                // … and sometimes let it overtake while both tips are inside the same epoch number and
                // the new tip is not an epoch head (META current-epoch must follow: `fork.has_detached()`)
                if rng.chance(1, 2) && (tipn + 1) / l == k {
                    let mut need = tipn + 1 - ex.ablocks[&p].number.min(tipn);
                    while need > 0 && g.next_blk <= target_blocks + 12 {
                        p = g.build(ex, rng, p, false);
                        need -= 1;
                    }
                    if ex.tip_id() == p {
                        old_mains.push(tip);
                    }
                } else {
                    tips.push(p);
                }
            }
        } else if r < 87 {
            // a short side branch (equal or lower work), or extend an older side tip
            if !tips.is_empty() && rng.chance(1, 2) {
                let i = rng.below(tips.len() as u64) as usize;
                let p = tips[i];
                tips[i] = g.build(ex, rng, p, true);
            } else {
                let d = rng.range(1, tipn.min(6));
                let p = ex.ancestor(tip, d);
                let b = g.build(ex, rng, p, true);
                tips.push(b);
            }
        } else if r < 93 {
            let d = rng.range(1, tipn.min(10));
            let t = ex.ancestor(tip, d);
            ex.apply(&format!("truncate {}", t));
            // the cut-off branch stays stored (verified): it may be extended later
            if rng.chance(1, 2) {
                tips.push(tip);
            }
        } else {
            let k = rng.below(ex.n_state_ops() as u64);
            ex.apply(&format!("snap {}", k));
        }
    }
    // a few old snapshots at the end
    for _ in 0..3 {
        let k = rng.below(ex.n_state_ops() as u64);
        ex.apply(&format!("snap {}", k));
    }
    let fp = format!("l{}w{}.{}d{:?}s{:?}", l, w.0, w.1, ex.reorg_depths, ex.reorg_shapes);
    if !ex.reorg_depths.is_empty() {
        ex.out.nontrivial(fp);
    }
    ex.reorg_depths.clear();
    ex.reorg_shapes.clear();
    ex.end_case();
}

#[path = "c02_fork.rs"]
mod fork;

pub fn run(opts: &Opts) {
    // stream `fork` (find_fork on stored block trees): see c02_fork.rs
    if opts.extra.first().map(|s| s.as_str()) == Some("fork") {
        return fork::run(opts);
    }
    if let Some(rp) = &opts.replay {
        // corpus files are offered to every stream: the `fork` files are not for this one
        if fork::is_fork_file(&read_replay_ops(rp)) {
            Out::new(&opts.out).finish("replay");
            return;
        }
    }
    let base = scratch_dir(&opts.out, "c02");
    let mut out = Out::new(&opts.out);
    {
        let mut ex = Exec::new(&mut out, base.clone());
        if let Some(rp) = &opts.replay {
            for l in read_replay_ops(rp) {
                if l.starts_with("case ") {
                    let label = l.splitn(3, ' ').nth(2).unwrap_or("replay").to_string();
                    ex.begin_case(&label);
                } else {
                    if ex.case_no == 0 {
                        ex.begin_case("replay");
                    }
                    ex.apply(&l);
                }
            }
            ex.end_case();
        } else {
            let mut rng = Rng::new(opts.seed);
            let cases = if opts.thorough() { 120 } else { 22 } * opts.scale;
            for c in 0..cases {
                let blocks = if opts.thorough() { rng.range(20, 160) } else { rng.range(20, 60) };
                gen_case(&mut ex, &mut rng, c, blocks);
            }
        }
    }
    out.finish("a case is non-trivial when its history contains at least one reorganisation; the fingerprint is (epoch length, proposal window, set of reorg depths reached)");
    let _ = std::fs::remove_dir_all(&base);
}
