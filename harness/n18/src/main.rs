//! `vh-c18 C18 --seed N --tier quick|thorough --out DIR [--replay FILE] [--scale K] [extra args]`
//! Node-level correspondence harness for property C18 (own crate so that work-in-progress on other
//! properties cannot break this build). Shares `common.rs`, `node.rs` and the module source
//! `hnode/src/c18.rs` by path.
#![allow(dead_code)]
#[path = "../../hcore/src/common.rs"]
mod common;
#[path = "../../hnode/src/node.rs"]
pub mod node;
#[path = "../../hnode/src/c18.rs"]
mod c18;

fn main() {
    let args: Vec<String> = std::env::args().skip(1).collect();
    if args.is_empty() {
        eprintln!("usage: vh-c18 C18 --seed N --tier T --out DIR");
        std::process::exit(2);
    }
    let opts = common::Opts::parse(&args[1..]);
    c18::run(&opts)
}
