//! C07, stream `header`: the real `HeaderVerifier::verify` (PowVerifier -> parent lookup ->
//! NumberVerifier -> EpochVerifier -> TimestampVerifier) on real headers with the Eaglesong engine,
//! against the model's `headerVerify`.
//!
//!   hv <compact> <digest> <parent_known 0|1> <parent_number> <number> <parent_epoch> <epoch> <nonce>
//!        -> ok | invalid-nonce | unknown-parent | number | epoch-malformed | epoch-noncontinuous | fail
//! The digest token is the eaglesong digest of the real header's PoW message (recomputed on replay).
//! Timestamps are kept valid (parent median time < header time <= now), so the TimestampVerifier
//! that runs last never rejects; any other error kind is reported as `other` (a model difference).
use crate::common::*;
use ckb_chain_spec::consensus::{Consensus, ConsensusBuilder};
use ckb_pow::Pow;
use ckb_traits::{HeaderFields, HeaderFieldsProvider};
use ckb_types::{
    U256,
    core::{EpochNumberWithFraction, HeaderView},
    packed::{self, Byte32},
    prelude::*,
    utilities::compact_to_target,
};
use ckb_verification::{BlockError, BlockErrorKind, EpochError, HeaderError, HeaderErrorKind, HeaderVerifier};
use ckb_verification_traits::Verifier;
use std::panic::{AssertUnwindSafe, catch_unwind};

const PARENT_TS: u64 = 1_600_000_000_000;

struct Provider {
    known: bool,
    number: u64,
    epoch: u64,
}

impl HeaderFieldsProvider for Provider {
    fn get_header_fields(&self, hash: &Byte32) -> Option<HeaderFields> {
        if !self.known {
            return None;
        }
        Some(HeaderFields {
            hash: hash.clone(),
            number: self.number,
            epoch: EpochNumberWithFraction::from_full_value_unchecked(self.epoch),
            timestamp: PARENT_TS,
            parent_hash: Byte32::zero(),
        })
    }
}

fn mk_header(compact: u32, nonce: u128, number: u64, epoch: u64) -> HeaderView {
    // through the packed builders: core::HeaderBuilder debug-asserts a well-formed epoch
    let raw = packed::RawHeader::new_builder()
        .compact_target(compact)
        .number(number)
        .epoch(epoch)
        .timestamp(PARENT_TS + 1)
        .build();
    packed::Header::new_builder().raw(raw).nonce(nonce).build().into_view()
}

fn digest_of(header: &packed::Header) -> U256 {
    let input = ckb_pow::pow_message(&header.as_reader().calc_pow_hash(), header.nonce().into());
    let mut output = [0u8; 32];
    eaglesong::eaglesong(&input, &mut output);
    U256::from_big_endian(&output).unwrap()
}

#[allow(clippy::too_many_arguments)]
fn op_hv(out: &mut Out, consensus: &Consensus, compact: u32, nonce: u128, known: bool, pn: u64, hn: u64, pe: u64, he: u64) {
    let header = mk_header(compact, nonce, hn, he);
    let digest = digest_of(&header.data());
    let provider = Provider { known, number: pn, epoch: pe };
    let res = catch_unwind(AssertUnwindSafe(|| HeaderVerifier::new(&provider, consensus).verify(&header)));
    let ans = match &res {
        Err(_) => "fail",
        Ok(Ok(())) => "ok",
        Ok(Err(e)) => match e.downcast_ref::<HeaderError>() {
            // UnknownParentError is converted through BlockError (BlockErrorKind::UnknownParent)
            None => match e.downcast_ref::<BlockError>() {
                Some(be) if be.kind() == BlockErrorKind::UnknownParent => "unknown-parent",
                _ => "other",
            },
            Some(he) => match he.kind() {
                HeaderErrorKind::Pow => "invalid-nonce",
                HeaderErrorKind::InvalidParent => "unknown-parent",
                HeaderErrorKind::Number => "number",
                HeaderErrorKind::Epoch => match he.downcast_ref::<EpochError>() {
                    Some(EpochError::Malformed { .. }) => "epoch-malformed",
                    Some(EpochError::NonContinuous { .. }) => "epoch-noncontinuous",
                    _ => "other",
                },
                _ => "other",
            },
        },
    };
    out.op(&format!("hv {:#x} {:#x} {} {} {} {:#x} {:#x} {:#x}", compact, digest, known as u8, pn, hn, pe, he, nonce), ans);
    out.count(&format!("hv-{ans}"));
    // the property, on the implementation alone: an accepted header has digest <= a valid target, the
    // parent's number + 1, a well-formed epoch field which is the position after the parent's
    let (t, o) = compact_to_target(compact);
    let pow_ok = !t.is_zero() && !o && digest <= t;
    let (p, h) = (EpochNumberWithFraction::from_full_value_unchecked(pe), EpochNumberWithFraction::from_full_value_unchecked(he));
    let wf = h.length() > 0 && h.index() < h.length();
    let next_pos = if p.index() + 1 == p.length() { h.number() == p.number() + 1 && h.index() == 0 } else { h.number() == p.number() && h.index() == p.index() + 1 && h.length() == p.length() };
    let parent_is_marker = pe & 0x00ff_ffff_ffff_ffff == 0; // number, index, length all zero
    let should = pow_ok && known && pn.checked_add(1) == Some(hn) && wf && (parent_is_marker || next_pos);
    if (ans == "ok") != should && ans != "fail" {
        out.oracle_fail("header-accepted-iff-pow-number-epoch", &format!("answer={ans} pow_ok={pow_ok} known={known} wf={wf} next={next_pos}"));
    }
    if ans == "ok" {
        out.nontrivial(format!("{compact:#x} {he:#x}"));
    }
}

fn pack(n: u64, i: u64, l: u64) -> u64 {
    EpochNumberWithFraction::new_unchecked(n, i, l).full_value()
}

pub fn run(opts: &Opts) {
    // a panic of the code under test (u64 overflow in NumberVerifier) is an answer (`fail`)
    std::panic::set_hook(Box::new(|_| {}));
    let consensus = ConsensusBuilder::default().pow(Pow::Eaglesong).build();
    let mut out = Out::new(&opts.out);
    let rule = "header accepted by the real HeaderVerifier (Eaglesong): digest <= target, number = parent + 1, epoch field = next position";
    if let Some(rp) = &opts.replay {
        for line in read_replay_ops(rp) {
            let t: Vec<&str> = line.split_whitespace().collect();
            match t[0] {
                "case" => {
                    out.begin_case(&t[2..].join(" "));
                }
                "hv" => {
                    let p = |s: &str| u64::from_str_radix(s.trim_start_matches("0x"), if s.starts_with("0x") { 16 } else { 10 }).expect("number");
                    op_hv(&mut out, &consensus, p(t[1]) as u32, u128::from_str_radix(t[8].trim_start_matches("0x"), 16).expect("nonce"), p(t[3]) != 0, p(t[4]), p(t[5]), p(t[6]), p(t[7]));
                }
                other => panic!("unknown op {other}"),
            }
        }
        out.finish(rule);
        return;
    }
    let mut rng = Rng::new(opts.seed ^ 0x07);
    let k = opts.scale * if opts.thorough() { 100 } else { 5 };
    let mut n = 0;
    while n < 4000 * k {
        out.begin_case("headers");
        for _ in 0..500 {
            n += 1;
            // mostly huge targets so that PoW passes about half of the time
            let compact = match rng.below(10) {
                0 => 0x2100_0000 | (rng.next() as u32 & 0xffff),
                1 => 0x1f00_0000 | (rng.next() as u32 & 0xff_ffff),
                2 => (rng.range(0, 40) as u32) << 24,
                3 => 0x20ff_ffff,
                _ => 0x2000_0000 | (rng.next() as u32 & 0xff_ffff),
            };
            let nonce = ((rng.next() as u128) << 64) | rng.next() as u128;
            let known = !rng.chance(1, 12);
            let pn = if rng.chance(1, 30) { u64::MAX - rng.below(2) } else { rng.range(0, 1 << 40) };
            let hn = match rng.below(8) {
                0 => pn,
                1 => pn.wrapping_add(2),
                2 => rng.next(),
                _ => pn.wrapping_add(1),
            };
            let l = rng.range(1, 6);
            let i = rng.below(l);
            let e = rng.below(1 << 24);
            let pe = match rng.below(10) {
                0 => 0,                                   // the genesis marker (0,0,0): successor check skipped
                1 => pack(e, l, l),                       // malformed parent
                2 => rng.next(),
                _ => pack(e, i, l),
            };
            let (pnm, pi, pl) = {
                let p = EpochNumberWithFraction::from_full_value_unchecked(pe);
                (p.number(), p.index(), p.length())
            };
            let he = match rng.below(14) {
                0 => pack(pnm, pi, pl),
                1 => pack(pnm, (pi + 2) & 0xffff, pl),
                2 => pack((pnm + 1) & 0xff_ffff, 0, rng.range(1, 6)),
                3 => pack(pnm, (pi + 1) & 0xffff, pl),
                4 => pack((pnm + 1) & 0xff_ffff, 1, pl),
                5 => pack(pnm, (pi + 1) & 0xffff, (pl + 1) & 0xffff),
                6 => pack((pnm + 1) & 0xff_ffff, 0, 0),
                7 => rng.next(),
                8 => pack((pnm + 2) & 0xff_ffff, 0, pl),
                _ => {
                    // the correct next position
                    if pi + 1 == pl { pack((pnm + 1) & 0xff_ffff, 0, rng.range(1, 6)) } else { pack(pnm, (pi + 1) & 0xffff, pl) }
                }
            };
            op_hv(&mut out, &consensus, compact, nonce, known, pn, hn, pe, he);
        }
    }
    out.finish(rule);
}
