//! C07, stream `header`: the real `HeaderVerifier::verify` (PowVerifier -> parent lookup ->
//! NumberVerifier -> EpochVerifier -> TimestampVerifier) on real headers with the Eaglesong engine,
//! against the model's `headerVerify`.
//!
//!   hv <compact> <digest> <parent_known 0|1> <parent_number> <number> <parent_epoch> <epoch> <nonce>
//!        -> ok | invalid-nonce | unknown-parent | number | epoch-malformed | epoch-noncontinuous | fail
//!   ts <timestamp> <t1,t2,..>   -> ok | too-old      the TimestampVerifier inside the real HeaderVerifier:
//!        the list is the timestamps of the parent and its ancestors, most recent first (at most
//!        median_time_block_count = 37, ending at block 0 when shorter); everything else in the header valid
//!   gbe <hdr_number> <start> <len> <tu_hdr> <tu_prev> <ts_hdr> <ts_prev> -> nontail | tail <uncles> <ms> | fail
//!        the default method EpochProvider::get_block_epoch on a provider that stores exactly these values
//! The digest token is the eaglesong digest of the real header's PoW message (recomputed on replay).
//! Timestamps are kept valid (parent median time < header time <= now), so the TimestampVerifier
//! that runs last never rejects; any other error kind is reported as `other` (a model difference).
use crate::common::*;
use ckb_chain_spec::consensus::{Consensus, ConsensusBuilder};
use ckb_pow::Pow;
use ckb_traits::{BlockEpoch, EpochProvider, HeaderFields, HeaderFieldsProvider};
use ckb_types::{
    U256,
    core::{EpochNumberWithFraction, HeaderView},
    packed::{self, Byte32},
    prelude::*,
    utilities::compact_to_target,
};
use ckb_verification::{BlockError, BlockErrorKind, EpochError, HeaderError, HeaderErrorKind, HeaderVerifier};
use ckb_verification_traits::Verifier;
use std::panic::{AssertUnwindSafe, catch_unwind};

const PARENT_TS: u64 = 1_600_000_000_000;

struct Provider {
    known: bool,
    number: u64,
    epoch: u64,
}

impl HeaderFieldsProvider for Provider {
    fn get_header_fields(&self, hash: &Byte32) -> Option<HeaderFields> {
        if !self.known {
            return None;
        }
        Some(HeaderFields {
            hash: hash.clone(),
            number: self.number,
            epoch: EpochNumberWithFraction::from_full_value_unchecked(self.epoch),
            timestamp: PARENT_TS,
            parent_hash: Byte32::zero(),
        })
    }
}

fn mk_header(compact: u32, nonce: u128, number: u64, epoch: u64) -> HeaderView {
    // through the packed builders: core::HeaderBuilder debug-asserts a well-formed epoch
    let raw = packed::RawHeader::new_builder()
        .compact_target(compact)
        .number(number)
        .epoch(epoch)
        .timestamp(PARENT_TS + 1)
        .build();
    packed::Header::new_builder().raw(raw).nonce(nonce).build().into_view()
}

fn digest_of(header: &packed::Header) -> U256 {
    let input = ckb_pow::pow_message(&header.as_reader().calc_pow_hash(), header.nonce().into());
    let mut output = [0u8; 32];
    eaglesong::eaglesong(&input, &mut output);
    U256::from_big_endian(&output).unwrap()
}

#[allow(clippy::too_many_arguments)]
fn op_hv(out: &mut Out, consensus: &Consensus, compact: u32, nonce: u128, known: bool, pn: u64, hn: u64, pe: u64, he: u64) {
    let header = mk_header(compact, nonce, hn, he);
    let digest = digest_of(&header.data());
    let provider = Provider { known, number: pn, epoch: pe };
    let res = catch_unwind(AssertUnwindSafe(|| HeaderVerifier::new(&provider, consensus).verify(&header)));
    let ans = match &res {
        Err(_) => "fail",
        Ok(Ok(())) => "ok",
        Ok(Err(e)) => match e.downcast_ref::<HeaderError>() {
            // UnknownParentError is converted through BlockError (BlockErrorKind::UnknownParent)
            None => match e.downcast_ref::<BlockError>() {
                Some(be) if be.kind() == BlockErrorKind::UnknownParent => "unknown-parent",
                _ => "other",
            },
            Some(he) => match he.kind() {
                HeaderErrorKind::Pow => "invalid-nonce",
                HeaderErrorKind::InvalidParent => "unknown-parent",
                HeaderErrorKind::Number => "number",
                HeaderErrorKind::Epoch => match he.downcast_ref::<EpochError>() {
                    Some(EpochError::Malformed { .. }) => "epoch-malformed",
                    Some(EpochError::NonContinuous { .. }) => "epoch-noncontinuous",
                    _ => "other",
                },
                _ => "other",
            },
        },
    };
    out.op(&format!("hv {:#x} {:#x} {} {} {} {:#x} {:#x} {:#x}", compact, digest, known as u8, pn, hn, pe, he, nonce), ans);
    out.count(&format!("hv-{ans}"));
    // the property, on the implementation alone: an accepted header has digest <= a valid target, the
    // parent's number + 1, a well-formed epoch field which is the position after the parent's
    let (t, o) = compact_to_target(compact);
    let pow_ok = !t.is_zero() && !o && digest <= t;
    let (p, h) = (EpochNumberWithFraction::from_full_value_unchecked(pe), EpochNumberWithFraction::from_full_value_unchecked(he));
    let wf = h.length() > 0 && h.index() < h.length();
    let next_pos = if p.index() + 1 == p.length() { h.number() == p.number() + 1 && h.index() == 0 } else { h.number() == p.number() && h.index() == p.index() + 1 && h.length() == p.length() };
    let parent_is_marker = pe & 0x00ff_ffff_ffff_ffff == 0; // number, index, length all zero
    let should = pow_ok && known && pn.checked_add(1) == Some(hn) && wf && (parent_is_marker || next_pos);
    if (ans == "ok") != should && ans != "fail" {
        out.oracle_fail("header-accepted-iff-pow-number-epoch", &format!("answer={ans} pow_ok={pow_ok} known={known} wf={wf} next={next_pos}"));
    }
    if ans == "ok" {
        out.nontrivial(format!("{compact:#x} {he:#x}"));
    }
}

struct ChainProvider {
    /// ancestors, parent first: (timestamp, number)
    anc: Vec<(u64, u64)>,
}

fn anc_hash(j: usize) -> Byte32 {
    let mut b = [0u8; 32];
    b[..8].copy_from_slice(&(j as u64 + 1).to_le_bytes());
    b[31] = 0xa7;
    Byte32::from_slice(&b).unwrap()
}

impl HeaderFieldsProvider for ChainProvider {
    fn get_header_fields(&self, hash: &Byte32) -> Option<HeaderFields> {
        let j = u64::from_le_bytes(hash.as_slice()[..8].try_into().unwrap()) as usize - 1;
        let (ts, number) = *self.anc.get(j)?;
        Some(HeaderFields { hash: hash.clone(), number, epoch: EpochNumberWithFraction::from_full_value_unchecked(0), timestamp: ts, parent_hash: anc_hash(j + 1) })
    }
}

fn op_ts(out: &mut Out, consensus: &Consensus, t: u64, prev: &[u64]) {
    assert!(!prev.is_empty() && prev.len() <= consensus.median_time_block_count());
    let m = consensus.median_time_block_count();
    // shorter than the window: the oldest listed ancestor is block 0, where the walk stops
    let base = if prev.len() < m { 0 } else { 1_000 };
    let anc: Vec<(u64, u64)> = prev.iter().enumerate().map(|(j, ts)| (*ts, base + (prev.len() - 1 - j) as u64)).collect();
    let number = anc[0].1 + 1;
    let provider = ChainProvider { anc };
    let mut nonce = 0u128;
    let header = loop {
        let raw = packed::RawHeader::new_builder().compact_target(0x20ff_ffffu32).number(number).epoch(pack(0, 0, 1)).timestamp(t).parent_hash(anc_hash(0)).build();
        let h = packed::Header::new_builder().raw(raw).nonce(nonce).build();
        if consensus.pow_engine().verify(&h) {
            break h.into_view();
        }
        nonce += 1;
    };
    let res = catch_unwind(AssertUnwindSafe(|| HeaderVerifier::new(&provider, consensus).verify(&header)));
    let ans = match &res {
        Err(_) => "fail",
        Ok(Ok(())) => "ok",
        Ok(Err(e)) => match e.downcast_ref::<HeaderError>() {
            Some(he) if he.kind() == HeaderErrorKind::Timestamp && !he.is_too_new() => "too-old",
            _ => "other",
        },
    };
    let list: Vec<String> = prev.iter().map(|x| x.to_string()).collect();
    out.op(&format!("ts {} {}", t, list.join(",")), ans);
    out.count(&format!("ts-{ans}"));
    // property side: accepted iff strictly above the median (element len/2 of the sorted window)
    let mut sorted = prev.to_vec();
    sorted.sort_unstable();
    if (ans == "ok") != (t > sorted[sorted.len() / 2]) {
        out.oracle_fail("timestamp-median-rule", &format!("t={t} prev={}", list.join(",")));
    }
}

struct StatsProvider {
    epoch: ckb_types::core::EpochExt,
    hdr_hash: Byte32,
    tu_h: u64,
    tu_p: u64,
    ts_p: u64,
}

impl EpochProvider for StatsProvider {
    fn get_epoch_ext(&self, _h: &HeaderView) -> Option<ckb_types::core::EpochExt> {
        Some(self.epoch.clone())
    }
    fn get_block_hash(&self, number: u64) -> Option<Byte32> {
        if number == 0 { Some(anc_hash(7)) } else { None }
    }
    fn get_block_ext(&self, hash: &Byte32) -> Option<ckb_types::core::BlockExt> {
        let tu = if *hash == self.hdr_hash { self.tu_h } else { self.tu_p };
        Some(ckb_types::core::BlockExt { received_at: 0, total_difficulty: U256::zero(), total_uncles_count: tu, verified: None, txs_fees: vec![], cycles: None, txs_sizes: None })
    }
    fn get_block_header(&self, _hash: &Byte32) -> Option<HeaderView> {
        let raw = packed::RawHeader::new_builder().timestamp(self.ts_p).build();
        Some(packed::Header::new_builder().raw(raw).build().into_view())
    }
    // get_block_epoch: the default method under test
}

#[allow(clippy::too_many_arguments)]
fn op_gbe(out: &mut Out, genesis_epoch: bool, hn: u64, start: u64, len: u64, tu_h: u64, tu_p: u64, ts_h: u64, ts_p: u64) {
    let raw = packed::RawHeader::new_builder().number(hn).timestamp(ts_h).build();
    let header = packed::Header::new_builder().raw(raw).build().into_view();
    let epoch = ckb_types::core::EpochExt::new_builder()
        .number(if genesis_epoch { 0 } else { 3 })
        .start_number(start)
        .length(len)
        .last_block_hash_in_previous_epoch(anc_hash(7))
        .build();
    let provider = StatsProvider { epoch, hdr_hash: header.hash(), tu_h, tu_p, ts_p };
    let res = catch_unwind(AssertUnwindSafe(|| provider.get_block_epoch(&header)));
    let ans = match res {
        Err(_) => "fail".to_string(),
        Ok(None) => "none".to_string(),
        Ok(Some(BlockEpoch::NonTailBlock { .. })) => "nontail".to_string(),
        Ok(Some(BlockEpoch::TailBlock { epoch_uncles_count, epoch_duration_in_milliseconds, .. })) => format!("tail {} {}", epoch_uncles_count, epoch_duration_in_milliseconds),
    };
    let line = format!("gbe {hn} {start} {len} {tu_h} {tu_p} {ts_h} {ts_p}");
    out.op(&line, &ans);
    out.count(&format!("gbe-{}", ans.split(' ').next().unwrap()));
    let is_tail = start.checked_add(len).and_then(|s| s.checked_sub(1)) == Some(hn);
    if is_tail && tu_p <= tu_h {
        if ts_p <= ts_h {
            if ans != format!("tail {} {}", tu_h - tu_p, ts_h - ts_p) {
                out.oracle_fail("epoch-stats-wrong", &line);
            }
        } else if ans == "fail" {
            // C07: "for any previous-epoch statistics ... arithmetic stays within spec" — here the
            // duration subtraction panics instead (timestamps are only bounded below by the past median)
            out.oracle_fail("epoch-duration-underflow-panics", &format!("{line}: the epoch's last block is older than the previous epoch's last block; `header.timestamp() - prev.timestamp()` panics (traits/src/epoch_provider.rs)"));
        }
    }
}

/// timestamps of a chain (oldest first) that passes the 37-block median rule although block 337 (last of a
/// 300-block epoch) is older than block 37 (last of the previous epoch) — same list as the Lean witness
fn decreasing_epoch_end_chain() -> Vec<u64> {
    let mut v: Vec<u64> = (1..=37).collect();
    v.push(1_000_000);
    v.extend(38..=337);
    v
}

fn scenario_ts_chain(out: &mut Out, consensus: &Consensus) {
    let ts = decreasing_epoch_end_chain();
    out.begin_case("ts-chain: valid timestamps, epoch end older than previous epoch end");
    let m = consensus.median_time_block_count();
    for i in 1..ts.len() {
        let lo = i.saturating_sub(m);
        let prev: Vec<u64> = ts[lo..i].iter().rev().copied().collect();
        op_ts(out, consensus, ts[i], &prev);
    }
    // epoch k+1 = blocks 38..=337; the last block of epoch k is block 37
    op_gbe(out, false, 337, 38, 300, 0, 0, ts[337], ts[37]);
}

fn pack(n: u64, i: u64, l: u64) -> u64 {
    EpochNumberWithFraction::new_unchecked(n, i, l).full_value()
}

pub fn run(opts: &Opts) {
    // a panic of the code under test (u64 overflow in NumberVerifier) is an answer (`fail`)
    std::panic::set_hook(Box::new(|_| {}));
    let consensus = ConsensusBuilder::default().pow(Pow::Eaglesong).build();
    let mut out = Out::new(&opts.out);
    let rule = "header accepted by the real HeaderVerifier (Eaglesong): digest <= target, number = parent + 1, epoch field = next position";
    if let Some(rp) = &opts.replay {
        for line in read_replay_ops(rp) {
            let t: Vec<&str> = line.split_whitespace().collect();
            match t[0] {
                "case" => {
                    out.begin_case(&t[2..].join(" "));
                }
                "hv" => {
                    let p = |s: &str| u64::from_str_radix(s.trim_start_matches("0x"), if s.starts_with("0x") { 16 } else { 10 }).expect("number");
                    op_hv(&mut out, &consensus, p(t[1]) as u32, u128::from_str_radix(t[8].trim_start_matches("0x"), 16).expect("nonce"), p(t[3]) != 0, p(t[4]), p(t[5]), p(t[6]), p(t[7]));
                }
                "ts" => {
                    let prev: Vec<u64> = t[2].split(',').map(|x| x.parse().expect("timestamp")).collect();
                    op_ts(&mut out, &consensus, t[1].parse().expect("timestamp"), &prev);
                }
                "gbe" => {
                    let p = |s: &str| s.parse::<u64>().expect("number");
                    op_gbe(&mut out, false, p(t[1]), p(t[2]), p(t[3]), p(t[4]), p(t[5]), p(t[6]), p(t[7]));
                }
                other => panic!("unknown op {other}"),
            }
        }
        out.finish(rule);
        return;
    }
    let mut rng = Rng::new(opts.seed ^ 0x07);
    let k = opts.scale * if opts.thorough() { 100 } else { 5 };
    let mut n = 0;
    while n < 4000 * k {
        out.begin_case("headers");
        for _ in 0..500 {
            n += 1;
            // mostly huge targets so that PoW passes about half of the time
            let compact = match rng.below(10) {
                0 => 0x2100_0000 | (rng.next() as u32 & 0xffff),
                1 => 0x1f00_0000 | (rng.next() as u32 & 0xff_ffff),
                2 => (rng.range(0, 40) as u32) << 24,
                3 => 0x20ff_ffff,
                _ => 0x2000_0000 | (rng.next() as u32 & 0xff_ffff),
            };
            let nonce = ((rng.next() as u128) << 64) | rng.next() as u128;
            let known = !rng.chance(1, 12);
            let pn = if rng.chance(1, 30) { u64::MAX - rng.below(2) } else { rng.range(0, 1 << 40) };
            let hn = match rng.below(8) {
                0 => pn,
                1 => pn.wrapping_add(2),
                2 => rng.next(),
                _ => pn.wrapping_add(1),
            };
            let l = rng.range(1, 6);
            let i = rng.below(l);
            let e = rng.below(1 << 24);
            let pe = match rng.below(10) {
                0 => 0,                                   // the genesis marker (0,0,0): successor check skipped
                1 => pack(e, l, l),                       // malformed parent
                2 => rng.next(),
                _ => pack(e, i, l),
            };
            let (pnm, pi, pl) = {
                let p = EpochNumberWithFraction::from_full_value_unchecked(pe);
                (p.number(), p.index(), p.length())
            };
            let he = match rng.below(14) {
                0 => pack(pnm, pi, pl),
                1 => pack(pnm, (pi + 2) & 0xffff, pl),
                2 => pack((pnm + 1) & 0xff_ffff, 0, rng.range(1, 6)),
                3 => pack(pnm, (pi + 1) & 0xffff, pl),
                4 => pack((pnm + 1) & 0xff_ffff, 1, pl),
                5 => pack(pnm, (pi + 1) & 0xffff, (pl + 1) & 0xffff),
                6 => pack((pnm + 1) & 0xff_ffff, 0, 0),
                7 => rng.next(),
                8 => pack((pnm + 2) & 0xff_ffff, 0, pl),
                _ => {
                    // the correct next position
                    if pi + 1 == pl { pack((pnm + 1) & 0xff_ffff, 0, rng.range(1, 6)) } else { pack(pnm, (pi + 1) & 0xffff, pl) }
                }
            };
            op_hv(&mut out, &consensus, compact, nonce, known, pn, hn, pe, he);
        }
    }
    // --- timestamp rule and epoch statistics --------------------------------------------------
    out.begin_case("timestamps");
    for _ in 0..300 * k {
        let len = match rng.below(4) {
            0 => rng.range(1, 5) as usize,
            1 => 37,
            _ => rng.range(1, 37) as usize,
        };
        let base = rng.range(1_000, 1_000_000_000);
        let prev: Vec<u64> = (0..len).map(|_| if rng.chance(1, 6) { base } else { base + rng.below(50) }).collect();
        let mut sorted = prev.clone();
        sorted.sort_unstable();
        let med = sorted[len / 2];
        let t = match rng.below(5) {
            0 => med,
            1 => med + 1,
            2 => med.saturating_sub(1),
            3 => sorted[(len - 1) / 2],
            _ => base + rng.below(60),
        };
        op_ts(&mut out, &consensus, t, &prev);
    }
    out.begin_case("epoch-stats");
    for _ in 0..1000 * k {
        let len = rng.range(1, 2000);
        let start = if rng.chance(1, 20) { u64::MAX - len - rng.below(2) + 1 } else { rng.range(0, 1 << 40) };
        let tail = start.wrapping_add(len).wrapping_sub(1);
        let hn = match rng.below(5) {
            0 => tail.wrapping_sub(1),
            1 => start,
            2 => tail.wrapping_add(1),
            _ => tail,
        };
        let tu_p = rng.below(1 << 30);
        let tu_h = tu_p + if rng.chance(1, 4) { 0 } else { rng.below(4000) };
        let ts_p = rng.range(1, 1 << 41);
        let ts_h = ts_p + match rng.below(4) {
            0 => 0,
            1 => 1,
            _ => rng.below(100_000_000),
        };
        op_gbe(&mut out, rng.chance(1, 4), hn, start, len, tu_h, tu_p, ts_h, ts_p);
    }
    scenario_ts_chain(&mut out, &consensus);
    out.finish(rule);
}
