//! `vh-c07 C07 --seed N --tier quick|thorough --out DIR [--replay FILE] [--scale K] [arith|header]`
//! Correspondence harness for property C07 (own crate so that work-in-progress on other properties
//! cannot break this build).  `arith` = harness/hcore/src/c07.rs (shared by path; also reachable as
//! `vh-core C07`), `header` = src/header.rs (needs ckb-verification).
#![allow(dead_code)]
#[path = "../../hcore/src/common.rs"]
mod common;
#[path = "../../hcore/src/c07.rs"]
mod c07;
mod header;

fn main() {
    let args: Vec<String> = std::env::args().skip(1).collect();
    if args.is_empty() {
        eprintln!("usage: vh-c07 C07 --seed N --tier T --out DIR [arith|header]");
        std::process::exit(2);
    }
    let opts = common::Opts::parse(&args[1..]);
    match opts.extra.first().map(|s| s.as_str()) {
        Some("header") => header::run(&opts),
        _ => c07::run(&opts),
    }
}
