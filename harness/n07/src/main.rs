//! `vh-c07 C07 --seed N --tier quick|thorough --out DIR [--replay FILE] [--scale K] [arith|header|node]`
//! Correspondence harness for property C07 (own crate so that work-in-progress on other properties
//! cannot break this build).  `arith` = harness/hcore/src/c07.rs (shared by path; also reachable as
//! `vh-core C07`), `header` = src/header.rs (needs ckb-verification).
#![allow(dead_code)]
#[path = "../../hcore/src/common.rs"]
mod common;
#[path = "../../hcore/src/c07.rs"]
mod c07;
mod header;
#[path = "../../hnode/src/node.rs"]
pub mod node;
mod nodechain;

fn main() {
    let args: Vec<String> = std::env::args().skip(1).collect();
    if args.is_empty() {
        eprintln!("usage: vh-c07 C07 --seed N --tier T --out DIR [arith|header|node]");
        std::process::exit(2);
    }
    let opts = common::Opts::parse(&args[1..]);
    let stream = match opts.extra.first().map(|s| s.as_str()) {
        Some("header") => "header",
        Some("node") => "node",
        _ => "epoch",
    };
    // every corpus file is offered to every stream: a file declares its stream in a comment line
    // `# stream: <name>` (or bin/check's `# property C07 stream <name> ...`); foreign files are skipped
    if let Some(rp) = &opts.replay {
        let txt = std::fs::read_to_string(rp).expect("read replay");
        let declared = txt.lines().find_map(|l| {
            let l = l.trim();
            l.strip_prefix("# stream: ").map(|s| s.trim().to_string()).or_else(|| {
                l.strip_prefix("# property C07 stream ").map(|s| s.split_whitespace().next().unwrap_or("").to_string())
            })
        });
        if let Some(d) = declared {
            if d != stream {
                common::Out::new(&opts.out).finish("(corpus file of another stream: skipped)");
                return;
            }
        }
    }
    match opts.extra.first().map(|s| s.as_str()) {
        Some("header") => header::run(&opts),
        Some("node") => nodechain::run(&opts),
        _ => c07::run(&opts),
    }
}
