//! C07, stream `node`: a REAL node (full verification, dummy PoW, *non*-permanent difficulty) is fed a
//! chain spanning several epochs; the epoch field and compact target of every accepted block, and
//! the `EpochExt` stored at every epoch head, are compared with the Lean whole-chain model
//! (`chainStep`: `get_block_epoch` statistics -> `next_epoch_ext` -> `number_with_fraction`).
//!
//!   ninit <T> <initial> <halving> <ortN> <ortD> <base> <rem> <hash_rate> <len> <compact> <genesis_ts> [<secondary_epoch_reward>]   -> ok
//!   nb <number> <timestamp_ms> <uncles>   -> <epoch full value> <compact target> R <block reward> S <secondary issuance> [E <number> <base> <rem> <hr> <start> <len>]
//!        (`R`: `block_reward(number)` of the EpochExt the node stored for this block; the `E …` part at
//!         the first block of an epoch: the stored EpochExt)
//!   nback                                  -> ok     return to the branch left by the last `nrewind` (A -> B -> A'):
//!        the following `nb` lines extend the displaced branch until the node re-adopts it
//!   nrewind <k>                            -> ok     the following `nb` lines extend the branch that forks off
//!        `k` blocks below the current tip (the displaced blocks stay in the node as a side branch; the
//!        new branch's blocks are side blocks until it is heavier, then the node reorganises and verifies
//!        them all contextually; the first displaced block becomes an uncle candidate)
//!   nv <epoch full value> <compact target> -> ok | number-mismatch | target-mismatch
//!        a candidate child of the tip with these two header fields is offered to the real node
//!        (`blocking_process_block` -> `ContextualBlockVerifier` -> contextual `EpochVerifier`); the answer
//!        is the `EpochError` variant of the rejection (the tip does not move)
//! Blocks are built by `ChainBuilder` (the repo's own calculators) with timestamps and uncle counts
//! chosen here; the node's contextual `EpochVerifier` accepts them; the model is the independent
//! third party.  Variants with the target or an epoch sub-field off by one must be rejected.
//! Replay executes the `ninit` / `nb` lines literally (uncles are taken from the deterministic pool
//! of sibling blocks; a requested count that is not available is a malformed sequence).
use crate::common::*;
use crate::node::*;
use ckb_chain_spec::consensus::{Consensus, ConsensusBuilder, ProposalWindow, build_genesis_epoch_ext};
use ckb_dao_utils::genesis_dao_data;
use ckb_store::ChainStore;
use ckb_test_chain_utils::{always_success_cell, create_always_success_tx};
use ckb_types::{
    bytes::Bytes,
    core::{BlockBuilder, BlockView, Capacity, EpochNumberWithFraction, TransactionBuilder, TransactionView},
    packed::{Byte32, CellInput, CellOutput, OutPoint},
    prelude::*,
    utilities::{DIFF_TWO, compact_to_difficulty},
};
use ckb_verification::{EpochError, HeaderError};
use std::collections::HashSet;
use std::sync::Arc;

const MIN_LEN: u64 = 300;
const MAX_LEN: u64 = 1800;

#[derive(Clone, Debug)]
struct Cfg {
    t: u64,
    initial: u64,
    halving: u64,
    len0: u64,
    compact0: u32,
    sec: u64,
}

const DEFAULT_SEC: u64 = 613_698_63013698;

fn consensus_of(c: &Cfg) -> Consensus {
    let (_, _, script) = always_success_cell();
    let tx = create_always_success_tx();
    let cells: Vec<TransactionView> = (0..4u64)
        .map(|i| {
            TransactionBuilder::default()
                .input(CellInput::new(OutPoint::null(), 0))
                .output(CellOutput::new_builder().capacity(Capacity::shannons(5_000_000_000_000)).lock(script.clone()).build())
                .output_data(Bytes::from(i.to_le_bytes().to_vec()))
                .build()
        })
        .collect();
    let mut all: Vec<&TransactionView> = vec![&tx];
    all.extend(cells.iter());
    let dao = genesis_dao_data(all).unwrap();
    let genesis = BlockBuilder::default()
        .dao(dao)
        .compact_target(c.compact0)
        .epoch(EpochNumberWithFraction::new_unchecked(0, 0, 0))
        .transaction(tx)
        .transactions(cells)
        .build();
    let epoch0 = build_genesis_epoch_ext(Capacity::shannons(c.initial), c.compact0, c.len0, c.t, (1, 40));
    ConsensusBuilder::new(genesis, epoch0)
        .initial_primary_epoch_reward(Capacity::shannons(c.initial))
        .epoch_duration_target(c.t)
        .secondary_epoch_reward(Capacity::shannons(c.sec))
        .primary_epoch_reward_halving_interval(c.halving)
        .permanent_difficulty_in_dummy(false)
        .tx_proposal_window(ProposalWindow(2, 10))
        .cellbase_maturity(EpochNumberWithFraction::new(0, 0, 1))
        .build()
}

#[derive(Clone)]
struct Snap {
    tip: BlockView,
    epoch_uncles: u64,
    epoch_reward_sum: u128,
    epoch_reward_want: u128,
    epoch_blocks: u64,
    epochs_done: u64,
    epoch_sec_sum: u128,
}

/// the branch left by the last `nrewind`
struct Saved {
    at: Snap,
    snaps: Vec<Snap>,
    pool: Vec<BlockView>,
}

struct Sim {
    cfg: Cfg,
    consensus: Consensus,
    node: Node,
    builder: ChainBuilder,
    tip: BlockView,
    pool: Vec<BlockView>,
    included: HashSet<Byte32>,
    salt: u64,
    /// uncles counted in the epoch of the tip so far, and that epoch's length
    epoch_uncles: u64,
    epochs_done: u64,
    accepted: u64,
    rejected_variants: u64,
    /// primary rewards handed out in the epoch of the tip so far, and that epoch's scheduled reward
    epoch_reward_sum: u128,
    epoch_reward_want: u128,
    epoch_blocks: u64,
    /// state before each of the last blocks of the followed branch (for `nrewind`)
    snaps: Vec<Snap>,
    /// the followed branch is not (yet) the node's best chain
    forking: bool,
    reorgs: u64,
    epoch_sec_sum: u128,
    saved: Option<Saved>,
    can_switch_back: bool,
    /// number of states kept below the current fork point
    fork_base: usize,
    switch_backs: u64,
}

impl Sim {
    fn start(out: &mut Out, base: &std::path::Path, cfg: Cfg, tag: &str) -> Sim {
        let consensus = consensus_of(&cfg);
        assert!(!consensus.permanent_difficulty());
        let _ = std::fs::remove_dir_all(base.join(tag));
        let ncfg = NodeCfg { with_pool: false, ..Default::default() };
        let node = Node::start(&base.join(tag).join("node"), consensus.clone(), &ncfg);
        let builder = ChainBuilder::new(consensus.clone(), &base.join(tag).join("builder"));
        let g = consensus.genesis_block().clone();
        let e0 = consensus.genesis_epoch_ext().clone();
        let initial_want = cfg.initial as u128;
        let sec0 = cfg.sec;
        assert_eq!(consensus.secondary_epoch_reward().as_u64(), cfg.sec);
        out.begin_case(&format!("node T={} len0={} halving={}", cfg.t, cfg.len0, cfg.halving));
        out.op(
            &format!(
                "ninit {} {} {} 1 40 {} {} {:#x} {} {:#x} {} {}",
                cfg.t,
                cfg.initial,
                cfg.halving,
                e0.base_block_reward().as_u64(),
                e0.remainder_reward().as_u64(),
                e0.previous_epoch_hash_rate(),
                e0.length(),
                e0.compact_target(),
                g.timestamp(),
                cfg.sec
            ),
            "ok",
        );
        Sim { cfg, consensus, node, builder, tip: g, pool: vec![], included: HashSet::new(), salt: 0, epoch_uncles: 0, epochs_done: 0, accepted: 0, rejected_variants: 0, epoch_reward_sum: quiet_reward(&e0, 0).unwrap_or(0) as u128, epoch_reward_want: initial_want, epoch_blocks: 1, snaps: vec![], forking: false, reorgs: 0, epoch_sec_sum: quiet_sec(&e0, 0, sec0).unwrap_or(0) as u128, saved: None, can_switch_back: false, fork_base: 0, switch_backs: 0 }
    }

    /// epoch number the block after the tip will be in
    fn next_epoch_number(&self) -> u64 {
        let e = self.tip.epoch();
        if self.tip.number() == 0 {
            0
        } else if e.index() + 1 == e.length() {
            e.number() + 1
        } else {
            e.number()
        }
    }

    fn available_uncles(&self) -> Vec<BlockView> {
        let ep = self.next_epoch_number();
        let h = self.tip.number() + 1;
        self.pool.iter().filter(|u| u.epoch().number() == ep && u.number() < h && !self.included.contains(&u.hash())).cloned().collect()
    }

    /// a copy of `template` (a valid child of the tip) with the two header fields replaced is given to the
    /// node; the op line carries the rejection class.  A variant must never become the tip.  `Ok(true)`
    /// alone does not mean adopted: a block whose total difficulty does not exceed the tip's (target
    /// 0x20ffffff + 1 decodes to difficulty 0) is stored as a side block without contextual verification
    /// (counted, no op line).
    fn offer_variant(&mut self, out: &mut Out, template: &BlockView, epoch_full: u64, compact: u32, what: &str) {
        let v = template.as_advanced_builder().epoch(EpochNumberWithFraction::from_full_value_unchecked(epoch_full)).compact_target(compact).build();
        if v.hash() == template.hash() {
            return;
        }
        let r = self.node.controller().blocking_process_block(Arc::new(v.clone()));
        let adopted = self.node.tip_hash() == v.hash();
        if adopted {
            out.oracle_fail("tweaked-epoch-or-target-accepted", &format!("block {} variant {} result {:?} tip_is_variant true variant_target {:#x}", v.number(), what, r.as_ref().map_err(|e| e.to_string()), v.compact_target()));
        }
        let ans = match &r {
            _ if adopted => "ok".to_string(),
            Err(e) => match e.downcast_ref::<HeaderError>().and_then(|h| h.downcast_ref::<EpochError>()).or_else(|| e.downcast_ref::<EpochError>()) {
                Some(EpochError::NumberMismatch { .. }) => "number-mismatch".to_string(),
                Some(EpochError::TargetMismatch { .. }) => "target-mismatch".to_string(),
                Some(EpochError::Malformed { .. }) => "malformed".to_string(),
                Some(EpochError::NonContinuous { .. }) => "noncontinuous".to_string(),
                None => format!("other-error:{:?}", e.kind()),
            },
            Ok(_) => {
                self.rejected_variants += 1;
                out.count("variant-not-adopted");
                return;
            }
        };
        self.rejected_variants += 1;
        out.count("variant-rejected");
        out.count(&format!("variant-{what}"));
        out.op(&format!("nv {} {}", epoch_full, compact), &ans);
    }

    /// one block with this timestamp and exactly `nunc` uncles; `variants`: also submit off-by-one copies
    fn snap_now(&self) -> Snap {
        Snap { tip: self.tip.clone(), epoch_uncles: self.epoch_uncles, epoch_reward_sum: self.epoch_reward_sum, epoch_reward_want: self.epoch_reward_want, epoch_blocks: self.epoch_blocks, epochs_done: self.epochs_done, epoch_sec_sum: self.epoch_sec_sum }
    }

    fn restore(&mut self, sn: Snap) {
        self.tip = sn.tip;
        self.epoch_uncles = sn.epoch_uncles;
        self.epoch_reward_sum = sn.epoch_reward_sum;
        self.epoch_reward_want = sn.epoch_reward_want;
        self.epoch_blocks = sn.epoch_blocks;
        self.epochs_done = sn.epochs_done;
        self.epoch_sec_sum = sn.epoch_sec_sum;
    }

    /// A -> B -> A': return to the branch left by the last `nrewind`; it is a side branch of the node now
    /// and is extended until the node re-adopts it (its old blocks were verified before, the new ones are not)
    fn switch_back(&mut self, out: &mut Out) {
        let sv = self.saved.take().expect("malformed sequence: nback without nrewind");
        // the first block of the branch being left is an uncle candidate for the re-adopted one
        let first_of_left = if self.snaps.len() > self.fork_base + 1 { self.snaps[self.fork_base + 1].tip.clone() } else { self.tip.clone() };
        let left = Saved { at: self.snap_now(), snaps: self.snaps.clone(), pool: self.pool.clone() };
        self.restore(sv.at);
        self.snaps = sv.snaps;
        self.pool = sv.pool;
        self.pool.push(first_of_left);
        self.saved = Some(left);
        self.can_switch_back = false;
        self.forking = self.node.tip_hash() != self.tip.hash();
        self.switch_backs += 1;
        out.op("nback", "ok");
        out.count("switch-back");
    }

    /// continue on the branch forking off `k` blocks below the tip
    fn rewind(&mut self, out: &mut Out, k: usize) {
        assert!(k >= 1 && k <= self.snaps.len(), "malformed sequence: nrewind {k} with {} states kept", self.snaps.len());
        self.saved = Some(Saved { at: self.snap_now(), snaps: self.snaps.clone(), pool: self.pool.clone() });
        self.can_switch_back = true;
        let idx = self.snaps.len() - k;
        self.fork_base = idx;
        let displaced = if k >= 2 { self.snaps[idx + 1].tip.clone() } else { self.tip.clone() };
        let sn = self.snaps[idx].clone();
        self.snaps.truncate(idx);
        self.restore(sn);
        // uncle candidates whose parent is not on the new branch are useless; the first displaced block is one
        let f = self.tip.number();
        self.pool.retain(|u| u.number() <= f + 1);
        self.pool.push(displaced);
        self.forking = true;
        out.op(&format!("nrewind {k}"), "ok");
        out.count("rewind");
    }

    /// `false`: the chain cannot be continued with the shared `ChainBuilder` — the block to finalise pays less
    /// than the capacity its reward cell occupies (deep halvings of a small initial reward), a case in which
    /// the cellbase must have NO output, while the builder always writes one; nothing was submitted, no op
    /// line written, the caller ends the case
    fn step(&mut self, out: &mut Out, ts: u64, nunc: usize, variants: bool) -> bool {
        let variants = variants && !self.forking;
        let sn = self.snap_now();
        self.snaps.push(sn);
        if self.snaps.len() > 64 {
            self.snaps.remove(0);
            self.fork_base = self.fork_base.saturating_sub(1);
        }
        let avail = self.available_uncles();
        assert!(avail.len() >= nunc, "malformed sequence: {} uncles requested, {} available", nunc, avail.len());
        let uncles: Vec<BlockView> = avail.into_iter().take(nunc).collect();
        self.salt += 1;
        let parent = self.tip.clone();
        let spec = BlockSpec { uncles: uncles.iter().map(|u| u.as_uncle()).collect(), salt: self.salt, timestamp: Some(ts), ..Default::default() };
        let blk = self.builder.build(&parent.hash(), &spec);
        let number = blk.number();
        let op = format!("nb {} {} {}", number, ts, nunc);
        if let Some(o) = blk.transactions()[0].outputs().get(0) {
            if o.is_lack_of_capacity(Capacity::zero()).unwrap_or(true) {
                self.snaps.pop();
                out.count("stop-reward-below-cell-capacity");
                return false;
            }
        }
        if variants {
            let e = blk.epoch();
            let ct = blk.compact_target();
            let mut vs: Vec<(u64, u32, &str)> = vec![
                (e.full_value(), ct - 1, "target-1"),
                (e.full_value(), ct + 1, "target+1"),
                (EpochNumberWithFraction::new_unchecked(e.number(), e.index(), e.length() + 1).full_value(), ct, "length+1"),
                (EpochNumberWithFraction::new_unchecked(e.number() + 1, e.index(), e.length()).full_value(), ct, "number+1"),
                // both wrong: the epoch field is checked first
                (EpochNumberWithFraction::new_unchecked(e.number() + 1, e.index(), e.length()).full_value(), ct + 1, "both"),
                // bits above the 56 used ones are part of the compared value
                (e.full_value() | (1u64 << 56), ct, "high-bit"),
            ];
            // (HeaderBuilder debug-asserts well-formed epoch fields; malformed ones are the `header` stream's)
            if e.index() + 1 < e.length() {
                vs.push((EpochNumberWithFraction::new_unchecked(e.number(), e.index() + 1, e.length()).full_value(), ct, "index+1"));
                // the next epoch claimed one block early / the epoch not switched
                vs.push((EpochNumberWithFraction::new_unchecked(e.number() + 1, 0, e.length()).full_value(), ct, "switch-early"));
            }
            if e.length() > e.index() + 1 {
                vs.push((EpochNumberWithFraction::new_unchecked(e.number(), e.index(), e.length() - 1).full_value(), ct, "length-1"));
            }
            if e.index() == 0 && number > 1 {
                let pe = parent.epoch();
                if pe.length() > 0 {
                    // stay in the finished epoch with its target (well-formed: one more block, longer epoch)
                    vs.push((EpochNumberWithFraction::new_unchecked(pe.number(), pe.index() + 1, pe.length() + 1).full_value(), parent.compact_target(), "no-switch"));
                    // the new epoch with the old epoch's length
                    vs.push((EpochNumberWithFraction::new_unchecked(e.number(), 0, pe.length()).full_value(), ct, "old-length"));
                    // the new epoch's position with the old target
                    if parent.compact_target() != ct {
                        vs.push((e.full_value(), parent.compact_target(), "old-target"));
                    }
                }
            }
            for (ve, vc, what) in vs {
                self.offer_variant(out, &blk, ve, vc, what);
            }
        }
        let r = self.node.process(&blk);
        let is_tip = self.node.tip_hash() == blk.hash();
        if self.forking && is_tip {
            // the node reorganised onto the followed branch: every block of it passed the contextual verifier
            self.forking = false;
            self.reorgs += 1;
            out.count("reorg-adopted");
        } else if self.forking {
            out.count("side-block");
        }
        if r != Ok(true) || (!is_tip && !self.forking) {
            out.oracle_fail("valid-block-rejected", &format!("{op}: {:?}", r));
            out.op(&op, "rejected");
            panic!("node rejected a block built by the repo's own calculators: {op}: {r:?}");
        }
        self.accepted += 1;
        let e = blk.epoch();
        let head = number >= 1 && e.index() == 0 && e.number() > 0;
        let own_ext = {
            let store = self.node.store();
            let idx = store.get_block_epoch_index(&blk.hash()).expect("epoch index");
            store.get_epoch_ext(&idx).expect("epoch ext")
        };
        let reward = quiet_reward(&own_ext, number);
        let secv = quiet_sec(&own_ext, number, self.cfg.sec);
        let mut ans = format!(
            "{} {} R {} S {}",
            e.full_value(),
            blk.compact_target(),
            reward.map(|r| r.to_string()).unwrap_or_else(|| "fail".into()),
            secv.map(|r| r.to_string()).unwrap_or_else(|| "fail".into())
        );
        // property oracles on the node's accepted chain
        if !e.is_well_formed() || (parent.number() > 0 && !e.is_successor_of(parent.epoch())) {
            out.oracle_fail("epoch-fields-not-consecutive", &format!("{op}: {:#x} after {:#x}", e.full_value(), parent.epoch().full_value()));
        }
        if compact_to_difficulty(blk.compact_target()).is_zero() {
            out.oracle_fail("chain-difficulty-zero", &op);
        }
        if head {
            let store = self.node.store();
            let idx = store.get_block_epoch_index(&blk.hash()).expect("epoch index");
            let ext = store.get_epoch_ext(&idx).expect("epoch ext");
            ans.push_str(&format!(
                " E {} {} {} {:#x} {} {}",
                ext.number(),
                ext.base_block_reward().as_u64(),
                ext.remainder_reward().as_u64(),
                ext.previous_epoch_hash_rate(),
                ext.start_number(),
                ext.length()
            ));
            // (the genesis block carries the marker (0,0,0), not its epoch's length)
            let prev_len = if parent.number() == 0 { self.cfg.len0 } else { parent.epoch().length() };
            let l2 = ext.length();
            if self.epoch_uncles == 0 {
                if l2 != std::cmp::min(MAX_LEN, prev_len * 2) {
                    out.oracle_fail("chain-length-no-uncles", &format!("{op}: L={prev_len} L'={l2}"));
                }
            } else if (MIN_LEN..=MAX_LEN).contains(&prev_len) && !((MIN_LEN..=MAX_LEN).contains(&l2) && l2 >= prev_len / 2 && l2 <= prev_len * 2) {
                out.oracle_fail("chain-length-bounds", &format!("{op}: L={prev_len} L'={l2}"));
            }
            let halvings = ext.number() / self.cfg.halving;
            let want = if halvings < 64 { self.cfg.initial >> halvings } else { 0 };
            if ext.base_block_reward().as_u64() as u128 * l2 as u128 + ext.remainder_reward().as_u64() as u128 != want as u128 {
                out.oracle_fail("chain-epoch-reward-off-schedule", &format!("{op}: epoch {} base {} rem {} len {} want {}", ext.number(), ext.base_block_reward(), ext.remainder_reward(), l2, want));
            }
            if ext.start_number() != number || e.length() != l2 || ext.compact_target() != blk.compact_target() {
                out.oracle_fail("chain-epoch-ext-vs-header", &op);
            }
            // the finished epoch handed out exactly its scheduled primary reward, block by block
            if self.epoch_blocks == prev_len && self.epoch_reward_sum != self.epoch_reward_want {
                out.oracle_fail("chain-epoch-block-rewards-sum", &format!("{op}: epoch before {} of {} blocks: sum {} scheduled {}", ext.number(), prev_len, self.epoch_reward_sum, self.epoch_reward_want));
            }
            // … and exactly the consensus' secondary epoch reward
            if self.epoch_blocks == prev_len && self.epoch_sec_sum != self.cfg.sec as u128 {
                out.oracle_fail("chain-epoch-secondary-sum", &format!("{op}: epoch before {} of {} blocks: sum {} secondary_epoch_reward {}", ext.number(), prev_len, self.epoch_sec_sum, self.cfg.sec));
            }
            self.epoch_sec_sum = 0;
            self.epoch_reward_sum = 0;
            self.epoch_blocks = 0;
            self.epoch_reward_want = want as u128;
            self.epochs_done += 1;
            self.epoch_uncles = 0;
            out.count("epoch-head");
            out.nontrivial(format!("{} {} {} {}", prev_len, l2, blk.compact_target(), ext.number()));
        }
        out.op(&op, &ans);
        out.count("block");
        self.epoch_reward_sum += reward.unwrap_or(0) as u128;
        self.epoch_sec_sum += secv.unwrap_or(0) as u128;
        self.epoch_blocks += 1;
        self.epoch_uncles += nunc as u64;
        for u in uncles {
            self.included.insert(u.hash());
        }
        // a sibling of this block, usable as an uncle by later blocks of the same epoch
        let sib = blk.as_advanced_builder().timestamp(blk.timestamp() + 1).set_uncles(vec![]).build();
        self.pool.push(sib);
        // a second one: two uncles per block (max_uncles_num) is the highest orphan rate a chain can record
        let sib2 = blk.as_advanced_builder().timestamp(blk.timestamp() + 2).set_uncles(vec![]).build();
        self.pool.push(sib2);
        while self.pool.len() > 96 {
            self.pool.remove(0);
        }
        self.tip = blk;
        true
    }

    fn finish(mut self) {
        self.builder.cleanup();
        let dir = self.node.dir.clone();
        self.node.stop();
        let _ = std::fs::remove_dir_all(dir);
    }
}

fn quiet_reward(ext: &ckb_types::core::EpochExt, number: u64) -> Option<u64> {
    std::panic::catch_unwind(std::panic::AssertUnwindSafe(|| ext.block_reward(number).ok().map(|c| c.as_u64()))).ok().flatten()
}

fn quiet_sec(ext: &ckb_types::core::EpochExt, number: u64, sec: u64) -> Option<u64> {
    std::panic::catch_unwind(std::panic::AssertUnwindSafe(|| ext.secondary_block_issuance(number, Capacity::shannons(sec)).ok().map(|c| c.as_u64()))).ok().flatten()
}

/// per-epoch behaviour of the generated chain
#[derive(Clone, Copy, Debug)]
struct Policy {
    /// milliseconds between blocks
    dt: u64,
    /// uncles: attach up to `unc_n` every `unc_every` blocks (0 = never)
    unc_every: u64,
    unc_n: usize,
}

fn gen_policy(rng: &mut Rng, cfg: &Cfg, len: u64) -> Policy {
    let ideal = (cfg.t * 1000 / len.max(1)).max(1);
    let dt = match rng.below(8) {
        0 => 1,
        1 => ideal / 4 + 1,
        2 => ideal * 4,
        3 => ideal * 2,
        4 => ideal / 2 + 1,
        5 => rng.range(1, ideal * 3),
        _ => ideal,
    };
    let (unc_every, unc_n) = match rng.below(7) {
        0 | 1 => (0, 0),
        2 => (40, 1),
        3 => (1, 2),
        4 => (rng.range(2, 60), 1),
        5 => (len.max(2) - 1, 1), // a single uncle in the whole epoch
        _ => (rng.range(5, 30), 2),
    };
    Policy { dt, unc_every, unc_n }
}

fn run_generated(out: &mut Out, rng: &mut Rng, base: &std::path::Path, cfg: Cfg, max_blocks: u64, min_epochs: u64, tag: &str) -> (u64, u64, u64) {
    let mut sim = Sim::start(out, base, cfg.clone(), tag);
    let mut policy = gen_policy(rng, &cfg, cfg.len0);
    let mut ts = sim.tip.timestamp();
    let mut n = 0;
    while n < max_blocks && (sim.epochs_done < min_epochs || n < max_blocks / 2) {
        n += 1;
        let e = sim.tip.epoch();
        let new_epoch = sim.tip.number() > 0 && e.index() + 1 == e.length();
        if new_epoch {
            // the length of the coming epoch is not known yet: use the current one for the pace
            policy = gen_policy(rng, &cfg, e.length());
        }
        let in_epoch_pos = if sim.tip.number() == 0 || new_epoch { 0 } else { e.index() + 1 };
        // fork episodes: leave the best chain a few blocks below the tip — preferably below an epoch
        // boundary just crossed, so that the new branch ends the epoch with other statistics — and go on
        // with another pace / uncle policy until the node has reorganised onto the new branch
        // A -> B -> A': once the node has adopted the new branch, half of the time go back to the displaced
        // one and extend it until the node re-adopts it
        if !sim.forking && sim.can_switch_back {
            if rng.chance(1, 2) {
                sim.switch_back(out);
                ts = sim.tip.timestamp();
                policy = gen_policy(rng, &cfg, sim.tip.epoch().length().max(1));
                continue;
            }
            sim.can_switch_back = false;
        }
        if !sim.forking && !sim.snaps.is_empty() && sim.tip.number() > 0 && ((!new_epoch && e.number() > 0 && e.index() < 3 && rng.chance(1, 2)) || rng.chance(1, 50)) {
            let k = (rng.range(1, 6) as usize).min(sim.snaps.len());
            sim.rewind(out, k);
            ts = sim.tip.timestamp();
            policy = gen_policy(rng, &cfg, sim.tip.epoch().length().max(1));
            continue;
        }
        ts += if rng.chance(1, 10) { rng.range(1, policy.dt * 2) } else { policy.dt };
        let want = if policy.unc_every > 0 && in_epoch_pos % policy.unc_every == policy.unc_every - 1 { policy.unc_n } else { 0 };
        let nunc = want.min(sim.available_uncles().len());
        // variants around epoch boundaries and now and then
        let variants = new_epoch || in_epoch_pos + 1 == e.length() || rng.chance(1, 40);
        if !sim.step(out, ts, nunc, variants) {
            break;
        }
    }
    // a fork episode still open at the end: extend until the node has adopted the branch (bounded)
    let mut extra = 0;
    while sim.forking && extra < 40 {
        extra += 1;
        ts += policy.dt;
        if !sim.step(out, ts, 0, false) {
            break;
        }
    }
    if sim.forking {
        out.count("fork-not-adopted");
    }
    out.extra.insert("switch_backs".into(), (out.extra.get("switch_backs").and_then(|v| v.as_u64()).unwrap_or(0) + sim.switch_backs).into());
    out.extra.insert("reorgs".into(), (out.extra.get("reorgs").and_then(|v| v.as_u64()).unwrap_or(0) + sim.reorgs).into());
    let r = (sim.accepted, sim.rejected_variants, sim.epochs_done);
    sim.finish();
    r
}

fn parse_u(s: &str) -> u64 {
    if let Some(h) = s.strip_prefix("0x") { u64::from_str_radix(h, 16).expect("hex") } else { s.parse().expect("number") }
}

pub fn run(opts: &Opts) {
    let base = scratch_dir(&opts.out, "c07-node");
    let mut out = Out::new(&opts.out);
    let rule = "a completed epoch transition on a real node (fingerprint: previous length, next length, next compact target, epoch number)";
    if let Some(rp) = &opts.replay {
        let mut sim: Option<Sim> = None;
        let mut k = 0;
        for line in read_replay_ops(rp) {
            let t: Vec<&str> = line.split_whitespace().collect();
            match t[0] {
                "case" => {}
                "ninit" => {
                    if let Some(s) = sim.take() {
                        s.finish();
                    }
                    k += 1;
                    let cfg = Cfg { t: parse_u(t[1]), initial: parse_u(t[2]), halving: parse_u(t[3]), len0: parse_u(t[9]), compact0: parse_u(t[10]) as u32, sec: if t.len() > 12 { parse_u(t[12]) } else { DEFAULT_SEC } };
                    sim = Some(Sim::start(&mut out, &base, cfg, &format!("replay{k}")));
                }
                "nb" => {
                    let s = sim.as_mut().expect("ninit first");
                    assert_eq!(parse_u(t[1]), s.tip.number() + 1, "malformed sequence: block numbers must be consecutive");
                    assert!(s.step(&mut out, parse_u(t[2]), parse_u(t[3]) as usize, false), "malformed sequence: the block's finalisation reward is below the capacity of its reward cell");
                }
                "nback" => {
                    let s = sim.as_mut().expect("ninit first");
                    s.switch_back(&mut out);
                }
                "nrewind" => {
                    let s = sim.as_mut().expect("ninit first");
                    s.rewind(&mut out, parse_u(t[1]) as usize);
                }
                "nv" => {
                    let s = sim.as_mut().expect("ninit first");
                    s.salt += 1;
                    let parent = s.tip.clone();
                    let spec = BlockSpec { salt: s.salt, timestamp: Some(parent.timestamp() + 1), ..Default::default() };
                    let cand = s.builder.build(&parent.hash(), &spec);
                    s.offer_variant(&mut out, &cand, parse_u(t[1]), parse_u(t[2]) as u32, "replay");
                }
                other => panic!("unknown op {other}"),
            }
        }
        if let Some(s) = sim.take() {
            s.finish();
        }
        let _ = std::fs::remove_dir_all(&base);
        out.finish(rule);
        return;
    }
    let mut rng = Rng::new(opts.seed ^ 0x0707);
    let initial = 1_917_808_21917808u64;
    let mut plans: Vec<(Cfg, u64, u64)> = vec![
        // tiny genesis epoch: lengths double while there are no uncles, jump to the consensus minimum with uncles
        (Cfg { t: 32, initial, halving: 3, len0: 4, compact0: DIFF_TWO, sec: 4_999 }, 420, 5),
        // realistic: 150 -> 300 -> [300, 600] ...
        (Cfg { t: 1200, initial, halving: 2, len0: 150, compact0: 0x2001_0000, sec: DEFAULT_SEC }, 1100, 3),
    ];
    // many short chains from tiny genesis epochs: most epoch transitions per block
    for _ in 0..(if opts.thorough() { 16 } else { 3 }) * opts.scale {
        let len0 = rng.range(1, 9);
        let t = *rng.pick(&[len0 * 8, len0, 1, 14_400]);
        plans.push((Cfg { t, initial: if rng.chance(1, 2) { initial } else { rng.range(1, 1 << 50) }, halving: rng.range(1, 4), len0, compact0: *rng.pick(&[DIFF_TWO, 0x2001_0000, 0x1a08_a8b1]), sec: *rng.pick(&[DEFAULT_SEC, 0, 1, 7, 1799, 1800, 1801, u32::MAX as u64]) }, 260, 40));
    }
    if opts.thorough() {
        for i in 0..(3 * opts.scale) {
            let len0 = *rng.pick(&[1u64, 2, 7, 60, 150, 299, 300, 450, 900]);
            let t = *rng.pick(&[len0 * 8, len0 * 2 + 1, 14_400, 60]);
            plans.push((Cfg { t, initial: if i % 2 == 0 { initial } else { rng.range(1, 1 << 50) }, halving: rng.range(1, 4), len0, compact0: *rng.pick(&[DIFF_TWO, 0x2001_0000, 0x1f00_ffff]), sec: if i % 3 == 0 { rng.range(0, 5000) } else { DEFAULT_SEC } }, 2600, 4));
        }
    } else {
        for _ in 1..opts.scale {
            let len0 = *rng.pick(&[2u64, 7, 60, 150]);
            plans.push((Cfg { t: len0 * 8, initial, halving: rng.range(1, 4), len0, compact0: DIFF_TWO, sec: DEFAULT_SEC }, 700, 3));
        }
    }
    let (mut acc, mut rej, mut eps) = (0, 0, 0);
    for (i, (cfg, max_blocks, min_epochs)) in plans.into_iter().enumerate() {
        let (a, r, e) = run_generated(&mut out, &mut rng, &base, cfg, max_blocks, min_epochs, &format!("gen{i}"));
        acc += a;
        rej += r;
        eps += e;
    }
    out.extra.insert("blocks_accepted".into(), acc.into());
    out.extra.insert("variants_rejected".into(), rej.into());
    out.extra.insert("epoch_transitions".into(), eps.into());
    let _ = std::fs::remove_dir_all(&base);
    out.finish(rule);
}
