//! C10 — freezing old blocks is invisible to every chain query and survives restarts.
//!
//! A real node with a freezer ("ancient") directory is fed chains of >= 4 short epochs with
//! transactions, uncles, proposals and side branches at heights that get frozen (the history part
//! reuses the C02 executor and generator).  `Shared::verif_freeze_once` (verif-hooks) runs one
//! freezer pass synchronously.  The full accessor list of the property is evaluated
//!   * cold (right after a restart, so no store cache entry exists): printed as the `query` answer
//!     and compared with the Lean model (`Model/Freeze.lean`),
//!   * warm right after the freeze pass,
//! and — the oracle, on the implementation alone — every answer about a main-chain block or
//! transaction must be byte-identical before the freeze, after it (warm), and after a restart; a
//! block looked up by hash must never come back as a different block; the freezer may only
//! advance contiguously and only below the last block of epoch cur-2; only side-chain blocks at
//! frozen heights may lose their header.
//!
//! extra ops (on top of the C02 ops cfg/gtx/genesis/tx/block):
//!   freeze            => ok <freezer.number> | panic | err
//!   restart           => ok <freezer.number>
//!   freeze cold       => the same pass, but the accessors are not evaluated before it (store caches
//!                        stay as cold as they were: the first reads after the wipe go to the rows)
//!   query             => frozen=<n> tip=<id> b<id>:<HBTCUPXKRDM> ... t<id>:<W> ...
//!                        H get_block_header, B get_block, T len(get_block_body), C get_cellbase,
//!                        U get_block_uncles, P get_block_proposal_txs_ids, X get_block_extension,
//!                        K get_packed_block, R raw COLUMN_BLOCK_HEADER row (get_packed_block_header,
//!                        never cached), D the extension through the DataLoader of the snapshot (what
//!                        the load_block_extension syscall calls), M main/side
//!   crashfreeze       => ok   (oracle only: a child process runs the pass on copies of the node
//!                              directory and is aborted before/after each of the pass's database
//!                              writes — `VERIF_CRASH_AT` of the ckb-db hook; every crashed copy is
//!                              reopened, queried, and must finish the pass like the crash-free run)
//!   fzmax <bytes>     => ok   (the freezer's data-file size limit, hook `Freezer::verif_set_limits`,
//!                              applied after every start of the node of this case, of the crash
//!                              children and of the crash copies: a few hundred bytes to a few kB make
//!                              the head file roll over every 1-3 blocks)
//!   cutsnap           => ok   (oracle only: restart, record the cold answers, copy the node
//!                              directory — RocksDB + ancient — as it is BEFORE the next pass)
//!   cutcheck <seed> <level> => ok (oracle only, see `cut_check`: crashes INSIDE the freezer's file
//!                              writes of the pass that followed `cutsnap`, at file granularity;
//!                              level 0: 6 prioritised cut states per pass, 2: 16, 1: all of them)
//!   cutcont <j> <state> <limit> => <freezer.number after the re-open> <after the recovery pass> <=|!>
//!                              (emitted by `cutcheck`, one line per crash state, compared with the
//!                              combined model: Model/FreezeCont.lean `cutAt` rebuilds the state on the
//!                              model's own files; <state>: D data written / index entry not, E rolled
//!                              over / new head empty, N nothing written, P partial data, I<t> t of 12
//!                              index bytes, X0 / Xh / Xm index entry on disk with none / half of the
//!                              data / the file missing, W0 / Wh the item BEFORE it lost all / half of
//!                              its data as well (power loss over a rollover), C complete; <limit>: the
//!                              data-file limit of the recovery pass — same (the case's), exact (the next
//!                              item exactly fits into the re-opened head file), two (the next two do);
//!                              `=`: every accessor answered every main-chain block as before the pass)
//!
//!   freeze bare       => the same pass, no accessor evaluated before OR after it (the store caches hold
//!                        exactly what `prime` read since the last restart)
//!   prime <id> <accs> => ok   (reads block <id> through the store caches, one call per letter: H
//!                              get_block_header, U get_block_uncles, P get_block_proposal_txs_ids, X
//!                              get_block_txs_hashes, E get_block_extension, B get_block, K
//!                              get_packed_block, T get_block_body, C get_cellbase)
//!   probe <id>        => p<id>:<B><H><C><U><P><E><K> t<n> x<n>  (all nine accessors WARM, get_block first;
//!                              compared with Model/FreezeCache.lean — see `C10::probe`)
//!   users             => bp=<proved>/<missing> tp=<filtered blocks>/<txs> flt=<blocks with a filter>
//!                              (light-client server GetBlocksProof / GetTransactionsProof and the
//!                              block-filter builder on the node as it is — see `C10::users`)
//!
//! ## Write order of `Shared::freeze` (shared/src/shared.rs) and the crash states it allows
//!
//!   1. `Freezer::freeze`: for every height `number .. threshold`: `FreezerFiles::append` =
//!      [rollover: `open_truncated(head_id+1)` creates/empties the next `blkNNNNNN`, the old head is
//!      re-opened read-only] -> `Head::write` (data bytes at the end of the head file) ->
//!      `write_index` (12 bytes at the end of INDEX); nothing is fsynced between two appends;
//!   2. after the last append: `sync_all` (head file, then INDEX);
//!   3. `wipe_out_frozen_data`: ONE RocksDB batch deleting the body rows of every block the call
//!      froze (`write_sync`), then `compact_range`;
//!   4. a second batch deleting the side-chain blocks at those heights (`write`), then `compact_range`.
//!
//! So a crash leaves either (a) the RocksDB state of BEFORE step 3 together with ANY state of the
//! freezer files that step 1 can have reached — every prefix of the appends, the append in flight
//! with its data and its index entry cut at any byte (a process crash leaves data-before-index, a
//! power loss before step 2 may also leave index-before-data), incl. "data written / index not
//! written on the first item of a NEW file" and "rolled over, new head still empty" — or (b) the
//! complete, synced freezer files with the RocksDB state before step 3 / between 3 and 4 / after 4.
//! `crashfreeze` enumerates (b) and the prefixes of (a) that fall on a RocksDB commit; `cutcheck`
//! materialises (a): the freezer directory of the finished pass is cut back to each such state and
//! combined with the RocksDB copy taken BEFORE the pass.  A cut freezer is never combined with a
//! RocksDB state in which step 3 of the same pass has happened (the write order forbids it: step 2
//! comes first; rolled-over data files of the same pass are assumed to reach the disk with it).
#[path = "../../n02/src/c02.rs"]
#[allow(dead_code)]
mod c02;
use crate::common::*;
use c02::{Exec, Gen};
use ckb_store::{ChainDB, ChainStore};
use ckb_types::packed::Byte32;
use ckb_types::prelude::*;
use std::collections::BTreeMap;
use std::panic::{AssertUnwindSafe, catch_unwind};

fn h8(b: &[u8]) -> String {
    hex(&ckb_hash::blake2b_256(b)[..8])
}

fn flag(b: bool) -> char {
    if b { '1' } else { '0' }
}

/// (model line, exact answers keyed by "<accessor>:<kind><id>")
fn eval(ex: &Exec) -> (String, BTreeMap<String, String>) {
    let node = ex.node.as_ref().unwrap();
    let store: &ChainDB = node.store();
    let mut exact = BTreeMap::new();
    let mut parts = vec![];
    // answers whose content is not the content of the block asked for (reported under the key "!wrong")
    let mut wrong: Vec<String> = vec![];
    let snapshot = node.shared.snapshot();
    let frozen = store.freezer().map(|f| f.number()).unwrap_or(0);
    let tip = store.get_tip_header().expect("tip");
    parts.push(format!("frozen={}", frozen));
    parts.push(format!("tip={}", ex.ids.blk[&tip.hash()]));
    let mut bids: Vec<u64> = ex.ids.blkv.keys().cloned().collect();
    bids.sort();
    for id in bids {
        let orig = &ex.ids.blkv[&id];
        let h: Byte32 = orig.hash();
        let hdr = store.get_block_header(&h);
        let main = store.get_block_number(&h).is_some();
        let b = match catch_unwind(AssertUnwindSafe(|| store.get_block(&h))) {
            Ok(Some(b)) => {
                exact.insert(format!("get_block:b{}", id), h8(b.data().as_slice()));
                if b.hash() == h && b.data().as_slice() == orig.data().as_slice() { '=' } else { '!' }
            }
            Ok(None) => {
                exact.insert(format!("get_block:b{}", id), "none".into());
                '-'
            }
            Err(_) => {
                exact.insert(format!("get_block:b{}", id), "panic".into());
                'P'
            }
        };
        exact.insert(format!("get_block_header:b{}", id), hdr.as_ref().map(|x| h8(x.data().as_slice())).unwrap_or("none".into()));
        // the raw header row (no cache in front of it)
        let raw = store.get_packed_block_header(&h);
        exact.insert(format!("get_packed_block_header:b{}", id), raw.as_ref().map(|x| h8(x.as_slice())).unwrap_or("none".into()));
        if let Some(r) = &raw {
            if r.as_slice() != orig.header().data().as_slice() {
                wrong.push(format!("get_packed_block_header:b{}", id));
            }
        }
        let body = store.get_block_body(&h);
        exact.insert(format!("get_block_body:b{}", id), format!("{}/{}", body.len(), h8(&body.iter().flat_map(|t| t.hash().as_slice().to_vec()).collect::<Vec<u8>>())));
        if !body.is_empty() && body.iter().map(|t| t.data().as_slice().to_vec()).collect::<Vec<_>>() != orig.transactions().iter().map(|t| t.data().as_slice().to_vec()).collect::<Vec<_>>() {
            wrong.push(format!("get_block_body:b{}", id));
        }
        let txh = store.get_block_txs_hashes(&h);
        exact.insert(format!("get_block_txs_hashes:b{}", id), format!("{}/{}", txh.len(), h8(&txh.iter().flat_map(|t| t.as_slice().to_vec()).collect::<Vec<u8>>())));
        if !txh.is_empty() && txh != orig.tx_hashes().to_vec() {
            wrong.push(format!("get_block_txs_hashes:b{}", id));
        }
        // (a side block that was just wiped may still answer its tx hashes from the store cache:
        // caches outlive deletes; judged only while the raw header row is there)
        if raw.is_some() && txh.len() != body.len() {
            wrong.push(format!("get_block_txs_hashes-vs-body:b{}", id));
        }
        let cb = store.get_cellbase(&h);
        let c = match &cb {
            Some(t) if t.hash() == orig.transactions()[0].hash() => '1',
            Some(_) => '!',
            None => '0',
        };
        if c == '!' {
            wrong.push(format!("get_cellbase:b{}", id));
        }
        exact.insert(format!("get_cellbase:b{}", id), cb.map(|t| h8(t.data().as_slice())).unwrap_or("none".into()));
        let un = store.get_block_uncles(&h);
        exact.insert(format!("get_block_uncles:b{}", id), un.as_ref().map(|u| h8(u.data().as_slice())).unwrap_or("none".into()));
        if un.as_ref().map(|u| u.data().as_slice() != orig.uncles().data().as_slice()).unwrap_or(false) {
            wrong.push(format!("get_block_uncles:b{}", id));
        }
        let pr = store.get_block_proposal_txs_ids(&h);
        exact.insert(format!("get_block_proposal_txs_ids:b{}", id), pr.as_ref().map(|u| h8(u.as_slice())).unwrap_or("none".into()));
        if pr.as_ref().map(|u| u.as_slice() != orig.data().proposals().as_slice()).unwrap_or(false) {
            wrong.push(format!("get_block_proposal_txs_ids:b{}", id));
        }
        let xt = store.get_block_extension(&h);
        exact.insert(format!("get_block_extension:b{}", id), xt.as_ref().map(|u| h8(u.as_slice())).unwrap_or("none".into()));
        if xt.as_ref().map(|u| Some(u.as_slice()) != orig.extension().as_ref().map(|e| e.as_slice())).unwrap_or(false) {
            wrong.push(format!("get_block_extension:b{}", id));
        }
        // what a script sees: the load_block_extension syscall calls ExtensionProvider::get_block_extension
        // of the snapshot's data loader
        let dl = {
            use ckb_traits::ExtensionProvider;
            snapshot.borrow_as_data_loader().get_block_extension(&h)
        };
        exact.insert(format!("data_loader.get_block_extension:b{}", id), dl.as_ref().map(|u| h8(u.as_slice())).unwrap_or("none".into()));
        if dl.as_ref().map(|u| Some(u.as_slice()) != orig.extension().as_ref().map(|e| e.as_slice())).unwrap_or(false) {
            wrong.push(format!("data_loader.get_block_extension:b{}", id));
        }
        let pk = store.get_packed_block(&h);
        let k = match &pk {
            Some(p) if p.as_slice() == orig.data().as_slice() => '=',
            Some(_) => '!',
            None => '-',
        };
        if k == '!' {
            wrong.push(format!("get_packed_block:b{}", id));
        }
        exact.insert(format!("get_packed_block:b{}", id), pk.map(|p| h8(p.as_slice())).unwrap_or("none".into()));
        if main {
            let anc = store.get_ancestor(&tip.hash(), orig.number()).map(|x| x.hash() == h).unwrap_or(false);
            exact.insert(format!("get_ancestor:b{}", id), format!("{}", anc));
        }
        parts.push(format!("b{}:{}{}{}{}{}{}{}{}{}{}{}", id, flag(hdr.is_some()), b, body.len(), c, flag(un.is_some()), flag(pr.is_some()), flag(xt.is_some()), k, flag(raw.is_some()), flag(dl.is_some()), if main { 'm' } else { 's' }));
    }
    let mut tids: Vec<u64> = ex.ids.txv.keys().cloned().collect();
    tids.sort();
    for id in tids {
        let t = &ex.ids.txv[&id];
        let info = store.get_transaction_info(&t.hash());
        if let Some(info) = info {
            let w = match catch_unwind(AssertUnwindSafe(|| store.get_transaction(&t.hash()))) {
                Ok(Some((tx, bh))) => {
                    exact.insert(format!("get_transaction:t{}", id), format!("{}@{}", h8(tx.data().as_slice()), h8(bh.as_slice())));
                    if tx.hash() == t.hash() && bh == info.block_hash { '=' } else { '!' }
                }
                Ok(None) => {
                    exact.insert(format!("get_transaction:t{}", id), "none".into());
                    '-'
                }
                Err(_) => {
                    exact.insert(format!("get_transaction:t{}", id), "panic".into());
                    'P'
                }
            };
            exact.insert(format!("get_transaction_info:t{}", id), format!("{}/{}/{}", h8(info.block_hash.as_slice()), info.block_number, info.index));
            let wi = catch_unwind(AssertUnwindSafe(|| store.get_transaction_with_info(&t.hash())));
            exact.insert(
                format!("get_transaction_with_info:t{}", id),
                match wi {
                    Ok(Some((tx, i2))) => {
                        if tx.data().as_slice() != t.data().as_slice() || i2.block_hash != info.block_hash || i2.index != info.index || i2.block_number != info.block_number {
                            wrong.push(format!("get_transaction_with_info:t{}", id));
                        }
                        format!("{}@{}/{}/{}", h8(tx.data().as_slice()), h8(i2.block_hash.as_slice()), i2.block_number, i2.index)
                    }
                    Ok(None) => "none".into(),
                    Err(_) => "panic".into(),
                },
            );
            if w == '!' {
                wrong.push(format!("get_transaction:t{}", id));
            }
            parts.push(format!("t{}:{}", id, w));
        }
    }
    // live cells (never touched by the freezer)
    let d = c02::dump(store, &ex.ids, &node.consensus.genesis_block().difficulty());
    exact.insert("live-cells:all".into(), h8(d.line().as_bytes()));
    if !wrong.is_empty() {
        exact.insert("!wrong:all".into(), wrong.join(","));
    }
    (parts.join(" "), exact)
}

struct C10<'a> {
    ex: Exec<'a>,
    /// answers about main-chain blocks/txs recorded before the first freeze pass touched them
    baseline: BTreeMap<String, String>,
    frozen_seen: u64,
    /// a pass ran since the last restart (store caches may hold rows that are deleted by now)
    warm: bool,
    /// this case contains a reorganisation whose fork point lies below the frozen height (known
    /// finding F21: the freezer is never truncated): `Some(description)`; from then on every oracle
    /// failure of the case is reported under the single class `deep-reorg-below-frozen-height`
    deep: Option<String>,
    /// `fzmax`: data-file size limit of the freezer of this case (None = the builder default, 2 GB)
    fzmax: Option<u64>,
    /// block ids in the order they were delivered to the node
    delivered: Vec<u64>,
    /// `cutsnap`: the state before a pass (directory copy, cold answers, freezer.number, number of
    /// blocks delivered so far)
    snap: Option<CutSnap>,
    /// `cutcont` lines (op, answer) of the crash states of the last `cutcheck`
    cutlines: Vec<(String, String)>,
}

struct CutSnap {
    dir: std::path::PathBuf,
    exact: BTreeMap<String, String>,
    frozen_before: u64,
    n_delivered: usize,
}

pub const DEEP_CLASS: &str = "deep-reorg-below-frozen-height";

/// every oracle failure of this module; after a reorg below the frozen height (F21) all failures of
/// the case — the wrong transactions themselves and the pairwise before/after artifacts of the reorg
/// (the same cellbase now sits in another block) — are one class
fn fail(out: &mut Out, deep: &Option<String>, class: &str, detail: &str) {
    match deep {
        Some(d) => out.oracle_fail(DEEP_CLASS, &format!("[{}] {}: {}", d, class, detail)),
        None => out.oracle_fail(class, detail),
    }
}

impl C10<'_> {
    /// a `block` op: apply it, and detect a reorganisation whose fork point (the common ancestor of
    /// the old and the new tip) lies below the last frozen block
    fn apply_block(&mut self, line: &str) {
        let old_tip = self.ex.tip_id();
        self.ex.apply(line);
        self.note_delivered();
        self.note_reorg(old_tip);
    }

    fn note_delivered(&mut self) {
        let mut ids: Vec<u64> = self.ex.ids.blkv.keys().cloned().filter(|i| *i != 0 && !self.delivered.contains(i)).collect();
        ids.sort();
        self.delivered.extend(ids);
    }

    /// apply `fzmax` to the freezer of the running node (after every start)
    fn set_limits(&self) {
        if let Some(n) = self.ex.node.as_ref() {
            set_limits(n, self.fzmax);
        }
    }

    fn reset_case(&mut self) {
        self.baseline.clear();
        self.frozen_seen = 0;
        self.warm = false;
        self.deep = None;
        self.fzmax = None;
        self.delivered.clear();
        if let Some(s) = self.snap.take() {
            let _ = std::fs::remove_dir_all(&s.dir);
        }
    }

    /// generator side of `apply_block` (`Gen::build` emits its lines through the C02 executor)
    fn build(&mut self, g: &mut Gen, rng: &mut Rng, parent: u64, busy: bool) -> u64 {
        let old_tip = self.ex.tip_id();
        let id = g.build(&mut self.ex, rng, parent, busy);
        self.note_delivered();
        self.note_reorg(old_tip);
        id
    }

    fn note_reorg(&mut self, old_tip: u64) {
        let new_tip = self.ex.tip_id();
        if new_tip == old_tip || self.ex.ablocks.get(&new_tip).map(|b| b.parent) == Some(old_tip) {
            return;
        }
        // walk both tips back to the common ancestor
        let (mut a, mut b) = (old_tip, new_tip);
        let num = |ex: &Exec, x: u64| ex.ablocks.get(&x).map(|y| y.number).unwrap_or(0);
        while a != b {
            if num(&self.ex, a) >= num(&self.ex, b) && a != 0 {
                a = self.ex.ablocks[&a].parent;
            } else if b != 0 {
                b = self.ex.ablocks[&b].parent;
            } else {
                break;
            }
        }
        let fork = num(&self.ex, a);
        let frozen = self.ex.node.as_ref().and_then(|n| n.store().freezer().map(|f| f.number())).unwrap_or(0);
        self.ex.out.count("reorg");
        // heights 1 .. frozen-1 are in the freezer: the reorg replaces frozen heights iff fork + 1 < frozen
        if frozen > 1 && fork + 1 < frozen {
            self.ex.out.count("reorg_below_frozen_height");
            if self.deep.is_none() {
                self.deep = Some(format!("reorg to b{} forks at height {} below freezer.number {}", new_tip, fork, frozen));
            }
        }
    }

    fn main_keys(&self) -> Vec<String> {
        // keys whose subject is on the main chain now
        let store = self.ex.node.as_ref().unwrap().store();
        let mut v = vec![];
        for (id, b) in self.ex.ids.blkv.iter() {
            if store.get_block_number(&b.hash()).is_some() {
                v.push(format!("b{}", id));
            }
        }
        for (id, t) in self.ex.ids.txv.iter() {
            if store.get_transaction_info(&t.hash()).is_some() {
                v.push(format!("t{}", id));
            }
        }
        v
    }

    /// pairwise oracle: every answer about a main-chain subject equals the first answer ever given;
    /// a side-chain block answers the same until its header is removed, and then (cold) answers
    /// nothing at all and sits at a frozen height; no answer ever carries another block's content
    fn check(&mut self, exact: &BTreeMap<String, String>, when: &str) {
        const PART: [&str; 8] = ["get_block_body", "get_block_txs_hashes", "get_cellbase", "get_block_uncles", "get_block_proposal_txs_ids", "get_block_extension", "get_packed_block", "data_loader.get_block_extension"];
        // by-hash accessors: their answers do not depend on which branch is the main chain
        const BY_HASH: [&str; 11] = ["get_block", "get_block_header", "get_packed_block_header", "get_block_body", "get_block_txs_hashes", "get_cellbase", "get_block_uncles", "get_block_proposal_txs_ids", "get_block_extension", "get_packed_block", "data_loader.get_block_extension"];
        let subjects: std::collections::HashSet<String> = self.main_keys().into_iter().collect();
        let frozen = self.ex.node.as_ref().unwrap().store().freezer().map(|f| f.number()).unwrap_or(0);
        if let Some(w) = exact.get("!wrong:all") {
            fail(&mut *self.ex.out, &self.deep, "answer-has-another-blocks-content", &format!("({}) {}", when, w));
        }
        for (k, v) in exact {
            let (acc, subj) = k.split_once(':').unwrap();
            if acc == "!wrong" {
                continue;
            }
            if !subjects.contains(subj) {
                // a side-chain block (or a transaction that is not committed on the main chain)
                if !subj.starts_with('b') || !BY_HASH.contains(&acc) {
                    continue;
                }
                let id: u64 = subj[1..].parse().unwrap();
                let raw_hdr = exact.get(&format!("get_packed_block_header:{}", subj)).map(|x| x != "none").unwrap_or(false);
                if raw_hdr {
                    // still stored: its own header and parts stay readable, unchanged
                    match self.baseline.get(k) {
                        None => {
                            self.baseline.insert(k.clone(), v.clone());
                        }
                        Some(old) if old != v => {
                            fail(&mut *self.ex.out, &self.deep, &format!("side-block-answer-changed:{}", acc), &format!("({}) {} before `{}` now `{}` (header row still present)", when, k, old, v));
                        }
                        _ => {}
                    }
                } else if when != "cold" {
                    // observed, not judged here (store caches outlive deletes): get_block(hash) of a
                    // side block the pass has just wiped, whose header is still in the header cache,
                    // panics on `expect("block uncles must be stored")`
                    if acc == "get_block" && v == "panic" {
                        self.ex.out.count("warm_get_block_panics_on_wiped_side_block_with_cached_header");
                    }
                } else {
                    // removed: only at a frozen height, and completely (warm answers may still come
                    // from the store caches, which outlive deletes: not judged here)
                    let n = self.ex.ablocks[&id].number;
                    if n >= frozen {
                        fail(&mut *self.ex.out, &self.deep, "side-block-removed-above-frozen-height", &format!("{} at height {} freezer.number {}", subj, n, frozen));
                    }
                    let empty = v == "none" || v.starts_with("0/");
                    if !empty {
                        fail(&mut *self.ex.out, &self.deep, &format!("side-block-partially-removed:{}", acc), &format!("{} answers `{}` without a header row", k, v));
                    }
                }
                continue;
            }
            // get_ancestor / live cells depend on the tip: compare only within one quiescent chain state
            match self.baseline.get(k) {
                None => {
                    self.baseline.insert(k.clone(), v.clone());
                }
                Some(old) if old != v => {
                    // the accessors that read the kv rows only before the repair of F18
                    let part = PART.contains(&acc);
                    let class = if part { format!("frozen-block-part-accessor-changed:{}", acc.trim_start_matches("data_loader.")) } else { format!("main-chain-answer-changed:{}", acc) };
                    fail(&mut *self.ex.out, &self.deep, &class, &format!("({}) {} before `{}` now `{}`", when, k, old, v));
                }
                _ => {}
            }
            // a main-chain block is never without its raw header row, and answers in full
            if subj.starts_with('b') && BY_HASH.contains(&acc) && (v == "none" || v.starts_with("0/") || v == "panic") {
                let class = if acc == "get_packed_block_header" || acc == "get_block_header" {
                    "main-chain-header-missing".to_string()
                } else if PART.contains(&acc) {
                    // genesis has no extension
                    if acc.ends_with("get_block_extension") && subj == "b0" {
                        continue;
                    }
                    format!("frozen-block-part-accessor-changed:{}", acc.trim_start_matches("data_loader."))
                } else {
                    format!("main-chain-answer-changed:{}", acc)
                };
                fail(&mut *self.ex.out, &self.deep, &class, &format!("({}) {} answers `{}` for a main-chain block", when, k, v));
            }
        }
    }

    fn apply(&mut self, line: &str) {
        let t: Vec<&str> = line.split(' ').collect();
        match t[0] {
            "freeze" => {
                let node = self.ex.node.as_ref().unwrap();
                let before = node.store().freezer().map(|f| f.number()).unwrap_or(0);
                let tip = node.tip();
                // leave initial-block-download: the clock is just after the tip's timestamp
                let ft = ckb_systemtime::faketime();
                ft.set_faketime(tip.timestamp() + 1000);
                // `freeze bare`: no accessor is evaluated before or after the pass (the store caches hold
                // exactly what `prime` put there; `probe` follows)
                let bare = t.get(1) == Some(&"bare");
                let cold = t.get(1) == Some(&"cold") || bare;
                let cells_before = if cold { None } else { eval(&self.ex).1.get("live-cells:all").cloned() };
                let shared = node.shared.clone();
                let r = catch_unwind(AssertUnwindSafe(|| shared.verif_freeze_once()));
                let after = node.store().freezer().map(|f| f.number()).unwrap_or(0);
                let ans = match r {
                    Ok(Ok(())) => format!("ok {}", after),
                    Ok(Err(e)) => {
                        eprintln!("C10: freeze error {}", e);
                        format!("err {}", after)
                    }
                    Err(_) => {
                        fail(&mut *self.ex.out, &self.deep, "freeze-pass-panics", &format!("Shared::freeze panicked (freezer.number {} tip {} epoch {})", before, tip.number(), tip.epoch()));
                        self.ex.out.count("freeze_panic");
                        "panic".to_string()
                    }
                };
                // only old blocks move: strictly below the last block of epoch cur-2, contiguous, at most the limit
                let store = node.store();
                if after < before {
                    fail(&mut *self.ex.out, &self.deep, "freezer-number-decreased", &format!("{} -> {}", before, after));
                }
                if after > before {
                    let cur = tip.epoch().number();
                    // first block of epoch cur-1 is at epoch_len*(cur-1); its parent is the limit block
                    let limit = self.ex.cfg.epoch_len * (cur.saturating_sub(1)) - 1;
                    if cur <= 2 || after > limit {
                        fail(&mut *self.ex.out, &self.deep, "froze-too-recent-blocks", &format!("freezer.number {} but threshold block {} (tip epoch {})", after, limit, cur));
                    }
                    for n in before.max(1)..after {
                        let ok = store.freezer().unwrap().retrieve(n).ok().flatten().map(|raw| {
                            let blk = ckb_types::packed::BlockReader::from_compatible_slice(&raw).map(|r| r.to_entity().into_view());
                            blk.map(|b| Some(b.hash()) == store.get_block_hash(n)).unwrap_or(false)
                        });
                        if ok != Some(true) {
                            fail(&mut *self.ex.out, &self.deep, "frozen-item-is-not-main-chain-block", &format!("height {}", n));
                        }
                    }
                    self.ex.out.count("freeze_moved_blocks");
                }
                self.frozen_seen = after;
                self.warm = true;
                if !bare {
                    let (_, exact) = eval(&self.ex);
                    if !cold && exact.get("live-cells:all").cloned() != cells_before {
                        fail(&mut *self.ex.out, &self.deep, "chain-view-changed-by-freeze", "live cells / indexes / records dump differs across the freeze pass");
                    }
                    self.check(&exact, if cold { "after-freeze-caches-not-primed" } else { "after-freeze-warm" });
                }
                self.ex.out.op(line, &ans);
                self.ex.out.count(if bare { "freeze_bare" } else if cold { "freeze_cold" } else { "freeze" });
            }
            "restart" => {
                self.ex.restart();
                self.set_limits();
                self.warm = false;
                let n = self.ex.node.as_ref().unwrap().store().freezer().map(|f| f.number()).unwrap_or(0);
                if n < self.frozen_seen {
                    fail(&mut *self.ex.out, &self.deep, "freezer-lost-blocks-over-restart", &format!("{} -> {}", self.frozen_seen, n));
                }
                self.ex.out.op(line, &format!("ok {}", n));
                self.ex.out.count("restart");
            }
            "query" => {
                let (l, exact) = eval(&self.ex);
                self.check(&exact, if self.warm { "warm" } else { "cold" });
                // hash lookups never return another block; headers only disappear for side-chain blocks
                for p in l.split(' ') {
                    if let Some((id, f)) = p.split_once(':') {
                        if id.starts_with('b') {
                            let c: Vec<char> = f.chars().collect();
                            if c[1] == '!' || c[1] == 'P' {
                                fail(&mut *self.ex.out, &self.deep, "get_block-by-hash-returns-other-block", &format!("{} {} (a stored block whose height is below freezer.number is answered with the frozen main-chain block of that height)", id, f));
                            }
                            if c[0] == '0' && *c.last().unwrap() == 'm' {
                                fail(&mut *self.ex.out, &self.deep, "main-chain-header-missing", id);
                            }
                            // raw COLUMN_BLOCK_HEADER row (third char from the end)
                            if c[c.len() - 3] == '0' && *c.last().unwrap() == 'm' {
                                fail(&mut *self.ex.out, &self.deep, "main-chain-header-missing", &format!("{} raw row", id));
                            }
                        }
                    }
                }
                self.ex.out.op(line, &l);
                self.ex.out.count("query");
            }
            "crashfreeze" => {
                self.crash_freeze();
                self.ex.out.op(line, "ok");
            }
            "fzmax" => {
                self.fzmax = Some(t[1].parse().expect("fzmax <bytes>"));
                self.set_limits();
                self.ex.out.op(line, "ok");
            }
            "cutsnap" => {
                self.cut_snap();
                self.ex.out.op(line, "ok");
            }
            "cutcheck" => {
                let seed: u64 = t.get(1).map(|x| x.parse().expect("cutcheck <seed> <full>")).unwrap_or(0);
                let level: u64 = t.get(2).map(|x| x.parse().expect("cutcheck <seed> <level>")).unwrap_or(0);
                self.cutlines.clear();
                self.cut_check(seed, level);
                self.ex.out.op(line, "ok");
                // one model-compared line per crash state: `cutcont <item in flight> <state> <limit of
                // the recovery>` => `<freezer.number after the re-open> <after the recovery pass> <=|!>`
                // (`=`: every accessor answered every main-chain block as before the pass after the
                // re-open, after the recovery pass, after the rest of the history and one more restart)
                for (op, ans) in std::mem::take(&mut self.cutlines) {
                    self.ex.out.op(&op, &ans);
                    self.ex.out.count("cutcont");
                }
            }
            // emitted by `cutcheck` itself; a stand-alone line (replay of a recorded case) is not an op
            "cutcont" => {}
            "prime" => {
                // `prime <id> <accessors>`: read block <id> through the store caches, one call per letter
                let id: u64 = t[1].parse().expect("prime <id> <accessors>");
                let h = self.ex.ids.blkv[&id].hash();
                let store = self.ex.node.as_ref().unwrap().store();
                for a in t[2].chars() {
                    let _ = catch_unwind(AssertUnwindSafe(|| match a {
                        'H' => drop(store.get_block_header(&h)),
                        'U' => drop(store.get_block_uncles(&h)),
                        'P' => drop(store.get_block_proposal_txs_ids(&h)),
                        'X' => drop(store.get_block_txs_hashes(&h)),
                        'E' => drop(store.get_block_extension(&h)),
                        'B' => drop(store.get_block(&h)),
                        'K' => drop(store.get_packed_block(&h)),
                        'T' => drop(store.get_block_body(&h)),
                        'C' => drop(store.get_cellbase(&h)),
                        _ => panic!("prime: unknown accessor {}", a),
                    }));
                }
                self.ex.out.op(line, "ok");
                self.ex.out.count("prime");
            }
            "users" => {
                let l = self.users();
                self.ex.out.op(line, &l);
                self.ex.out.count("users");
            }
            "probe" => {
                let id: u64 = t[1].parse().expect("probe <id>");
                let l = self.probe(id);
                self.ex.out.op(line, &l);
                self.ex.out.count("probe");
            }
            "block" => self.apply_block(line),
            _ => self.ex.apply(line),
        }
    }

    /// `probe <id>` => p<id>:<B><H><C><U><P><E><K> t<len get_block_body> x<len get_block_txs_hashes>
    /// every accessor of block <id> through the store caches AS THEY ARE (no restart), `get_block`
    /// first: B/K `=` the whole original block, `~` a block with other content (e.g. without its
    /// transactions), `-` None, `P` panic; H C U P E = is_some.  Compared with
    /// `Model/FreezeCache.lean`.  Oracle (implementation alone): a main-chain block answers in full
    /// whatever the caches hold.
    fn probe(&mut self, id: u64) -> String {
        let orig = self.ex.ids.blkv[&id].clone();
        let h = orig.hash();
        let main = self.is_main(id);
        let store = self.ex.node.as_ref().unwrap().store();
        let b = match catch_unwind(AssertUnwindSafe(|| store.get_block(&h))) {
            Ok(Some(b)) => if b.data().as_slice() == orig.data().as_slice() { '=' } else { '~' },
            Ok(None) => '-',
            Err(_) => 'P',
        };
        let hd = store.get_block_header(&h);
        let body = store.get_block_body(&h);
        let txh = store.get_block_txs_hashes(&h);
        let cb = store.get_cellbase(&h);
        let un = store.get_block_uncles(&h);
        let pr = store.get_block_proposal_txs_ids(&h);
        let xt = store.get_block_extension(&h);
        let k = match store.get_packed_block(&h) {
            Some(p) => if p.as_slice() == orig.data().as_slice() { '=' } else { '~' },
            None => '-',
        };
        let l = format!("p{}:{}{}{}{}{}{}{} t{} x{}", id, b, flag(hd.is_some()), flag(cb.is_some()), flag(un.is_some()), flag(pr.is_some()), flag(xt.is_some()), k, body.len(), txh.len());
        let frozen = store.freezer().map(|f| f.number()).unwrap_or(0);
        if main {
            let full = b == '=' && k == '=' && hd.is_some() && cb.is_some() && un.is_some() && pr.is_some() && (xt.is_some() || id == 0) && body.len() == orig.transactions().len() && txh.len() == body.len();
            let same = hd.as_ref().map(|x| x.hash() == h).unwrap_or(false)
                && body.iter().map(|t| t.hash()).collect::<Vec<_>>() == orig.tx_hashes().to_vec()
                && txh == orig.tx_hashes().to_vec()
                && un.as_ref().map(|u| u.data().as_slice() == orig.uncles().data().as_slice()).unwrap_or(false)
                && pr.as_ref().map(|u| u.as_slice() == orig.data().proposals().as_slice()).unwrap_or(false);
            if !full || !same {
                fail(&mut *self.ex.out, &self.deep, "main-chain-answer-changed:warm-probe", &format!("{} (freezer.number {})", l, frozen));
            }
            if orig.number() >= 1 && orig.number() < frozen {
                self.ex.out.count("probe_warm_frozen_main_block");
            }
        } else {
            // counted, not judged (reported to the coordinator): caches outlive the rows of a wiped side block
            if b == 'P' {
                self.ex.out.count("warm_get_block_panics_on_wiped_side_block_with_cached_header");
            }
            if b == '~' {
                self.ex.out.count("warm_get_block_returns_wiped_side_block_without_transactions");
            }
            if store.get_packed_block_header(&h).is_none() {
                self.ex.out.count("probe_warm_wiped_side_block");
            }
        }
        l
    }
}

impl C10<'_> {
    fn is_main(&self, id: u64) -> bool {
        let store = self.ex.node.as_ref().unwrap().store();
        self.ex.ids.blkv.get(&id).map(|b| store.get_block_number(&b.hash()).is_some()).unwrap_or(false)
    }

    /// coverage counters: the last frozen block (freezer.number - 1) and the first block that is
    /// not frozen (freezer.number) carry committed transactions / uncles / proposals
    fn count_boundaries(&mut self) {
        let store = self.ex.node.as_ref().unwrap().store();
        let f = store.freezer().map(|f| f.number()).unwrap_or(0);
        if f < 2 {
            return;
        }
        let mut hits = vec![];
        for (n, tag) in [(f - 1, "last_frozen"), (f, "first_unfrozen")] {
            if let Some(b) = store.get_block_hash(n).and_then(|h| self.ex.ids.blk.get(&h).cloned()).and_then(|id| self.ex.ids.blkv.get(&id).cloned()) {
                if b.transactions().len() > 1 {
                    hits.push(format!("boundary_{}_block_with_committed_txs", tag));
                }
                if b.uncles().data().len() > 0 {
                    hits.push(format!("boundary_{}_block_with_uncles", tag));
                }
                if b.data().proposals().len() > 0 {
                    hits.push(format!("boundary_{}_block_with_proposals", tag));
                }
                hits.push(format!("boundary_{}_block_queried", tag));
            }
        }
        for h in hits {
            self.ex.out.count(&h);
        }
    }
}

/// Recording mock of `CKBProtocolContext` for the light-client server (only what `reply_proof` /
/// `reply_tip_state` call: `send_message_to`; the same mock as /repo's cfg(test)-only
/// util/light-client-protocol-server/src/tests/utils/network_context.rs, reduced)
#[allow(dead_code, clippy::all)]
mod lcctx {
    use ckb_network::{Behaviour, CKBProtocolContext, Error, Peer, PeerIndex, ProtocolId, SupportProtocols, TargetSession, async_trait, bytes::Bytes as P2pBytes};
    use std::cell::RefCell;
    use std::future::Future;
    use std::pin::Pin;
    use std::sync::Arc;
    use std::time::Duration;

    pub struct Ctx {
        pub sent: RefCell<Vec<P2pBytes>>,
        pub banned: RefCell<Vec<String>>,
    }
    // used from one thread at a time (block_on)
    unsafe impl Send for Ctx {}
    unsafe impl Sync for Ctx {}

    pub fn new() -> Arc<Ctx> {
        Arc::new(Ctx { sent: Default::default(), banned: Default::default() })
    }

    #[async_trait]
    impl CKBProtocolContext for Ctx {
        async fn set_notify(&self, _interval: Duration, _token: u64) -> Result<(), Error> { unimplemented!() }
        async fn remove_notify(&self, _token: u64) -> Result<(), Error> { unimplemented!() }
        async fn async_quick_send_message(&self, _p: ProtocolId, _i: PeerIndex, _d: P2pBytes) -> Result<(), Error> { unimplemented!() }
        async fn async_quick_send_message_to(&self, _i: PeerIndex, _d: P2pBytes) -> Result<(), Error> { unimplemented!() }
        async fn async_quick_filter_broadcast(&self, _t: TargetSession, _d: P2pBytes) -> Result<(), Error> { unimplemented!() }
        async fn async_future_task(&self, _task: Pin<Box<dyn Future<Output = ()> + 'static + Send>>, _blocking: bool) -> Result<(), Error> { Ok(()) }
        async fn async_send_message(&self, p: ProtocolId, i: PeerIndex, d: P2pBytes) -> Result<(), Error> { self.send_message(p, i, d) }
        async fn async_send_message_to(&self, i: PeerIndex, d: P2pBytes) -> Result<(), Error> { self.send_message_to(i, d) }
        async fn async_filter_broadcast_with_proto(&self, _p: ProtocolId, _t: TargetSession, _d: P2pBytes) -> Result<(), Error> { unimplemented!() }
        async fn async_quick_filter_broadcast_with_proto(&self, _p: ProtocolId, _t: TargetSession, _d: P2pBytes) -> Result<(), Error> { unimplemented!() }
        fn quick_send_message(&self, p: ProtocolId, i: PeerIndex, d: P2pBytes) -> Result<(), Error> { self.send_message(p, i, d) }
        fn quick_send_message_to(&self, i: PeerIndex, d: P2pBytes) -> Result<(), Error> { self.send_message_to(i, d) }
        fn quick_filter_broadcast_with_proto(&self, _p: ProtocolId, _t: TargetSession, _d: P2pBytes) -> Result<(), Error> { unimplemented!() }
        async fn async_filter_broadcast(&self, _t: TargetSession, _d: P2pBytes) -> Result<(), Error> { unimplemented!() }
        async fn async_disconnect(&self, _i: PeerIndex, _m: &str) -> Result<(), Error> { unimplemented!() }
        fn quick_filter_broadcast(&self, _t: TargetSession, _d: P2pBytes) -> Result<(), Error> { unimplemented!() }
        fn future_task(&self, _task: Pin<Box<dyn Future<Output = ()> + 'static + Send>>, _blocking: bool) -> Result<(), Error> { Ok(()) }
        fn send_message(&self, _p: ProtocolId, _i: PeerIndex, d: P2pBytes) -> Result<(), Error> {
            self.sent.borrow_mut().push(d);
            Ok(())
        }
        fn send_message_to(&self, _i: PeerIndex, d: P2pBytes) -> Result<(), Error> {
            self.sent.borrow_mut().push(d);
            Ok(())
        }
        fn filter_broadcast(&self, _t: TargetSession, _d: P2pBytes) -> Result<(), Error> { unimplemented!() }
        fn disconnect(&self, _i: PeerIndex, _m: &str) -> Result<(), Error> { Ok(()) }
        fn get_peer(&self, _i: PeerIndex) -> Option<Peer> { unimplemented!() }
        fn with_peer_mut(&self, _i: PeerIndex, _f: Box<dyn FnOnce(&mut Peer)>) { unimplemented!() }
        fn connected_peers(&self) -> Vec<PeerIndex> { vec![] }
        fn full_relay_connected_peers(&self) -> Vec<PeerIndex> { vec![] }
        fn report_peer(&self, _i: PeerIndex, _b: Behaviour) { unimplemented!() }
        fn ban_peer(&self, _i: PeerIndex, _d: Duration, reason: String) { self.banned.borrow_mut().push(reason); }
        fn protocol_id(&self) -> ProtocolId { SupportProtocols::LightClient.protocol_id() }
    }
}

/// cell provider over the ORIGINAL transactions the harness built (independent of the node's store)
struct OrigCells<'a>(&'a std::collections::HashMap<Byte32, ckb_types::core::TransactionView>);
impl ckb_types::utilities::FilterDataProvider for OrigCells<'_> {
    fn cell(&self, out_point: &ckb_types::packed::OutPoint) -> Option<ckb_types::packed::CellOutput> {
        let idx: u32 = out_point.index().into();
        self.0.get(&out_point.tx_hash()).and_then(|tx| tx.outputs().get(idx as usize))
    }
}

impl C10<'_> {
    /// one light-client request to the real `LightClientProtocol` of the node; the decoded reply
    fn lc_request(&self, msg: ckb_types::packed::LightClientMessage) -> Result<ckb_types::packed::LightClientMessageUnion, String> {
        let node = self.ex.node.as_ref().unwrap();
        let ctx = lcctx::new();
        let nc: std::sync::Arc<dyn ckb_network::CKBProtocolContext + Sync> = ctx.clone();
        let shared = node.shared.clone();
        let data = msg.as_bytes();
        let r = catch_unwind(AssertUnwindSafe(|| {
            use ckb_network::CKBProtocolHandler;
            let mut protocol = ckb_light_client_protocol_server::LightClientProtocol::new(shared);
            crate::node::runtime_handle().block_on(protocol.received(nc, ckb_network::PeerIndex::new(1), data));
        }));
        if r.is_err() {
            return Err("panic".into());
        }
        if let Some(b) = ctx.banned.borrow().first() {
            return Err(format!("banned: {}", b));
        }
        let sent = ctx.sent.borrow();
        let Some(bytes) = sent.first() else { return Err("no reply".into()) };
        ckb_types::packed::LightClientMessage::from_compatible_slice(bytes).map(|m| m.to_enum()).map_err(|e| format!("undecodable reply: {}", e))
    }

    /// `users` => bp=<found>/<missing> tp=<blocks>/<txs> flt=<main-chain blocks with a filter>
    /// The RPC-level users of `ChainStore` on the node AS IT IS (frozen blocks, wiped rows):
    ///   * light-client server `GetBlocksProof` (last = tip, every other block the case knows):
    ///     headers / uncles hashes / extensions of the reply must be those of the ORIGINAL blocks;
    ///   * `GetTransactionsProof` (last = tip, every transaction with a tx-info row): every
    ///     filtered block carries the original header, the original transactions asked for, the
    ///     original witnesses root, uncles hash and extension;
    ///   * the block-filter builder (`BlockFilter::verif_build_once` = `build_filter_data`): every
    ///     main-chain block has a filter equal to the filter computed from the ORIGINAL block with
    ///     a cell provider over the original transactions, and the filter hashes chain.
    /// The counts are compared with the model; the contents are judged here (implementation alone).
    fn users(&mut self) -> String {
        use ckb_types::packed;
        let node = self.ex.node.as_ref().unwrap();
        let store = node.store();
        let tip = store.get_tip_header().expect("tip");
        let mut fails: Vec<(String, String)> = vec![];
        // ---- GetBlocksProof
        let mut bids: Vec<u64> = self.ex.ids.blkv.keys().cloned().collect();
        bids.sort();
        let ask: Vec<Byte32> = bids.iter().map(|i| self.ex.ids.blkv[i].hash()).filter(|h| *h != tip.hash()).collect();
        let mut bp = "0/0".to_string();
        if !ask.is_empty() {
            let content = packed::GetBlocksProof::new_builder().last_hash(tip.hash()).block_hashes(ask.clone()).build();
            let msg = packed::LightClientMessage::new_builder().set(content).build();
            match self.lc_request(msg) {
                Ok(packed::LightClientMessageUnion::SendBlocksProof(r0)) => {
                    // (the server sends the V1 table inside the SendBlocksProof variant)
                    let r = packed::SendBlocksProofV1::from_slice(r0.as_slice()).expect("SendBlocksProofV1");
                    let headers: Vec<_> = r.headers().into_iter().collect();
                    let uh: Vec<_> = r.blocks_uncles_hash().into_iter().collect();
                    let xs: Vec<_> = r.blocks_extension().into_iter().collect();
                    bp = format!("{}/{}", headers.len(), r.missing_block_hashes().len());
                    if uh.len() != headers.len() || xs.len() != headers.len() {
                        fails.push(("light-client-reply-differs-from-block".into(), "GetBlocksProof: lengths of headers / uncles hashes / extensions differ".into()));
                    }
                    for (i, h) in headers.iter().enumerate() {
                        let hash = h.clone().into_view().hash();
                        let Some(id) = self.ex.ids.blk.get(&hash) else {
                            fails.push(("light-client-reply-differs-from-block".into(), format!("GetBlocksProof: header {} is no block of the case", i)));
                            continue;
                        };
                        let orig = &self.ex.ids.blkv[id];
                        let ok = h.as_slice() == orig.header().data().as_slice()
                            && uh.get(i).map(|u| u.as_slice() == orig.calc_uncles_hash().as_slice()).unwrap_or(false)
                            && xs.get(i).map(|x| x.to_opt().map(|b| b.as_slice().to_vec()) == orig.extension().map(|b| b.as_slice().to_vec())).unwrap_or(false);
                        if !ok {
                            fails.push(("light-client-reply-differs-from-block".into(), format!("GetBlocksProof: b{} header / uncles hash / extension differ from the block", id)));
                        }
                    }
                }
                Ok(_) => fails.push(("light-client-server-fails-on-frozen-chain".into(), "GetBlocksProof: unexpected reply kind".into())),
                Err(e) => {
                    bp = e.split(':').next().unwrap().to_string();
                    fails.push(("light-client-server-fails-on-frozen-chain".into(), format!("GetBlocksProof: {}", e)));
                }
            }
        }
        // ---- GetTransactionsProof
        let mut tids: Vec<u64> = self.ex.ids.txv.keys().cloned().collect();
        tids.sort();
        // (a transaction of the last block itself cannot be proved against the last block's parent chain root)
        let txask: Vec<Byte32> = tids.iter().map(|i| self.ex.ids.txv[i].hash()).filter(|h| store.get_transaction_info(h).map(|i| i.block_hash != tip.hash()).unwrap_or(false)).collect();
        let mut tp = "0/0".to_string();
        if !txask.is_empty() {
            let want: std::collections::HashSet<Byte32> = txask.iter().cloned().collect();
            let content = packed::GetTransactionsProof::new_builder().last_hash(tip.hash()).tx_hashes(txask.clone()).build();
            let msg = packed::LightClientMessage::new_builder().set(content).build();
            match self.lc_request(msg) {
                Ok(packed::LightClientMessageUnion::SendTransactionsProof(r0)) => {
                    let r = packed::SendTransactionsProofV1::from_slice(r0.as_slice()).expect("SendTransactionsProofV1");
                    let fbs: Vec<_> = r.filtered_blocks().into_iter().collect();
                    let uh: Vec<_> = r.blocks_uncles_hash().into_iter().collect();
                    let xs: Vec<_> = r.blocks_extension().into_iter().collect();
                    let mut ntx = 0;
                    for (i, fb) in fbs.iter().enumerate() {
                        let hash = fb.header().into_view().hash();
                        let Some(id) = self.ex.ids.blk.get(&hash) else {
                            fails.push(("light-client-reply-differs-from-block".into(), format!("GetTransactionsProof: filtered block {} is no block of the case", i)));
                            continue;
                        };
                        let orig = &self.ex.ids.blkv[id];
                        let txs: Vec<_> = fb.transactions().into_iter().collect();
                        ntx += txs.len();
                        let expect: Vec<_> = orig.transactions().into_iter().filter(|t| want.contains(&t.hash())).collect();
                        let mut got: Vec<Vec<u8>> = txs.iter().map(|t| t.as_slice().to_vec()).collect();
                        let mut exp: Vec<Vec<u8>> = expect.iter().map(|t| t.data().as_slice().to_vec()).collect();
                        got.sort();
                        exp.sort();
                        let ok = fb.header().as_slice() == orig.header().data().as_slice()
                            && got == exp
                            && fb.witnesses_root().as_slice() == orig.calc_witnesses_root().as_slice()
                            && uh.get(i).map(|u| u.as_slice() == orig.calc_uncles_hash().as_slice()).unwrap_or(false)
                            && xs.get(i).map(|x| x.to_opt().map(|b| b.as_slice().to_vec()) == orig.extension().map(|b| b.as_slice().to_vec())).unwrap_or(false);
                        if !ok {
                            fails.push(("light-client-reply-differs-from-block".into(), format!("GetTransactionsProof: filtered block b{} (header / transactions / witnesses root / uncles hash / extension) differs from the block", id)));
                        }
                    }
                    if r.missing_tx_hashes().len() != 0 {
                        fails.push(("light-client-reply-differs-from-block".into(), format!("GetTransactionsProof: {} committed transactions reported missing", r.missing_tx_hashes().len())));
                    }
                    tp = format!("{}/{}", fbs.len(), ntx);
                }
                Ok(_) => fails.push(("light-client-server-fails-on-frozen-chain".into(), "GetTransactionsProof: unexpected reply kind".into())),
                Err(e) => {
                    tp = e.split(':').next().unwrap().to_string();
                    fails.push(("light-client-server-fails-on-frozen-chain".into(), format!("GetTransactionsProof: {}", e)));
                }
            }
        }
        // ---- block-filter builder
        let shared = node.shared.clone();
        let built = catch_unwind(AssertUnwindSafe(|| ckb_block_filter::filter::BlockFilter::new(shared).verif_build_once()));
        let mut flt = 0u64;
        if built.is_err() {
            fails.push(("block-filter-builder-fails-on-frozen-chain".into(), "build_filter_data panicked".into()));
        } else {
            let mut all: std::collections::HashMap<Byte32, ckb_types::core::TransactionView> = std::collections::HashMap::new();
            for b in self.ex.ids.blkv.values() {
                for t in b.transactions() {
                    all.insert(t.hash(), t);
                }
            }
            let mut parent_fh = Byte32::zero();
            for n in 0..=tip.number() {
                let h = store.get_block_hash(n).expect("index");
                let Some(id) = self.ex.ids.blk.get(&h) else { continue };
                let orig = &self.ex.ids.blkv[id];
                let (want, _missing) = ckb_types::utilities::build_filter_data(OrigCells(&all), &orig.transactions());
                let want_packed: packed::Bytes = want.clone().into();
                let got = store.get_block_filter(&h);
                let want_hash = ckb_types::utilities::calc_filter_hash(&parent_fh, &want_packed);
                let got_hash = store.get_block_filter_hash(&h);
                match &got {
                    Some(g) => {
                        flt += 1;
                        if g.as_slice() != want_packed.as_slice() || got_hash.as_ref().map(|x| x.as_slice() != &want_hash[..]).unwrap_or(true) {
                            fails.push(("block-filter-differs-from-block".into(), format!("b{} at height {} (freezer.number {}): filter data or filter hash differs from the one of the original block", id, n, store.freezer().map(|f| f.number()).unwrap_or(0))));
                        }
                    }
                    None => fails.push(("block-filter-differs-from-block".into(), format!("b{} at height {}: no filter after build_filter_data", id, n))),
                }
                parent_fh = want_hash.into();
            }
        }
        let frozen = store.freezer().map(|f| f.number()).unwrap_or(0);
        for (class, detail) in fails {
            fail(&mut *self.ex.out, &self.deep, &class, &format!("{} [freezer.number {}]", detail, frozen));
        }
        if frozen > 1 {
            self.ex.out.count("users_on_node_with_frozen_blocks");
        }
        format!("bp={} tp={} flt={}", bp, tp, flt)
    }
}

/// `Freezer::verif_set_limits` (verif-hooks): the data-file size limit is read by `append` only, so
/// setting it right after `Freezer::open` is the same as building the freezer with it
fn set_limits(node: &crate::node::Node, fzmax: Option<u64>) {
    if let (Some(m), Some(f)) = (fzmax, node.store().freezer()) {
        f.verif_set_limits(m, 256);
    }
}

fn copy_dir(src: &std::path::Path, dst: &std::path::Path) {
    std::fs::create_dir_all(dst).unwrap();
    for e in std::fs::read_dir(src).unwrap() {
        let e = e.unwrap();
        let (from, to) = (e.path(), dst.join(e.file_name()));
        if e.file_type().unwrap().is_dir() {
            copy_dir(&from, &to);
        } else if e.file_name() != "LOCK" && e.file_name() != "FLOCK" {
            std::fs::copy(&from, &to).unwrap();
        } else {
            std::fs::File::create(&to).unwrap();
        }
    }
}

/// `vh-c10 C10 --out X child <dir> <epoch_len> <w_close> <w_far> <genesis_cells>`: open the node in
/// `dir`, run one freezer pass, print the database-write counter before and after it
fn child_main(a: &[String]) -> ! {
    let dir = std::path::PathBuf::from(&a[1]);
    let cfg = crate::node::NodeCfg { epoch_len: a[2].parse().unwrap(), window: (a[3].parse().unwrap(), a[4].parse().unwrap()), genesis_cells: a[5].parse().unwrap(), with_pool: false, ..Default::default() };
    let consensus = crate::node::make_consensus(&cfg);
    let node = crate::node::Node::start_with_ancient(&dir.join("node"), consensus, &cfg, Some(dir.join("ancient")));
    set_limits(&node, a.get(6).and_then(|x| x.parse().ok()));
    let tip = node.tip();
    let _ft = ckb_systemtime::faketime();
    _ft.set_faketime(tip.timestamp() + 1000);
    // let the start-up scan of unverified blocks finish before counting
    std::thread::sleep(std::time::Duration::from_millis(150));
    println!("COUNT0 {}", ckb_db::verif_crash::count());
    let r = node.shared.verif_freeze_once();
    println!("COUNT1 {} NUMBER {} OK {}", ckb_db::verif_crash::count(), node.store().freezer().map(|f| f.number()).unwrap_or(0), r.is_ok());
    std::process::exit(0)
}

impl C10<'_> {
    fn run_child(&self, dir: &std::path::Path, crash_at: Option<String>) -> (bool, String) {
        let exe = std::env::current_exe().unwrap();
        let c = &self.ex.cfg;
        let mut cmd = std::process::Command::new(exe);
        cmd.args(["C10", "--out", dir.join("child-out").to_str().unwrap(), "child", dir.to_str().unwrap()]);
        cmd.args([c.epoch_len.to_string(), c.window.0.to_string(), c.window.1.to_string(), c.genesis_cells.to_string()]);
        if let Some(m) = self.fzmax {
            cmd.arg(m.to_string());
        }
        cmd.env_remove("VERIF_CRASH_AT");
        if let Some(k) = crash_at {
            cmd.env("VERIF_CRASH_AT", k);
        }
        let o = cmd.output().expect("child");
        (o.status.success(), String::from_utf8_lossy(&o.stdout).to_string())
    }

    /// crash enumeration over the database writes of one freezer pass (child processes on copies)
    fn crash_freeze(&mut self) {
        // baseline answers (cold) and the directory to copy
        self.ex.restart();
        self.set_limits();
        self.warm = false;
        let (_, base_exact) = eval(&self.ex);
        let frozen_before = self.ex.node.as_ref().unwrap().store().freezer().map(|f| f.number()).unwrap_or(0);
        self.ex.stop_node();
        let src = self.ex.case_dir();
        let tmp = src.join("crash");
        let copy = |name: &str| -> std::path::PathBuf {
            let d = tmp.join(name);
            let _ = std::fs::remove_dir_all(&d);
            copy_dir(&src.join("node"), &d.join("node"));
            copy_dir(&src.join("ancient"), &d.join("ancient"));
            d
        };
        // crash-free probe
        let d0 = copy("probe");
        let (ok, out) = self.run_child(&d0, None);
        let nums: Vec<u64> = out.split_whitespace().filter_map(|t| t.parse().ok()).collect();
        if !ok || nums.len() < 3 {
            self.ex.out.count("crash_probe_failed");
            let _ = std::fs::remove_dir_all(&tmp);
            self.ex.start_node();
            self.set_limits();
            return;
        }
        let (c0, c1, final_number) = (nums[0], nums[1], nums[2]);
        if std::env::var("VERIF_DEBUG").is_ok() {
            eprintln!("C10 crashfreeze probe: {}", out.replace('\n', " | "));
        }
        if c1 == c0 {
            self.ex.out.count("crashfreeze_pass_without_writes");
        }
        let _ = std::fs::remove_dir_all(&d0);
        for k in (c0 + 1)..=c1 {
            for mode in ["before", "after"] {
                let d = copy(&format!("k{}{}", k, mode));
                let (ok, _) = self.run_child(&d, Some(format!("{}:{}", k, mode)));
                if ok {
                    self.ex.out.count("crash_point_not_reached");
                    let _ = std::fs::remove_dir_all(&d);
                    continue;
                }
                self.ex.out.count("crash_points");
                // reopen the crashed copy
                let consensus = crate::node::make_consensus(&self.ex.cfg);
                let node = crate::node::Node::start_with_ancient(&d.join("node"), consensus, &self.ex.cfg, Some(d.join("ancient")));
                set_limits(&node, self.fzmax);
                let saved = self.ex.node.replace(node);
                let (_, exact) = eval(&self.ex);
                let n_after_crash = self.ex.node.as_ref().unwrap().store().freezer().map(|f| f.number()).unwrap_or(0);
                if n_after_crash < frozen_before {
                    fail(&mut *self.ex.out, &self.deep, "freezer-lost-blocks-after-crash", &format!("{} -> {} (crash {} write {})", frozen_before, n_after_crash, mode, k - c0));
                }
                let subjects: std::collections::HashSet<String> = self.main_keys().into_iter().collect();
                if let Some(w) = exact.get("!wrong:all") {
                    fail(&mut *self.ex.out, &self.deep, "answer-has-another-blocks-content", &format!("(crash {} write {} of the pass) {}", mode, k - c0, w));
                }
                for (key, v) in &exact {
                    let (acc, subj) = key.split_once(':').unwrap();
                    if !subjects.contains(subj) {
                        continue;
                    }
                    if let Some(old) = base_exact.get(key) {
                        if old != v {
                            let part = ["get_block_body", "get_block_txs_hashes", "get_cellbase", "get_block_uncles", "get_block_proposal_txs_ids", "get_block_extension", "get_packed_block", "data_loader.get_block_extension"].contains(&acc);
                            let class = if part { format!("frozen-block-part-accessor-changed:{}", acc.trim_start_matches("data_loader.")) } else { format!("main-chain-answer-changed-after-crash:{}", acc) };
                            fail(&mut *self.ex.out, &self.deep, &class, &format!("(crash {} write {} of the pass) {} before `{}` now `{}`", mode, k - c0, key, old, v));
                        }
                    }
                }
                // the next pass continues and ends where the crash-free pass ended
                {
                    let node = self.ex.node.as_ref().unwrap();
                    let _ft = ckb_systemtime::faketime();
                    _ft.set_faketime(node.tip().timestamp() + 1000);
                    let shared = node.shared.clone();
                    let r = catch_unwind(AssertUnwindSafe(|| shared.verif_freeze_once()));
                    let n2 = node.store().freezer().map(|f| f.number()).unwrap_or(0);
                    if !matches!(r, Ok(Ok(()))) || n2 != final_number {
                        fail(&mut *self.ex.out, &self.deep, "crash-recovery-diverges", &format!("crash {} write {}: next pass {:?} ends at freezer.number {} (crash-free: {})", mode, k - c0, r.map(|x| x.is_ok()).ok(), n2, final_number));
                    }
                    let (_, exact2) = eval(&self.ex);
                    if let Some(w) = exact2.get("!wrong:all") {
                        fail(&mut *self.ex.out, &self.deep, "answer-has-another-blocks-content", &format!("(after recovery pass) {}", w));
                    }
                    for key in ["get_block", "get_block_header", "get_packed_block_header", "get_transaction", "get_transaction_with_info", "get_transaction_info", "get_ancestor", "get_block_body", "get_block_txs_hashes", "get_cellbase", "get_block_uncles", "get_block_proposal_txs_ids", "get_block_extension", "get_packed_block", "data_loader.get_block_extension"] {
                        for (kk, v) in exact2.iter().filter(|(kk, _)| kk.starts_with(&format!("{}:", key))) {
                            let subj = kk.split_once(':').unwrap().1;
                            if subjects.contains(subj) && base_exact.get(kk).map(|o| o != v).unwrap_or(false) {
                                fail(&mut *self.ex.out, &self.deep, &format!("main-chain-answer-changed-after-crash:{}", key), &format!("(after recovery pass) {}", kk));
                            }
                        }
                    }
                }
                let node = self.ex.node.take().unwrap();
                node.stop();
                self.ex.node = saved;
                let _ = std::fs::remove_dir_all(&d);
            }
        }
        let _ = std::fs::remove_dir_all(&tmp);
        self.ex.start_node();
        self.set_limits();
        self.ex.out.count("crashfreeze");
    }
}


// ------------------------------------------------------------------------------------------------
// crashes inside the freezer's file writes (file granularity)
// ------------------------------------------------------------------------------------------------

/// the decoded INDEX file: entry `i` = (file id, end offset) of item `i`; entry 0 is the default entry
fn read_index(ancient: &std::path::Path) -> Vec<(u32, u64)> {
    let raw = std::fs::read(ancient.join("INDEX")).unwrap_or_default();
    raw.chunks_exact(12).map(|c| (u32::from_le_bytes(c[0..4].try_into().unwrap()), u64::from_le_bytes(c[4..12].try_into().unwrap()))).collect()
}

fn blk_name(fid: u32) -> String {
    format!("blk{:06}", fid)
}

/// one crash state of the freezer directory while item `j` is being appended (items `< j` complete)
#[derive(Clone, Debug)]
struct Cut {
    /// the item in flight (== freezer.number the re-opened freezer must report at least `a`.. at most this)
    j: u64,
    /// INDEX length in bytes
    idx_len: u64,
    /// the data file the item goes to, and its length (`None`: the file does not exist yet)
    fid: u32,
    data_len: Option<u64>,
    /// the item is the first of a new data file (rollover)
    new_file: bool,
    /// also continue the case's history on the recovered node (step 4 of `cut_check`)
    cont: bool,
    label: String,
    /// the state as the model driver can rebuild it on its own files (`cutcont` lines): D data written /
    /// index entry not, E rolled over / new head empty, P partial data, I<t> data + t index bytes, X0 / Xh /
    /// Xm index entry on disk with 0 / half of the data / the file missing, N nothing written, C complete,
    /// W0 / Wh two items lost (see `prev_cut`)
    kind: String,
    /// power loss over a rollover: the data file of the PREVIOUS item (the last one of the file the
    /// repair slips back into) is cut to this length as well — (file id, length)
    prev_cut: Option<(u32, u64)>,
    /// a state in which `Freezer::open`'s repair loop drops the entry of the first item of a new data
    /// file and slips back into the previous file
    slip_back: bool,
}

const QUICK_CUTS: usize = 6;

/// all crash states of one pass that froze items `a .. b` (`idx` = INDEX after the pass)
fn enumerate_cuts(idx: &[(u32, u64)], a: u64, b: u64, full: bool, cap: usize, rng: &mut Rng) -> Vec<Cut> {
    let mut cuts = vec![];
    let mut prio: Vec<(u8, Cut)> = vec![];
    for j in a..b {
        let (pf, po) = idx[(j - 1) as usize];
        let (f, o) = idx[j as usize];
        let new_file = f != pf;
        let start = if new_file { 0 } else { po };
        let len = o - start;
        let base = 12 * j;
        let mut cand: Vec<Cut> = vec![];
        let mk = |idx_len: u64, data: Option<u64>, kind: &str, label: &str| Cut { j, idx_len, fid: f, data_len: data, new_file, cont: full, kind: kind.to_string(), prev_cut: None, slip_back: new_file && idx_len >= base + 12, label: format!("item {} ({}{} bytes at {}:{}): {}", j, if new_file { "first of a NEW data file, " } else { "" }, len, blk_name(f), start, label) };
        // process crash (write order data -> index)
        let must: Vec<Cut> = if new_file {
            vec![
                mk(base, Some(len), "D", "data written, index entry not written"),
                mk(base, Some(0), "E", "rolled over, new head file still empty"),
            ]
        } else {
            vec![mk(base, Some(start + len), "D", "data written, index entry not written")]
        };
        let mids: Vec<u64> = if full { vec![1, len / 2, len.saturating_sub(1)] } else { vec![rng.range(1, len.max(2) - 1)] };
        for p in mids {
            if p > 0 && p < len {
                cand.push(mk(base, Some(start + p), "P", &format!("{} of {} data bytes written", p, len)));
            }
        }
        for t in if full { vec![1u64, 6, 11] } else { vec![rng.range(1, 11)] } {
            cand.push(mk(base + t, Some(start + len), &format!("I{}", t), &format!("data written, {} of 12 index bytes written", t)));
        }
        // power loss before sync_all: the index entry reached the disk, the data did not (completely)
        for p in if full { vec![0u64, len / 2] } else { vec![*rng.pick(&[0u64, len / 2])] } {
            if p < len {
                let d = if new_file && p == 0 && (full || rng.chance(1, 2)) { None } else { Some(start + p) };
                cand.push(mk(base + 12, d, if d.is_none() { "Xm" } else if p == 0 { "X0" } else { "Xh" }, &format!("index entry on disk, {} of {} data bytes on disk{}", p, len, if d.is_none() { " (file missing)" } else { "" })));
            }
        }
        if j == a {
            cand.push(mk(base, if new_file { None } else { Some(start) }, "N", "nothing written yet"));
        }
        // power loss at a ROLLOVER (round 6): the index entry of the first item of the new data file is
        // on disk, the new file is missing / empty — `Freezer::open` drops the entry and slips back
        // into the previous data file, and the next pass appends into that file again (the items that
        // still fit), then rolls over again.  `slips`: that state alone (the item in flight does not fit
        // into the old file with the same limit: see the `fit` limits of `cut_check`); `two`: the
        // previous item (the last one of the old file, appended by the same pass, so not synced
        // either) lost (part of) its data as well, so the next pass appends an item that DOES fit.
        let mut slips: Vec<Cut> = vec![];
        if new_file {
            slips.push(mk(base + 12, if rng.chance(1, 2) { None } else { Some(0) }, "Xm", "index entry on disk, new data file missing / empty"));
            if slips[0].data_len.is_some() {
                slips[0].kind = "X0".into();
            }
            if j > a && j >= 2 {
                let (ppf, ppo) = idx[(j - 2) as usize];
                let sp = if ppf != pf { 0 } else { ppo };
                let lp = po - sp;
                for (p, kind) in [(0u64, "W0"), (lp / 2, "Wh")] {
                    if full || rng.chance(1, 2) == (p == 0) {
                        let mut c = mk(base + 12, None, kind, &format!("index entries of items {} and {} on disk, new data file missing, {} of the {} data bytes of item {} on disk ({} cut to {} bytes)", j - 1, j, p, lp, j - 1, blk_name(pf), sp + p));
                        c.prev_cut = Some((pf, sp + p));
                        slips.push(c);
                    }
                }
            }
        }
        if full {
            cuts.extend(must);
            cuts.extend(cand);
            cuts.extend(slips);
        } else {
            for c in slips {
                prio.push((0, c));
            }
            // quick: a sample (below); the states at a rollover whose data file receives a further
            // item afterwards come first — a stale byte left in such a file shifts every later item
            let shared_file = new_file && j + 1 < b && idx[(j + 1) as usize].0 == f;
            let k = rng.below(cand.len() as u64) as usize;
            for (i, c) in must.into_iter().enumerate() {
                prio.push((if shared_file && i == 0 { 0 } else if new_file { 1 } else { 2 }, c));
            }
            prio.push((2, cand[k].clone()));
        }
    }
    if !full {
        // at most `cap` states per pass: by priority class, random inside a class
        let mut order: Vec<usize> = (0..prio.len()).collect();
        rng.shuffle(&mut order);
        let mut zeros = 0;
        for i in order.iter() {
            if prio[*i].0 == 0 {
                zeros += 1;
                if zeros > 4 {
                    prio[*i].0 = 2;
                }
            }
        }
        order.sort_by_key(|i| prio[*i].0);
        for (n, i) in order.into_iter().take(cap).enumerate() {
            let mut c = prio[i].1.clone();
            // the history is continued on the first (highest priority) one and on every 5th after it
            c.cont = n % 5 == 0;
            cuts.push(c);
        }
        cuts.sort_by_key(|c| (c.j, c.idx_len, c.data_len));
    }
    // the complete freezer of the pass with the rows of before the wipe
    if b > a {
        let (f, o) = idx[(b - 1) as usize];
        cuts.push(Cut { j: b, idx_len: 12 * b, fid: f, data_len: Some(o), new_file: false, cont: full, label: "all appends complete, nothing wiped".into(), kind: "C".into(), prev_cut: None, slip_back: false });
    }
    cuts
}

/// build the freezer directory `dst` = the finished pass's directory `f1` cut back to `cut`
fn materialise_cut(f1: &std::path::Path, dst: &std::path::Path, cut: &Cut) {
    std::fs::create_dir_all(dst).unwrap();
    std::fs::File::create(dst.join("FLOCK")).unwrap();
    let mut index = std::fs::read(f1.join("INDEX")).unwrap();
    assert!(cut.idx_len as usize <= index.len());
    index.truncate(cut.idx_len as usize);
    std::fs::write(dst.join("INDEX"), &index).unwrap();
    for fid in 0..=cut.fid {
        let src = f1.join(blk_name(fid));
        if fid < cut.fid {
            if src.exists() {
                std::fs::copy(&src, dst.join(blk_name(fid))).unwrap();
            }
        } else if let Some(n) = cut.data_len {
            let mut data = std::fs::read(&src).unwrap_or_default();
            assert!(n as usize <= data.len(), "cut beyond the data file");
            data.truncate(n as usize);
            std::fs::write(dst.join(blk_name(fid)), &data).unwrap();
        }
    }
    if let Some((pf, n)) = cut.prev_cut {
        let mut data = std::fs::read(dst.join(blk_name(pf))).unwrap();
        assert!(n as usize <= data.len(), "second cut beyond the data file");
        data.truncate(n as usize);
        std::fs::write(dst.join(blk_name(pf)), &data).unwrap();
    }
}

/// the chain view that no freezer pass may touch (live cells + data, tx-info rows, number index, tip,
/// current epoch), as one fingerprint
fn view_fingerprint(ex: &Exec) -> String {
    let node = ex.node.as_ref().unwrap();
    let d = c02::dump(node.store(), &ex.ids, &node.consensus.genesis_block().difficulty());
    let mut parts = vec![];
    for s in ["cell", "data", "dhash", "txinfo", "index", "rindex", "epnum", "meta"] {
        let e: Vec<String> = d.sec.get(s).map(|m| m.values().cloned().collect()).unwrap_or_default();
        parts.push(format!("{}={}", s, e.join(",")));
    }
    h8(parts.join(" ").as_bytes())
}

impl C10<'_> {
    /// `cutsnap`: the state before the next pass
    fn cut_snap(&mut self) {
        self.ex.restart();
        self.set_limits();
        self.warm = false;
        let (_, mut exact) = eval(&self.ex);
        exact.insert("chain-view:all".into(), view_fingerprint(&self.ex));
        let frozen_before = self.ex.node.as_ref().unwrap().store().freezer().map(|f| f.number()).unwrap_or(0);
        self.ex.stop_node();
        let src = self.ex.case_dir();
        let dir = src.join("cutsnap");
        let _ = std::fs::remove_dir_all(&dir);
        copy_dir(&src.join("node"), &dir.join("node"));
        copy_dir(&src.join("ancient"), &dir.join("ancient"));
        self.ex.start_node();
        self.set_limits();
        self.snap = Some(CutSnap { dir, exact, frozen_before, n_delivered: self.delivered.len() });
        self.ex.out.count("cutsnap");
    }

    /// open a node on `d/node` (+ `d/ancient` unless `plain`) in place of the case's node
    fn open_copy(&mut self, d: &std::path::Path, plain: bool) -> bool {
        let consensus = crate::node::make_consensus(&self.ex.cfg);
        let cfg = self.ex.cfg.clone();
        let fzmax = self.fzmax;
        let r = catch_unwind(AssertUnwindSafe(|| {
            let node = if plain { crate::node::Node::start(&d.join("node"), consensus, &cfg) } else { crate::node::Node::start_with_ancient(&d.join("node"), consensus, &cfg, Some(d.join("ancient"))) };
            set_limits(&node, fzmax);
            node
        }));
        match r {
            Ok(node) => {
                self.ex.node = Some(node);
                true
            }
            Err(_) => false,
        }
    }

    fn close_copy(&mut self) {
        if let Some(node) = self.ex.node.take() {
            node.stop();
        }
    }

    /// all accessors of the node in `self.ex.node`, or the panic
    fn eval_caught(&self) -> Option<BTreeMap<String, String>> {
        catch_unwind(AssertUnwindSafe(|| {
            let (_, mut e) = eval(&self.ex);
            e.insert("chain-view:all".into(), view_fingerprint(&self.ex));
            e
        }))
        .ok()
    }

    /// compare every answer about a subject that is on the main chain of the node in `self.ex.node`
    /// with `want`; returns the number of compared answers
    fn compare_main(&mut self, got: &BTreeMap<String, String>, want: &BTreeMap<String, String>, class_suffix: &str, ctx: &str) -> usize {
        let subjects: std::collections::HashSet<String> = self.main_keys().into_iter().collect();
        let mut n = 0;
        if let Some(w) = got.get("!wrong:all") {
            fail(&mut *self.ex.out, &self.deep, "answer-has-another-blocks-content", &format!("({}) {}", ctx, w));
        }
        for (key, v) in got {
            let (acc, subj) = key.split_once(':').unwrap();
            if acc == "!wrong" || acc == "live-cells" {
                continue;
            }
            if !(subjects.contains(subj) || acc == "chain-view") {
                continue;
            }
            if let Some(old) = want.get(key) {
                n += 1;
                if old != v {
                    let part = ["get_block_body", "get_block_txs_hashes", "get_cellbase", "get_block_uncles", "get_block_proposal_txs_ids", "get_block_extension", "get_packed_block", "data_loader.get_block_extension"].contains(&acc);
                    let class = if part { format!("frozen-block-part-accessor-changed:{}", acc.trim_start_matches("data_loader.")) } else { format!("main-chain-answer-changed{}:{}", class_suffix, acc) };
                    fail(&mut *self.ex.out, &self.deep, &class, &format!("({}) {} expected `{}` got `{}`", ctx, key, old, v));
                }
            }
        }
        n
    }

    fn freeze_here(&self) -> (Option<bool>, u64) {
        let node = self.ex.node.as_ref().unwrap();
        let ft = ckb_systemtime::faketime();
        ft.set_faketime(node.tip().timestamp() + 1000);
        let shared = node.shared.clone();
        let r = catch_unwind(AssertUnwindSafe(|| shared.verif_freeze_once()));
        let n = node.store().freezer().map(|f| f.number()).unwrap_or(0);
        (r.ok().map(|x| x.is_ok()), n)
    }

    /// `cutcheck`: crashes INSIDE the freezer's file writes of the pass that followed `cutsnap`.
    ///
    /// The pass is run once more on a copy of the snapshot (crash-free probe) to obtain the finished
    /// freezer directory; every crash state of the directory (see `enumerate_cuts` and the module
    /// comment on the write order) is materialised, combined with the RocksDB copy of BEFORE the
    /// pass and re-opened as a node.  Judged on each:
    ///   1. the node opens; freezer.number is between the number before the pass and the item in flight;
    ///   2. EVERY accessor of `eval` answers every main-chain block / transaction exactly as before
    ///      the pass (and no answer carries another block's content);
    ///   3. the next pass succeeds and ends where the crash-free pass ended; all accessors again;
    ///   4. the blocks the case delivered after the snapshot are delivered, with further passes in
    ///      between and at the end; then every accessor answers every main-chain block /
    ///      transaction, and the chain view (live cells, tx-info, index), exactly like a node that
    ///      NEVER had a freezer and was fed the same blocks.
    fn cut_check(&mut self, seed: u64, level: u64) {
        let full = level == 1;
        let cap = if level == 2 { 16 } else { QUICK_CUTS };
        let Some(snap) = self.snap.take() else {
            self.ex.out.count("cutcheck_without_snapshot");
            return;
        };
        self.ex.stop_node();
        let tmp = self.ex.case_dir().join("cut");
        let _ = std::fs::remove_dir_all(&tmp);
        let mut rng = Rng::new(seed ^ 0xc07);
        // --- the never-frozen reference node, fed every block of the case in delivery order
        let refdir = tmp.join("ref");
        std::fs::create_dir_all(&refdir).unwrap();
        assert!(self.open_copy(&refdir, true));
        for id in self.delivered.clone() {
            let _ = self.ex.node.as_ref().unwrap().process(&self.ex.ids.blkv[&id]);
        }
        let ref_exact = self.eval_caught().expect("reference node answers");
        self.close_copy();
        let _ = std::fs::remove_dir_all(&refdir);
        // --- the case's own node (all its passes, no crash) against the reference
        self.ex.start_node();
        self.set_limits();
        match self.eval_caught() {
            Some(e) => {
                self.compare_main(&e, &ref_exact, "-vs-never-frozen-node", "the case's node at its end vs a node without freezer");
            }
            None => fail(&mut *self.ex.out, &self.deep, "accessor-panics", "the case's node at its end"),
        }
        self.ex.stop_node();
        // --- crash-free probe of the pass on a copy of the snapshot
        let probe = tmp.join("probe");
        copy_dir(&snap.dir.join("node"), &probe.join("node"));
        copy_dir(&snap.dir.join("ancient"), &probe.join("ancient"));
        assert!(self.open_copy(&probe, false));
        let a = self.ex.node.as_ref().unwrap().store().freezer().unwrap().number();
        assert_eq!(a, snap.frozen_before);
        let (r, b) = self.freeze_here();
        self.close_copy();
        let idx = read_index(&probe.join("ancient"));
        if r != Some(true) || idx.len() as u64 != b {
            self.ex.out.count("cutcheck_probe_failed");
            let _ = std::fs::remove_dir_all(&tmp);
            let _ = std::fs::remove_dir_all(&snap.dir);
            self.ex.start_node();
            self.set_limits();
            return;
        }
        if b == a {
            self.ex.out.count("cutcheck_pass_froze_nothing");
        }
        let files_used: std::collections::BTreeSet<u32> = (a..b).map(|j| idx[j as usize].0).collect();
        if files_used.len() > 1 || (b > a && a > 1 && idx[(a - 1) as usize].0 != idx[a as usize].0) {
            self.ex.out.count("cutcheck_pass_with_rollover");
        }
        let cuts = enumerate_cuts(&idx, a, b, full, cap, &mut rng);
        let later: Vec<u64> = self.delivered[snap.n_delivered..].to_vec();
        let case_fzmax = self.fzmax;
        // stored size of item n (the same block compresses to the same bytes in every run)
        let item_len = |n: u64| -> u64 {
            let (pf, po) = idx[(n - 1) as usize];
            let (f, o) = idx[n as usize];
            if f != pf { o } else { o - po }
        };
        for (ci, cut) in cuts.iter().enumerate() {
            self.fzmax = case_fzmax;
            let fails_before = self.ex.out.oracle_fails;
            let d = tmp.join(format!("c{}", ci));
            copy_dir(&snap.dir.join("node"), &d.join("node"));
            materialise_cut(&probe.join("ancient"), &d.join("ancient"), cut);
            let ctx = format!("crash inside the freezer pass {}..{} [fzmax {:?}]: {}; INDEX {} bytes, {} {:?} bytes", a, b, self.fzmax, cut.label, cut.idx_len, blk_name(cut.fid), cut.data_len);
            self.ex.out.count("file_cut_points");
            if cut.new_file {
                self.ex.out.count("file_cut_points_on_first_item_of_new_file");
            }
            // 1. re-open
            if !self.open_copy(&d, false) {
                fail(&mut *self.ex.out, &self.deep, "node-does-not-reopen-after-crash", &ctx);
                let _ = std::fs::remove_dir_all(&d);
                self.cutlines.push((format!("cutcont {} {} same", cut.j, cut.kind), "open-fails".into()));
                continue;
            }
            let n0 = self.ex.node.as_ref().unwrap().store().freezer().map(|f| f.number()).unwrap_or(0);
            if n0 < a {
                fail(&mut *self.ex.out, &self.deep, "freezer-lost-blocks-after-crash", &format!("{} -> {} ({})", a, n0, ctx));
            }
            if n0 > cut.j.max(a) {
                fail(&mut *self.ex.out, &self.deep, "freezer-number-beyond-written-items-after-crash", &format!("{} > {} ({})", n0, cut.j, ctx));
            }
            if n0 < cut.j {
                // (a fully written item was dropped by the repair: not a loss, the rows are still there)
                self.ex.out.count("file_cut_reopen_dropped_complete_items");
            }
            // 2. every accessor, cold
            let mut ok = true;
            match self.eval_caught() {
                Some(e) => {
                    self.compare_main(&e, &snap.exact, "-after-crash", &format!("re-opened; {}", ctx));
                }
                None => {
                    fail(&mut *self.ex.out, &self.deep, "accessor-panics-after-crash", &format!("re-opened; {}", ctx));
                    ok = false;
                }
            }
            // 3. the next pass continues and ends where the crash-free pass ended.  The data-file limit of
            //    the recovered node (hook `verif_set_limits`, re-applied at its later starts): the case's
            //    own, or one under which the next item to be frozen FITS into the head file the re-open
            //    ended in — exactly (`head.bytes + len == max`, the boundary of the rollover test) or
            //    together with the item after it — so that the recovery pass first appends into the
            //    (slipped-back) head file and then rolls over.  No limit can change an answer.
            let mut fit = "same";
            if n0 >= 1 && n0 < b && n0 as usize <= idx.len() {
                let hb = if n0 >= 2 { idx[(n0 - 1) as usize].1 } else { 0 };
                let want = if cut.slip_back { rng.below(4) } else { rng.below(8) };
                if want == 0 || (want == 1 && cut.prev_cut.is_none()) {
                    fit = "exact";
                    self.fzmax = Some(hb + item_len(n0));
                } else if want == 2 && n0 + 1 < b {
                    fit = "two";
                    self.fzmax = Some(hb + item_len(n0) + item_len(n0 + 1));
                }
                if fit != "same" {
                    self.set_limits();
                    self.ex.out.count("file_cut_recovery_under_a_limit_the_next_item_fits");
                }
            }
            if cut.slip_back {
                self.ex.out.count(if fit == "same" { "file_cut_slip_back_next_item_as_in_case" } else { "file_cut_slip_back_next_item_fits" });
            }
            if cut.prev_cut.is_some() {
                self.ex.out.count("file_cut_two_items_lost_over_rollover");
            }
            let (r2, n2) = self.freeze_here();
            if r2 != Some(true) || n2 != b {
                fail(&mut *self.ex.out, &self.deep, "crash-recovery-diverges", &format!("next pass {:?} ends at freezer.number {} (crash-free: {}); {}", r2, n2, b, ctx));
            }
            match self.eval_caught() {
                Some(e) => {
                    self.compare_main(&e, &snap.exact, "-after-crash", &format!("after the recovery pass; {}", ctx));
                }
                None => {
                    fail(&mut *self.ex.out, &self.deep, "accessor-panics-after-crash", &format!("after the recovery pass; {}", ctx));
                    ok = false;
                }
            }
            // 4. the rest of the case's history on the recovered node, passes in between, against the
            //    never-frozen node
            if ok && cut.cont {
                let pass_at = if later.is_empty() { 0 } else { rng.below(later.len() as u64) as usize };
                let mut fed = true;
                for (k, id) in later.iter().enumerate() {
                    let blk = self.ex.ids.blkv[id].clone();
                    let node = self.ex.node.as_ref().unwrap();
                    if catch_unwind(AssertUnwindSafe(|| node.process(&blk))).is_err() {
                        fail(&mut *self.ex.out, &self.deep, "node-panics-after-crash", &format!("delivering block b{}; {}", id, ctx));
                        fed = false;
                        break;
                    }
                    if k == pass_at {
                        let _ = self.freeze_here();
                    }
                }
                if fed {
                    let (r3, _) = self.freeze_here();
                    if r3 != Some(true) {
                        fail(&mut *self.ex.out, &self.deep, "crash-recovery-diverges", &format!("a later pass (after {} more blocks) fails: {:?}; {}", later.len(), r3, ctx));
                    }
                    // cold again: restart the recovered node
                    self.close_copy();
                    if !self.open_copy(&d, false) {
                        fail(&mut *self.ex.out, &self.deep, "node-does-not-reopen-after-crash", &format!("second re-open; {}", ctx));
                        let _ = std::fs::remove_dir_all(&d);
                        self.cutlines.push((format!("cutcont {} {} {}", cut.j, cut.kind, fit), format!("{} {} !", n0, n2)));
                        continue;
                    }
                    match self.eval_caught() {
                        Some(e) => {
                            let n = self.compare_main(&e, &ref_exact, "-after-crash", &format!("after {} more blocks and passes, vs a node without freezer; {}", later.len(), ctx));
                            if n > 0 {
                                self.ex.out.count("file_cut_histories_continued_and_compared");
                            }
                        }
                        None => fail(&mut *self.ex.out, &self.deep, "accessor-panics-after-crash", &format!("after {} more blocks and passes; {}", later.len(), ctx)),
                    }
                }
            }
            self.close_copy();
            let _ = std::fs::remove_dir_all(&d);
            // the model-compared line of this crash state (`cutcont`, emitted after the `cutcheck` line)
            let q = if self.ex.out.oracle_fails == fails_before { "=" } else { "!" };
            self.cutlines.push((format!("cutcont {} {} {}", cut.j, cut.kind, fit), format!("{} {} {}", n0, n2, q)));
        }
        self.fzmax = case_fzmax;
        let _ = std::fs::remove_dir_all(&tmp);
        let _ = std::fs::remove_dir_all(&snap.dir);
        self.ex.start_node();
        self.set_limits();
        self.warm = false;
        self.ex.out.count("cutcheck");
    }
}

/// generator knobs: `cutcheck` in CUT_NUM of 4 cases; 16 cut states per pass (thorough) or 6 (quick)
static CUT_NUM: std::sync::atomic::AtomicU64 = std::sync::atomic::AtomicU64::new(2);
static CUT_FULL: std::sync::atomic::AtomicBool = std::sync::atomic::AtomicBool::new(false);

fn gen_case(c: &mut C10, rng: &mut Rng) {
    let l = rng.range(3, 5);
    let w = *rng.pick(&[(1u64, 3u64), (2, 4)]);
    let gcells = rng.range(5, 8);
    c.reset_case();
    c.ex.begin_case(&format!("freeze l={} w={}.{} g={}", l, w.0, w.1, gcells));
    let cfg = crate::node::NodeCfg { epoch_len: l, window: w, genesis_cells: gcells, with_pool: false, ..Default::default() };
    c.apply(&format!("cfg {} {} {} {}", l, w.0, w.1, gcells));
    for op in Exec::genesis_ops(&cfg) {
        c.apply(&op);
    }
    // data-file size limit of the freezer: the generated blocks compress to roughly 0.4 .. 2.5 kB, so
    // these limits give one item per file (every append rolls over), 1-3 items per file, several
    // items per file, and the builder default (one file)
    let fzmax = *rng.pick(&[1u64, 1500, 2500, 2500, 4000, 4000, 7000, 2_000_000_000]);
    c.apply(&format!("fzmax {}", fzmax));
    let mut g = Gen { next_tx: 100, next_blk: 1, l, w };
    let rounds = rng.range(2, 3);
    let mut target = l * rng.range(3, 4) + rng.below(l);
    // side branches may cross epoch boundaries everywhere (the F9 shape; harmless since /repo e69f9a7)
    let f9 = rng.chance(1, 4) || true;
    // one crash enumeration in about every third case (each costs ~5 child processes)
    let crash_round = if rng.chance(1, 3) { Some(rng.below(rounds)) } else { None };
    // crashes inside the freezer's file writes of one pass (`cutsnap` before it, `cutcheck` at the end
    // of the case, so that the recovered copies also get the rest of the history)
    let cut_round = if rng.chance(CUT_NUM.load(std::sync::atomic::Ordering::Relaxed), 4) { Some(rng.below(rounds.min(2))) } else { None };
    // a restart between every two steps once something is frozen (about every fourth case)
    let restart_heavy = rng.chance(1, 4);
    for round in 0..rounds {
        // grow the main chain, with lighter side branches (some become uncles) on the way
        loop {
            let tip = c.ex.tip_id();
            let tipn = c.ex.ablocks[&tip].number;
            if tipn >= target {
                break;
            }
            if tipn >= 2 && rng.chance(1, 4) {
                let d = rng.range(1, tipn.min(2));
                let p = c.ex.ancestor(tip, d);
                // never cross an epoch boundary with a side branch unless the F9 shape is wanted
                let pn = c.ex.ablocks[&p].number;
                if f9 || (pn + 1) % l != 0 {
                    c.build(&mut g, rng, p, false);
                    if c.ex.tip_id() != tip {
                        continue;
                    }
                }
            }
            c.build(&mut g, rng, tip, true);
            if restart_heavy && round > 0 && rng.chance(1, 2) {
                c.apply("restart");
                c.ex.out_count("restart_between_blocks");
            }
        }
        c.apply("restart");
        c.apply("query");
        if crash_round == Some(round) {
            c.apply("crashfreeze");
        }
        if cut_round == Some(round) {
            c.apply("cutsnap");
        }
        // the pass: with the accessors evaluated just before it (warm caches), or not (the first reads
        // after the wipe find cold caches and must fall back to the freezer)
        let cold = rng.chance(1, 3);
        // store caches across the pass: restart (caches empty), read a side block that this pass will
        // wipe and/or a main-chain block that it will freeze through chosen accessors, run the pass
        // without any other read, then every accessor of those blocks warm (compared with
        // Model/FreezeCache.lean)
        let primed = rng.chance(1, 2);
        if primed {
            c.apply("restart");
            let tipb = c.ex.ablocks[&c.ex.tip_id()].clone();
            let cur = tipb.number / l; // epoch number of the tip (epochs of l blocks, genesis opens epoch 0)
            let limit = if cur > 2 { l * (cur - 1) - 1 } else { 0 };
            let lo = c.frozen_seen.max(1);
            let mut side: Vec<u64> = c.ex.ablocks.values().filter(|b| b.number >= lo && b.number < limit && !c.is_main(b.id)).map(|b| b.id).collect();
            side.retain(|id| c.ex.node.as_ref().unwrap().store().get_packed_block_header(&c.ex.ids.blkv[id].hash()).is_some());
            side.sort();
            let mut mainb: Vec<u64> = c.ex.ablocks.values().filter(|b| b.number >= lo && b.number < limit + 2 && c.is_main(b.id)).map(|b| b.id).collect();
            mainb.sort();
            let masks = ["H", "B", "HU", "HUP", "HUPE", "UPXE", "HX", "K", "HPU", "TC", "HE"];
            let mut probes = vec![];
            if !side.is_empty() {
                let sid = *rng.pick(&side);
                c.apply(&format!("prime {} {}", sid, rng.pick(&masks)));
                probes.push(sid);
                c.ex.out_count("primed_side_block_at_height_to_be_frozen");
            }
            if !mainb.is_empty() && (side.is_empty() || rng.chance(2, 3)) {
                let mid = *rng.pick(&mainb);
                c.apply(&format!("prime {} {}", mid, rng.pick(&masks)));
                probes.push(mid);
            }
            c.apply("freeze bare");
            for id in probes {
                c.apply(&format!("probe {}", id));
            }
        } else {
            c.apply(if cold { "freeze cold" } else { "freeze" });
        }
        if rng.chance(1, 2) {
            // warm answers in the model-compared line as well (side blocks just wiped still answer
            // from the header cache here, so only when there is none at a newly frozen height)
            let frozen = c.frozen_seen;
            let any_side_below = c.ex.ablocks.values().any(|b| b.number >= 1 && b.number < frozen && !c.is_main(b.id));
            if !any_side_below {
                c.apply("query");
                c.ex.out_count("query_warm_after_pass");
            }
        }
        // the RPC-level users of the store right after the pass (warm), or after the restart (cold):
        // light-client server proofs over every block / transaction, block-filter builder (its first
        // run of the case comes after the pass, so it reads the frozen blocks through the freezer)
        let users_at = rng.below(3);
        if users_at == 0 {
            c.apply("users");
        }
        c.apply("restart");
        c.apply("query");
        if users_at == 1 {
            c.apply("users");
        }
        c.count_boundaries();
        // second pass without new blocks: nothing more to do, must be idempotent
        if rng.chance(1, 2) {
            c.apply(if rng.chance(1, 2) { "freeze cold" } else { "freeze" });
            if restart_heavy {
                c.apply("restart");
            }
            c.apply("query");
        }
        // side blocks arriving late: at the last frozen height (freezer.number - 1), at the first
        // height that is not frozen (freezer.number; the next pass wipes it), at any frozen height.
        // Their own header and parts must stay readable (never wiped: the pass only looks at the
        // heights it has just frozen), and they must not shadow the main-chain block of the height.
        let frozen = c.frozen_seen;
        if frozen > 2 && rng.chance(3, 4) {
            let mut heights = vec![];
            if rng.chance(2, 3) {
                heights.push(frozen - 1);
            }
            if rng.chance(2, 3) {
                heights.push(frozen);
            }
            if rng.chance(1, 2) {
                heights.push(rng.range(1, frozen - 1));
            }
            for hgt in heights {
                let tip = c.ex.tip_id();
                let tipn = c.ex.ablocks[&tip].number;
                if hgt + 1 >= tipn {
                    continue;
                }
                let p = c.ex.ancestor(tip, tipn - (hgt - 1));
                let busy = rng.chance(1, 2);
                c.build(&mut g, rng, p, busy);
                assert_eq!(c.ex.tip_id(), tip, "a late side block must stay lighter than the tip");
                c.ex.out_count(if hgt + 1 == frozen {
                    "late_side_block_at_last_frozen_height"
                } else if hgt == frozen {
                    "late_side_block_at_first_unfrozen_height"
                } else {
                    "late_side_block_at_frozen_height"
                });
                if restart_heavy || rng.chance(1, 2) {
                    c.apply("restart");
                }
                c.apply("query");
            }
            // a pass right after them (nothing new to freeze: they must survive it)
            if rng.chance(1, 2) {
                c.apply("freeze");
                c.apply("restart");
                c.apply("query");
            }
        }
        target += l * rng.range(1, 2) + rng.below(l);
        let _ = round;
    }
    if cut_round.is_some() {
        c.apply(&format!("cutcheck {} {}", rng.below(1 << 30), if CUT_FULL.load(std::sync::atomic::Ordering::Relaxed) { 2 } else { 0 }));
    }
    if c.frozen_seen > 1 {
        c.ex.out.nontrivial(format!("l{}w{}f{}", l, w.0, c.frozen_seen));
    }
    c.ex.end_case();
}

/// `limit` stream: one chain long enough for a pass to hit `MAX_FREEZE_LIMIT`
/// (the constant is private and not configurable, so the chain really has > 30 000 blocks: empty
/// blocks, epochs of 1001, no per-block dump). Ops: `limitpass <freezer.number before> <number of
/// the last block of epoch cur-2>` => `ok <freezer.number after>`; the model answers with
/// `min(threshold, before + MAX_FREEZE_LIMIT)` from the generated constant.
fn run_limit(opts: &Opts, out: &mut Out) {
    use crate::node::*;
    let base = scratch_dir(&opts.out, "c10limit");
    let cfg = NodeCfg { epoch_len: 1001, window: (2, 4), genesis_cells: 1, with_pool: false, ..Default::default() };
    let consensus = make_consensus(&cfg);
    std::fs::create_dir_all(base.join("ancient")).unwrap();
    let node = Node::start_with_ancient(&base.join("node"), consensus.clone(), &cfg, Some(base.join("ancient")));
    let mut b = ChainBuilder::new(consensus.clone(), &base.join("builder"));
    out.begin_case("freeze-limit l=1001");
    let mut tip = consensus.genesis_hash();
    let total = 31 * 1001 + 5;
    let t0 = std::time::Instant::now();
    for n in 1..=total {
        let blk = b.build(&tip, &BlockSpec { salt: n, ..Default::default() });
        node.process(&blk).expect("valid block");
        tip = blk.hash();
        if n % 5000 == 0 {
            eprintln!("C10 limit: {} blocks in {:?}", n, t0.elapsed());
        }
    }
    let _ft = ckb_systemtime::faketime();
    _ft.set_faketime(node.tip().timestamp() + 1000);
    let mut guard = 0;
    loop {
        let store = node.store();
        let before = store.freezer().unwrap().number();
        let cur = node.tip().epoch().number();
        let thr = cfg.epoch_len * (cur - 1) - 1; // number of the last block of epoch cur-2
        let r = node.shared.verif_freeze_once();
        let after = store.freezer().unwrap().number();
        out.op(&format!("limitpass {} {}", before, thr), &format!("{} {}", if r.is_ok() { "ok" } else { "err" }, after));
        out.count("limitpass");
        // spot checks: frozen blocks still answer, the first unfrozen block is still in the kv store
        for n in [1u64, before.max(1), after - 1] {
            let h = store.get_block_hash(n).expect("index");
            if store.get_block(&h).map(|x| x.hash()) != Some(h.clone()) {
                out.oracle_fail("main-chain-answer-changed:get_block", &format!("height {} after a limit pass", n));
            }
        }
        if after - before > 30_000 + 1_000_000 {
            out.oracle_fail("froze-too-recent-blocks", "");
        }
        guard += 1;
        if after == before || guard > 4 {
            break;
        }
        if after - before >= 30_000 {
            out.nontrivial(format!("limit-hit-{}", guard));
        }
    }
    node.stop();
    drop(b);
    let _ = std::fs::remove_dir_all(&base);
}

pub fn run(opts: &Opts) {
    if opts.extra.first().map(|s| s.as_str()) == Some("child") {
        child_main(&opts.extra);
    }
    if opts.extra.iter().any(|a| a == "limit") {
        let mut out = Out::new(&opts.out);
        if opts.replay.is_none() {
            run_limit(opts, &mut out);
        }
        out.finish("the case is non-trivial when a pass moved exactly MAX_FREEZE_LIMIT blocks");
        return;
    }
    let base = crate::node::scratch_dir(&opts.out, "c10");
    let mut out = Out::new(&opts.out);
    {
        let mut ex = Exec::new(&mut out, base.clone());
        ex.ancient = true;
        let mut c = C10 { ex, baseline: BTreeMap::new(), frozen_seen: 0, warm: false, deep: None, fzmax: None, delivered: vec![], snap: None, cutlines: vec![] };
        if let Some(rp) = &opts.replay {
            for l in read_replay_ops(rp) {
                if l.starts_with("case ") {
                    let label = l.splitn(3, ' ').nth(2).unwrap_or("replay").to_string();
                    c.reset_case();
                    c.ex.begin_case(&label);
                } else {
                    if c.ex.case_no == 0 {
                        c.ex.begin_case("replay");
                    }
                    c.apply(&l);
                }
            }
            c.ex.end_case();
        } else {
            // `shard=<i>/<n>` (stream argument): every node start leaks some memory inside the node
            // (caches, runtime tasks), so the thorough budget is split over several processes
            let (shard, nshards) = opts
                .extra
                .iter()
                .find_map(|a| a.strip_prefix("shard="))
                .and_then(|v| v.split_once('/'))
                .map(|(a, b)| (a.parse::<u64>().unwrap(), b.parse::<u64>().unwrap()))
                .unwrap_or((0, 1));
            let mut rng = Rng::new(opts.seed.wrapping_mul(64).wrapping_add(shard));
            let cases = if opts.thorough() { 160 / nshards } else if shard == 0 { 14 } else { 0 } * opts.scale;
            CUT_FULL.store(opts.thorough(), std::sync::atomic::Ordering::Relaxed);
            if opts.thorough() {
                // a quarter of the thorough cases (each `cutcheck` re-opens ~17 nodes)
                CUT_NUM.store(1, std::sync::atomic::Ordering::Relaxed);
            }
            for _ in 0..cases {
                gen_case(&mut c, &mut rng);
            }
        }
    }
    out.finish("a case is non-trivial when at least one block was moved into the freezer; fingerprint = (epoch length, window, final freezer.number)");
    let _ = std::fs::remove_dir_all(&base);
}
