import CkbVerif.Driver.C01
import CkbVerif.Driver.C02
import CkbVerif.Driver.C03
import CkbVerif.Driver.C04
import CkbVerif.Driver.C05
import CkbVerif.Driver.C06
import CkbVerif.Driver.C07
import CkbVerif.Driver.C08
import CkbVerif.Driver.C09
import CkbVerif.Driver.C10
import CkbVerif.Driver.C11
import CkbVerif.Driver.C12
import CkbVerif.Driver.C13
import CkbVerif.Driver.C14
import CkbVerif.Driver.C15
import CkbVerif.Driver.C16
import CkbVerif.Driver.C17
import CkbVerif.Driver.C18
import CkbVerif.Driver.C19
import CkbVerif.Driver.C20

/-- `ckbmodel <ID> [args…]`: the executable model for property <ID>, speaking the line protocol on stdin/stdout. -/
def main (args : List String) : IO UInt32 :=
  match args with
  | "C01" :: rest => CkbVerif.Driver.C01.main rest
  | "C02" :: rest => CkbVerif.Driver.C02.main rest
  | "C03" :: rest => CkbVerif.Driver.C03.main rest
  | "C04" :: rest => CkbVerif.Driver.C04.main rest
  | "C05" :: rest => CkbVerif.Driver.C05.main rest
  | "C06" :: rest => CkbVerif.Driver.C06.main rest
  | "C07" :: rest => CkbVerif.Driver.C07.main rest
  | "C08" :: rest => CkbVerif.Driver.C08.main rest
  | "C09" :: rest => CkbVerif.Driver.C09.main rest
  | "C10" :: rest => CkbVerif.Driver.C10.main rest
  | "C11" :: rest => CkbVerif.Driver.C11.main rest
  | "C12" :: rest => CkbVerif.Driver.C12.main rest
  | "C13" :: rest => CkbVerif.Driver.C13.main rest
  | "C14" :: rest => CkbVerif.Driver.C14.main rest
  | "C15" :: rest => CkbVerif.Driver.C15.main rest
  | "C16" :: rest => CkbVerif.Driver.C16.main rest
  | "C17" :: rest => CkbVerif.Driver.C17.main rest
  | "C18" :: rest => CkbVerif.Driver.C18.main rest
  | "C19" :: rest => CkbVerif.Driver.C19.main rest
  | "C20" :: rest => CkbVerif.Driver.C20.main rest
  | _ => do IO.eprintln "usage: ckbmodel <C01..C20> [args]"; return 2
