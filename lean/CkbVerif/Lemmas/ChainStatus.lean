import CkbVerif.Lemmas.ChainSeen
import CkbVerif.Model.ChainStatus

/-!
Helper lemmas for `Props/C01Status.lean`:
* `ExtNotInv` — UNCONDITIONAL invariant (no expiry hypothesis): a block with an ext is never marked
  BLOCK_INVALID, i.e. the status-map entry of `get_block_status` never shadows an ext;
* `KeptStored` — a received fully valid block has its data in the database (as long as no orphan expiry
  has removed anything), preserved by every step incl. `crash`.
-/
namespace CkbVerif.Chain

/-! ## `ExtNotInv` -/

def ExtNotInv (s : State) : Prop := ∀ b, (s.td b).isSome = true → s.invalid b = false

theorem ext_parent_valid {T : Tree} {s : State} (hs : Safe T s) (h : ExtNotInv s) {c : Nat} (hc0 : c ≠ 0)
    (hi : s.invalid (T.par c) = true) (hx : (s.td c).isSome = true) : False := by
  have := h _ (hs.extPar c hx hc0).1
  rw [hi] at this; exact absurd this (by simp)

theorem eni_init (T : Tree) : ExtNotInv (init T) := fun _ _ => rfl

theorem eni_stepPool {T : Tree} {pool0 : List Nat} {acc : State × Out} (hs : Safe T acc.1)
    (h : ExtNotInv acc.1) (c : Nat) : ExtNotInv (stepPool T pool0 acc c).1 := by
  have hact := stepPool_act T pool0 acc c
  generalize stepPool T pool0 acc c = r at hact ⊢
  cases hact with
  | skip _ => exact h
  | accept _ _ => exact fun b hb => h b hb
  | reject hc hi =>
    intro b hb
    show upd acc.1.invalid c true b = false
    by_cases hbc : b = c
    · subst hbc; exact (ext_parent_valid hs h (hs.poolNc b hc).1 hi hb).elim
    · rw [upd_other _ _ hbc]; exact h b hb

theorem eni_search {T : Tree} (hint : List Nat) {s : State} (hs : Safe T s) (h : ExtNotInv s) :
    ExtNotInv (search T hint s).1 := by
  unfold search
  exact (foldl_preserves (stepPool T s.pool) (fun acc => Safe T acc.1 ∧ ExtNotInv acc.1)
    (fun acc c hh => ⟨safe_stepPool hh.1 c, eni_stepPool hh.1 hh.2 c⟩) _ _ ⟨hs, h⟩).2

theorem eni_route {T : Tree} {s : State} (hs : Safe T s) (h : ExtNotInv s) {b : Nat} (hb : b ≠ 0) :
    ExtNotInv (route T { s with seen := upd s.seen b true, stored := upd s.stored b true, commits := s.commits + 1 } b).1 := by
  have hact := route_act T { s with seen := upd s.seen b true, stored := upd s.stored b true, commits := s.commits + 1 } b
  generalize route T { s with seen := upd s.seen b true, stored := upd s.stored b true, commits := s.commits + 1 } b = r at hact ⊢
  cases hact with
  | accept _ => exact fun x hx => h x hx
  | reject _ hi =>
    intro x hx
    show upd s.invalid b true x = false
    by_cases hxb : x = b
    · subst hxb; exact (ext_parent_valid hs h hb hi hx).elim
    · rw [upd_other _ _ hxb]; exact h x hx
  | dup _ _ _ => exact fun x hx => h x hx
  | hold _ _ _ => exact fun x hx => h x hx

theorem eni_deliver {T : Tree} {s : State} (hs : Safe T s) (h : ExtNotInv s) (hint : List Nat) (b : Nat) :
    ExtNotInv (deliver T hint s b).1 := by
  unfold deliver
  by_cases hb : b = 0
  · simp [hb]; exact h
  · simp only [hb, if_false]
    by_cases hnc : T.nc b = true
    · simp only [hnc, Bool.not_true, Bool.false_eq_true, if_false]
      exact eni_search hint (safe_route hs hb hnc) (eni_route hs h hb)
    · have hnc' : T.nc b = false := by simpa using hnc
      simp only [hnc', Bool.not_false, if_true]
      intro x hx
      show upd s.invalid b true x = false
      by_cases hxb : x = b
      · subst hxb
        have := (hs.extPar x hx hb).2; rw [hnc'] at this; exact absurd this (by simp)
      · rw [upd_other _ _ hxb]; exact h x hx

theorem eni_verify {T : Tree} {s : State} (hs : Safe T s) (h : ExtNotInv s) : ExtNotInv (verifyHead T s).1 := by
  have hact := verifyHead_act T s
  generalize verifyHead T s = r at hact ⊢
  cases hact with
  | empty _ => exact h
  | fail b q hq hf =>
    have hbq : b ∈ s.queue := by rw [hq]; exact List.mem_cons_self
    have hb0 := (hs.queueNc b hbq).1
    intro x hx
    show upd s.invalid b true x = false
    by_cases hxb : x = b
    · subst hxb
      exfalso
      have hx' : (s.td x).isSome = true := hx
      have hpe := (hs.extPar x hx' hb0).1
      rcases hf with h1 | h1 | ⟨ptd, hp, _, hlt, _⟩
      · have := h _ hpe; rw [h1] at this; exact absurd this (by simp)
      · rw [h1] at hpe; simp at hpe
      · obtain ⟨n, hn⟩ := Option.isSome_iff_exists.mp hx'
        have t1 := hs.tdTrue _ _ hn
        have t2 : TD T x (ptd + T.work x) := .step hb0 (hs.tdTrue _ _ hp)
        have := TD.functional t1 t2
        have := hs.tdLe _ _ hn
        omega
    · rw [upd_other _ _ hxb]; exact h x hx
  | known b q ptd _ _ _ _ _ =>
    intro x hx
    show upd s.invalid b false x = false
    by_cases hxb : x = b
    · subst hxb; simp
    · rw [upd_other _ _ hxb]; exact h x hx
  | side b q ptd _ _ _ _ =>
    intro x hx
    show upd s.invalid b false x = false
    by_cases hxb : x = b
    · subst hxb; simp
    · rw [upd_other _ _ hxb]
      have hx' : (upd s.td b (some (ptd + T.work b)) x).isSome = true := hx
      rw [upd_other _ _ hxb] at hx'
      exact h x hx'
  | best b q ptd _ _ _ _ _ =>
    intro x hx
    show upd s.invalid b false x = false
    by_cases hxb : x = b
    · subst hxb; simp
    · rw [upd_other _ _ hxb]
      have hx' : (upd s.td b (some (ptd + T.work b)) x).isSome = true := hx
      rw [upd_other _ _ hxb] at hx'
      exact h x hx'

/-- the expiry only REMOVES status-map entries -/
theorem expire_invalid_mono (T : Tree) (s : State) :
    ∀ x, (expire T s).invalid x = true → s.invalid x = true := by
  unfold expire
  refine foldl_preserves (stepExpire T s.pool (T.epoch s.tip))
    (fun acc => ∀ x, acc.1.invalid x = true → s.invalid x = true) ?_ _ _ (fun _ hx => hx)
  intro acc c hacc
  unfold stepExpire
  by_cases hc : c ∈ acc.1.pool
  · simp only [hc, if_true]
    by_cases hg : expGone T s.pool (T.epoch s.tip) acc.2 c = true
    · simp only [hg, if_true]
      intro x hx
      change upd acc.1.invalid c false x = true at hx
      by_cases hxc : x = c
      · subst hxc; simp at hx
      · rw [upd_other _ _ hxc] at hx; exact hacc x hx
    · simp only [hg]; exact hacc
  · simp only [hc, if_false]; exact hacc

theorem eni_expire {T : Tree} {s : State} (h : ExtNotInv s) : ExtNotInv (expire T s) := by
  intro x hx
  have htd : (expire T s).td = s.td := (expire_frame T s).1.1
  rw [htd] at hx
  cases hi : (expire T s).invalid x with
  | false => rfl
  | true =>
    have := expire_invalid_mono T s x hi
    rw [h x hx] at this; exact absurd this (by simp)

theorem eni_step {T : Tree} {s : State} (hs : Safe T s) (h : ExtNotInv s) (op : Op) :
    ExtNotInv (step T s op).1 := by
  cases op with
  | deliver b hint => exact eni_deliver hs h hint b
  | verify => exact eni_verify hs h
  | expire => exact eni_expire h
  | crash => exact fun _ _ => rfl

theorem eni_run {T : Tree} : ∀ (ops : List Op) (s : State), Safe T s → ExtNotInv s → ExtNotInv (run T s ops) := by
  intro ops
  induction ops with
  | nil => intro s _ h; exact h
  | cons op ops ih => intro s hs h; exact ih _ (safe_step hs op) (eni_step hs h op)

/-! ## `KeptStored` -/

def KeptStored (T : Tree) (s : State) : Prop :=
  ∀ b, b ≠ 0 → s.seen b = true → FullyValid T b → s.stored b = true

theorem ks_init (T : Tree) : KeptStored T (init T) := by
  intro b _ hsn; simp [init] at hsn

theorem ks_stepPool {T : Tree} {pool0 : List Nat} {acc : State × Out} (hl : LiveCore T acc.1)
    (h : KeptStored T acc.1) (c : Nat) : KeptStored T (stepPool T pool0 acc c).1 := by
  have hact := stepPool_act T pool0 acc c
  generalize stepPool T pool0 acc c = r at hact ⊢
  cases hact with
  | skip _ => exact h
  | accept _ _ => exact fun b a1 a2 a3 => h b a1 a2 a3
  | reject hc hi =>
    intro b hb0 hsn hfv
    show upd acc.1.stored c false b = true
    by_cases hbc : b = c
    · subst hbc; exact absurd (hfv.parent hb0) (hl.invNotFV _ hi)
    · rw [upd_other _ _ hbc]; exact h b hb0 hsn hfv

theorem ks_search {T : Tree} (hint : List Nat) {s : State} (hs : Safe T s) (hl : LiveCore T s)
    (h : KeptStored T s) : KeptStored T (search T hint s).1 := by
  unfold search
  exact (foldl_preserves (stepPool T s.pool) (fun acc => (Safe T acc.1 ∧ LiveCore T acc.1) ∧ KeptStored T acc.1)
    (fun acc c hh => ⟨⟨safe_stepPool hh.1.1 c, live_stepPool hh.1.1 hh.1.2 c⟩, ks_stepPool hh.1.2 hh.2 c⟩)
    _ _ ⟨⟨hs, hl⟩, h⟩).2

theorem ks_route {T : Tree} {s : State} (hl : LiveCore T s) (h : KeptStored T s) {b : Nat} :
    KeptStored T (route T { s with seen := upd s.seen b true, stored := upd s.stored b true, commits := s.commits + 1 } b).1 := by
  have base : ∀ x, x ≠ 0 → upd s.seen b true x = true → FullyValid T x → upd s.stored b true x = true := by
    intro x hx0 hsn hfv
    by_cases hxb : x = b
    · subst hxb; simp
    · rw [upd_other _ _ hxb] at hsn ⊢
      exact h x hx0 hsn hfv
  have hact := route_act T { s with seen := upd s.seen b true, stored := upd s.stored b true, commits := s.commits + 1 } b
  generalize route T { s with seen := upd s.seen b true, stored := upd s.stored b true, commits := s.commits + 1 } b = r at hact ⊢
  cases hact with
  | accept _ => exact fun x a1 a2 a3 => base x a1 a2 a3
  | reject _ hi =>
    intro x hx0 hsn hfv
    show upd (upd s.stored b true) b false x = true
    by_cases hxb : x = b
    · subst hxb; exact absurd (hfv.parent hx0) (hl.invNotFV _ hi)
    · rw [upd_other _ _ hxb]; exact base x hx0 hsn hfv
  | dup _ _ _ => exact fun x a1 a2 a3 => base x a1 a2 a3
  | hold _ _ _ => exact fun x a1 a2 a3 => base x a1 a2 a3

theorem ks_deliver {T : Tree} {s : State} (hs : Safe T s) (hl : Live T s) (h : KeptStored T s)
    (hint : List Nat) (b : Nat) : KeptStored T (deliver T hint s b).1 := by
  unfold deliver
  by_cases hb : b = 0
  · simp [hb]; exact h
  · simp only [hb, if_false]
    by_cases hnc : T.nc b = true
    · simp only [hnc, Bool.not_true, Bool.false_eq_true, if_false]
      exact ks_search hint (safe_route hs hb hnc) (live_route hs hl.core hb) (ks_route hl.core h)
    · have hnc' : T.nc b = false := by simpa using hnc
      simp only [hnc', Bool.not_false, if_true]
      intro x hx0 hsn hfv
      change upd s.seen b true x = true at hsn
      show s.stored x = true
      by_cases hxb : x = b
      · subst hxb
        have := (hfv.flags hb).1; rw [hnc'] at this; exact absurd this (by simp)
      · rw [upd_other _ _ hxb] at hsn; exact h x hx0 hsn hfv

theorem ks_verify {T : Tree} {s : State} (hs : Safe T s) (hl : Live T s) (h : KeptStored T s) :
    KeptStored T (verifyHead T s).1 := by
  have hact := verifyHead_act T s
  generalize verifyHead T s = r at hact ⊢
  cases hact with
  | empty _ => exact h
  | fail b q hq hf =>
    obtain ⟨h1, _⟩ := fail_facts hs hl hq hf
    intro x hx0 hsn hfv
    show upd s.stored b false x = true
    by_cases hxb : x = b
    · subst hxb; exact absurd hfv h1
    · rw [upd_other _ _ hxb]; exact h x hx0 hsn hfv
  | known b q ptd _ _ _ _ _ => exact fun x a1 a2 a3 => h x a1 a2 a3
  | side b q ptd _ _ _ _ => exact fun x a1 a2 a3 => h x a1 a2 a3
  | best b q ptd _ _ _ _ _ => exact fun x a1 a2 a3 => h x a1 a2 a3

theorem ks_crash {T : Tree} {s : State} (hk : SeenOk s) (h : KeptStored T s) : KeptStored T (crash s) := by
  intro x hx0 hsn hfv
  exact h x hx0 (hk.ext x hsn hx0) hfv

/-- `KeptStored` is preserved by every step after which no orphan expiry has removed anything -/
theorem ks_step {T : Tree} {s : State} (hi : Inv T s) (hk : SeenOk s) (hf : s.expiryFired = false)
    (h : KeptStored T s) (op : Op) (hf' : (step T s op).1.expiryFired = false) :
    KeptStored T (step T s op).1 := by
  cases op with
  | deliver b hint => exact ks_deliver hi.safe (hi.live hf) h hint b
  | verify => exact ks_verify hi.safe (hi.live hf) h
  | expire =>
    change (expire T s).expiryFired = false at hf'
    show KeptStored T (expire T s)
    rw [expire_noop T s hf']; exact h
  | crash => exact ks_crash hk h

/-- a history along which no orphan expiry removed anything (expiry ticks that find nothing to remove,
crashes and restarts are allowed) -/
def QuietRun (T : Tree) : State → List Op → Prop
  | s, [] => s.expiryFired = false
  | s, op :: ops => s.expiryFired = false ∧ QuietRun T (step T s op).1 ops

theorem QuietRun.head {T : Tree} : ∀ {ops : List Op} {s : State}, QuietRun T s ops → s.expiryFired = false
  | [], _, h => h
  | _ :: _, _, h => h.1

theorem ks_run {T : Tree} : ∀ (ops : List Op) (s : State), Inv T s → SeenOk s → KeptStored T s →
    QuietRun T s ops → KeptStored T (run T s ops) := by
  intro ops
  induction ops with
  | nil => intro s _ _ h _; exact h
  | cons op ops ih =>
    intro s hi hk h hq
    exact ih _ (inv_step' hi op) (seenOk_step hk op) (ks_step hi hk hq.1 h op hq.2.head) hq.2

/-- `ChainIn` is monotone in the received set, where the new set only has to contain the FULLY VALID
members of the old one -/
theorem ChainIn.mono_fv {T : Tree} {D D' : Nat → Prop} (hD : ∀ b, b ≠ 0 → D b → FullyValid T b → D' b)
    {b : Nat} (h : ChainIn T D b) : ChainIn T D' b := by
  induction h with
  | genesis => exact .genesis
  | step h0 hd hnc hok hp ih => exact .step h0 (hD _ h0 hd (.step h0 hnc hok hp.fullyValid)) hnc hok ih

end CkbVerif.Chain
