/-
C11 helper lemmas, part 9: how reachability changes under the three graph edits of the pool, for an
arbitrary successor function (used once along parent links and once along child links):
  * `rt_same`       nothing reachable from `x` was edited;
  * `rt_remove`     an absorbing set `D` was cut out of every successor list;
  * `rt_add_sink`   a new sink `E` was hung below the nodes `P`.
-/
import CkbVerif.Lemmas.PoolClosure
namespace CkbVerif.Pool

variable {g g' : Nat → List Nat}

/-- if the successor lists of everything reachable from `x` are unchanged, so is reachability from `x` -/
theorem rt_same {x y : Nat} (h : ∀ z, RT g x z → ∀ w, w ∈ g' z ↔ w ∈ g z) : RT g' x y ↔ RT g x y := by
  constructor
  · intro hr
    induction hr with
    | refl => exact .refl _
    | @step a b c hb _ ih =>
      have hb' : b ∈ g a := (h a (.refl a) b).mp hb
      exact .step hb' (ih (fun z hz w => h z (.step hb' hz) w))
  · intro hr
    induction hr with
    | refl => exact .refl _
    | @step a b c hb _ ih =>
      exact .step ((h a (.refl a) b).mpr hb) (ih (fun z hz w => h z (.step hb hz) w))

theorem absorbing_rt {D : List Nat} (habs : ∀ d ∈ D, ∀ z ∈ g d, z ∈ D) {d y : Nat} (hd : d ∈ D) (hr : RT g d y) : y ∈ D := by
  induction hr with
  | refl => exact hd
  | step hb _ ih => exact ih (habs _ hd _ hb)

/-- `D` (closed under successors) is cut out of the successor lists of the other nodes -/
theorem rt_remove {D : List Nat} (habs : ∀ d ∈ D, ∀ z ∈ g d, z ∈ D)
    (h : ∀ z, z ∉ D → ∀ w, w ∈ g' z ↔ w ∈ g z ∧ w ∉ D) {x y : Nat} (hx : x ∉ D) :
    RT g' x y ↔ RT g x y ∧ y ∉ D := by
  constructor
  · intro hr
    induction hr with
    | refl => exact ⟨.refl _, hx⟩
    | @step a b c hb _ ih =>
      obtain ⟨hb1, hb2⟩ := (h a hx b).mp hb
      obtain ⟨r1, r2⟩ := ih hb2
      exact ⟨.step hb1 r1, r2⟩
  · rintro ⟨hr, hy⟩
    induction hr with
    | refl => exact .refl _
    | @step a b c hb hrest ih =>
      have hbD : b ∉ D := fun hd => hy (absorbing_rt habs hd hrest)
      exact .step ((h a hx b).mpr ⟨hb, hbD⟩) (ih hbD hy)

theorem rt_end_ne {E : Nat} (hE : ∀ z w, w ∈ g z → w ≠ E ∧ z ≠ E) {x p : Nat} (hr : RT g x p) (hx : x ≠ E) : p ≠ E := by
  induction hr with
  | refl => exact hx
  | @step a b c hb _ ih => exact ih (hE a b hb).1

theorem rt_lift {E : Nat} {P : List Nat} (hE : ∀ z w, w ∈ g z → w ≠ E ∧ z ≠ E)
    (h : ∀ z w, w ∈ g' z ↔ z ≠ E ∧ (w ∈ g z ∨ (z ∈ P ∧ w = E))) {x p : Nat} (hr : RT g x p) (hx : x ≠ E) : RT g' x p := by
  induction hr with
  | refl => exact .refl _
  | @step a b c hb _ ih => exact .step ((h a b).mpr ⟨hx, Or.inl hb⟩) (ih (hE a b hb).1)

/-- a new sink `E` below the nodes `P`: from an old node, `E` is reached exactly through `P` -/
theorem rt_add_sink {E : Nat} {P : List Nat} (hE : ∀ z w, w ∈ g z → w ≠ E ∧ z ≠ E)
    (h : ∀ z w, w ∈ g' z ↔ z ≠ E ∧ (w ∈ g z ∨ (z ∈ P ∧ w = E))) {x y : Nat} (hx : x ≠ E) :
    RT g' x y ↔ RT g x y ∨ (y = E ∧ ∃ p ∈ P, RT g x p) := by
  constructor
  · intro hr
    induction hr with
    | refl => exact Or.inl (.refl _)
    | @step a b c hb hrest ih =>
      obtain ⟨_, hb'⟩ := (h a b).mp hb
      rcases hb' with hb1 | ⟨hp, hbE⟩
      · rcases ih (hE a b hb1).1 with r | ⟨e, p, hp, r⟩
        · exact Or.inl (.step hb1 r)
        · exact Or.inr ⟨e, p, hp, .step hb1 r⟩
      · -- stepped onto E, which has no successors
        rw [hbE] at hrest
        have hcE : c = E := by
          cases hrest with
          | refl => rfl
          | step hb2 _ => exact absurd rfl ((h _ _).mp hb2).1
        exact Or.inr ⟨hcE, a, hp, .refl a⟩
  · rintro (hr | ⟨e, p, hp, hr⟩)
    · exact rt_lift hE h hr hx
    · rw [e]
      exact (rt_lift hE h hr hx).snoc ((h p E).mpr ⟨rt_end_ne hE hr hx, Or.inr ⟨hp, rfl⟩⟩)

end CkbVerif.Pool
