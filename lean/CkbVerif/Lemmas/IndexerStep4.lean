import CkbVerif.Lemmas.IndexerStep3

/-! The type-script live-cell index under `append` WITH same-block spends (C18). -/
namespace CkbVerif.Indexer

variable {s : Store} {b : Block}

theorem cellType_created2 (wf : WFAppend2 s b) (i : Nat) (tx : Tx) (oi : Nat) (out : Output) (ty : Script)
    (htx : b.txs[i]? = some tx) (hout : tx.outputs[oi]? = some out) (hty : out.type = some ty)
    (hns : ∀ c', ¬ Spent2 s b ⟨tx.id, oi⟩ c') :
    get (appendCore s b) (.cellType ty b.number i oi) = some (.tx tx.id) := by
  rw [get_appendCore_from0 _ (by intro _ _ _ h; cases h)]
  apply get_commit_all_put
  · intro o ho hk
    rcases txsOpsFrom_shape wf 0 o ho with ⟨i', tx', ii', op', c', _, htx', hi', hop', hc', ho'⟩ |
      ⟨i', tx', out', oi', _, htx', hout', ho'⟩ | ⟨i', tx', _, htx', rfl⟩
    · rw [mem_consumeOps] at ho'
      rcases ho' with rfl | rfl | ⟨t, _, rfl | rfl⟩ | rfl | rfl <;> simp [BOp.key] at hk
      exfalso
      obtain ⟨hl, hb, hti, hio⟩ := hk
      obtain ⟨j, txj, outj, htxj, hidj, houtj, hcj⟩ := res_bn wf op' c' hc' hb
      rw [hcj] at hti
      simp only at hti
      subst hti
      rw [htx] at htxj; cases htxj
      apply hns c'
      have : (⟨tx.id, oi⟩ : OutPoint) = op' := by cases op'; simp_all
      rw [this]
      exact ⟨i', tx', ii', htx', hi', hop', hc'⟩
    · rw [mem_createOps] at ho'
      rcases ho' with rfl | rfl | ⟨t, _, rfl | rfl⟩ | rfl <;> simp [BOp.key] at hk
      obtain ⟨hl, hi, hoi⟩ := hk
      subst hi; subst hoi
      rw [htx] at htx'
      cases htx'
      rw [hl]
    · simp [BOp.key] at hk
  · refine ⟨.put (.cellType ty b.number i oi) (.tx tx.id), ?_, rfl⟩
    apply create_mem_from 0 i tx out oi (Nat.zero_le _) htx hout
    rw [mem_createOps]
    right; right; left
    exact ⟨ty, hty, Or.inl rfl⟩

theorem cellType_spent2 (wf : WFAppend2 s b) (op : OutPoint) (c : Cell) (ty : Script)
    (hs : Spent2 s b op c) (hty : c.out.type = some ty) :
    get (appendCore s b) (.cellType ty c.bn c.txIdx op.idx) = none := by
  rw [get_appendCore_nonheader s b _ (by intro _ _ _ h; cases h)]
  obtain ⟨i, tx, ii, htx, hi, hop, hc⟩ := hs
  rw [txsOps_split s b i]
  apply get_commit_suffix_del
  · intro o ho hk
    rcases txsOpsFrom_shape wf i o ho with ⟨i', tx', ii', op', c', _, htx', hi', hop', hc', ho'⟩ |
      ⟨i', tx', out', oi', hle, htx', hout', ho'⟩ | ⟨i', tx', _, htx', rfl⟩
    · rw [mem_consumeOps] at ho'
      rcases ho' with rfl | rfl | ⟨t, _, rfl | rfl⟩ | rfl | rfl <;> simp [BOp.key] at hk
      simp [hk]
    · rw [mem_createOps] at ho'
      rcases ho' with rfl | rfl | ⟨t, _, rfl | rfl⟩ | rfl <;> simp [BOp.key] at hk
      exfalso
      obtain ⟨hl, hb, hti, hio⟩ := hk
      obtain ⟨j, txj, outj, htxj, hidj, houtj, hcj⟩ := res_bn wf op c hc hb.symm
      have hlt := wf.order i tx htx op (List.mem_of_getElem? hop) j txj htxj hidj
      rw [hcj] at hti
      simp only at hti
      omega
    · simp [BOp.key] at hk
  · refine ⟨.del (.cellType ty c.bn c.txIdx op.idx), ?_, rfl⟩
    apply consume_mem_from wf i i tx ii op c (Nat.le_refl _) htx hi hop hc
    rw [mem_consumeOps]
    right; right; left
    exact ⟨ty, hty, Or.inl rfl⟩

theorem cellType_other2 (wf : WFAppend2 s b) (sc : Script) (bn txi io : Nat)
    (hnc : ¬ ∃ (tx : Tx) (out : Output), b.txs[txi]? = some tx ∧ tx.outputs[io]? = some out ∧
      out.type = some sc ∧ bn = b.number)
    (hns : ¬ ∃ (op : OutPoint) (c : Cell), Spent2 s b op c ∧ c.out.type = some sc ∧ c.bn = bn ∧
      c.txIdx = txi ∧ op.idx = io) :
    get (appendCore s b) (.cellType sc bn txi io) = get s (.cellType sc bn txi io) := by
  rw [get_appendCore_from0 _ (by intro _ _ _ h; cases h)]
  apply get_commit_untouched
  intro o ho hk
  rcases txsOpsFrom_shape wf 0 o ho with ⟨i', tx', ii', op', c', _, htx', hi', hop', hc', ho'⟩ |
    ⟨i', tx', out', oi', _, htx', hout', ho'⟩ | ⟨i', tx', _, htx', rfl⟩
  · rw [mem_consumeOps] at ho'
    rcases ho' with rfl | rfl | ⟨t, ht, rfl | rfl⟩ | rfl | rfl <;> simp [BOp.key] at hk
    exact hns ⟨op', c', ⟨i', tx', ii', htx', hi', hop', hc'⟩, by rw [ht, hk.1], hk.2.1, hk.2.2.1, hk.2.2.2⟩
  · rw [mem_createOps] at ho'
    rcases ho' with rfl | rfl | ⟨t, ht, rfl | rfl⟩ | rfl <;> simp [BOp.key] at hk
    obtain ⟨hl, hb, hi, hoi⟩ := hk
    subst hi; subst hoi
    exact hnc ⟨tx', out', htx', hout', by rw [ht, hl], hb.symm⟩
  · simp [BOp.key] at hk

/-- **the type-script live-cell index stays exact under `append`, same-block spends included** -/
theorem typeInv_append2 (wf : WFAppend2 s b) (inv : TypeInv s) : TypeInv (appendCore s b) := by
  intro sc bn txi io t
  constructor
  · intro h
    by_cases hB : ∃ (op : OutPoint) (c : Cell), Spent2 s b op c ∧ c.out.type = some sc ∧ c.bn = bn ∧
        c.txIdx = txi ∧ op.idx = io
    · obtain ⟨op, c, hs, hl, hb, hti, hio⟩ := hB
      subst hb; subst hti; subst hio
      rw [cellType_spent2 wf op c sc hs hl] at h
      cases h
    · by_cases hA : ∃ (tx : Tx) (out : Output), b.txs[txi]? = some tx ∧ tx.outputs[io]? = some out ∧
          out.type = some sc ∧ bn = b.number
      · obtain ⟨tx, out, htx, hout, hl, hb⟩ := hA
        subst hb
        have hcr : Created b ⟨tx.id, io⟩ ⟨b.number, txi, out⟩ := ⟨txi, tx, out, htx, rfl, hout, rfl⟩
        have hns : ∀ c', ¬ Spent2 s b ⟨tx.id, io⟩ c' := by
          intro c' hs'
          obtain ⟨i', tx', ii', htx', hi', hop', hc'⟩ := hs'
          have hc'' : Created b ⟨tx.id, io⟩ c' := by
            rcases hc' with hc' | hc'
            · rw [created_fresh2 wf _ _ hcr] at hc'; cases hc'
            · exact hc'
          have := created_unique wf _ _ _ hcr hc''
          subst this
          exact hB ⟨⟨tx.id, io⟩, _, ⟨i', tx', ii', htx', hi', hop', hc'⟩, hl, rfl, rfl, rfl⟩
        rw [cellType_created2 wf txi tx io out sc htx hout hl hns] at h
        have ht : tx.id = t := by simpa using h
        refine ⟨⟨b.number, txi, out⟩, ?_, hl, rfl, rfl⟩
        rw [← ht]
        exact outPoint_created2 wf _ _ hcr hns
      · rw [cellType_other2 wf sc bn txi io hA hB] at h
        obtain ⟨c, hc, hl, hb, hti⟩ := (inv sc bn txi io t).mp h
        refine ⟨c, ?_, hl, hb, hti⟩
        rw [outPoint_other2 wf ⟨t, io⟩]
        · exact hc
        · intro c0 hc0
          rw [created_fresh2 wf _ c0 hc0] at hc
          cases hc
        · intro c0 hs0
          have hs0' := hs0
          obtain ⟨_, _, _, _, _, _, hres⟩ := hs0
          have : c0 = c := res_unique wf _ _ _ hres (Or.inl hc)
          subst this
          exact hB ⟨⟨t, io⟩, c0, hs0', hl, hb, hti, rfl⟩
  · rintro ⟨c, hc, hl, hb, hti⟩
    by_cases hS : ∃ c0, Spent2 s b ⟨t, io⟩ c0
    · obtain ⟨c0, hs0⟩ := hS
      rw [outPoint_spent2 wf _ c0 hs0] at hc
      cases hc
    · have hS' : ∀ c0, ¬ Spent2 s b ⟨t, io⟩ c0 := fun c0 h => hS ⟨c0, h⟩
      by_cases hC : ∃ c0, Created b ⟨t, io⟩ c0
      · obtain ⟨c0, hc0⟩ := hC
        rw [outPoint_created2 wf _ c0 hc0 hS'] at hc
        have : c0 = c := by cases hc; rfl
        subst this
        obtain ⟨i, tx, out, htx, hid, hout, rfl⟩ := hc0
        simp only at hl hb hti hid hout
        subst hb; subst hti
        have hns : ∀ c', ¬ Spent2 s b ⟨tx.id, io⟩ c' := by rw [hid]; exact hS'
        rw [cellType_created2 wf i tx io out sc htx hout hl hns, hid]
      · rw [outPoint_other2 wf ⟨t, io⟩ (fun c0 h => hC ⟨c0, h⟩) hS'] at hc
        have hrow := (inv sc bn txi io t).mpr ⟨c, hc, hl, hb, hti⟩
        rw [cellType_other2 wf sc bn txi io]
        · exact hrow
        · rintro ⟨tx, out, htx, hout, hl', hb'⟩
          exact wf.oldBn _ c hc (by rw [hb, hb'])
        · rintro ⟨op', c', hs', hl', hb', hti', hio'⟩
          have hs'' := hs'
          obtain ⟨_, _, _, _, _, _, hres'⟩ := hs'
          rcases hres' with hg' | hcr'
          · have hrow' := (inv sc c'.bn c'.txIdx op'.idx op'.tx).mpr
              ⟨c', by cases op'; exact hg', hl', rfl, rfl⟩
            rw [hb', hti', hio', hrow] at hrow'
            have ht : t = op'.tx := by simpa using hrow'
            apply hS
            refine ⟨c', ?_⟩
            have : (⟨t, io⟩ : OutPoint) = op' := by cases op'; simp_all
            rw [this]
            exact hs''
          · obtain ⟨_, _, _, _, _, _, hc''⟩ := hcr'
            have : c'.bn = b.number := by rw [hc'']
            exact wf.oldBn _ c hc (by rw [hb, ← hb', this])

theorem typeInv_chain2 (keep interval : Nat) (blocks : List Block) (s : Store) (inv : TypeInv s)
    (ok : ChainOK2 keep interval s blocks) : TypeInv (blocks.foldl (append keep interval) s) := by
  induction blocks generalizing s with
  | nil => exact inv
  | cons b r ih =>
    obtain ⟨wf, ok'⟩ := ok
    apply ih _ _ ok'
    have hcore := typeInv_append2 wf inv
    unfold append
    dsimp only
    split
    · intro sc bn txi io t
      rw [lockInv_append_prune.prune_answers rfl, lockInv_append_prune.prune_answers rfl]
      exact hcore sc bn txi io t
    · exact hcore

end CkbVerif.Indexer
