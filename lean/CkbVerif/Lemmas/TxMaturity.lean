import CkbVerif.Lemmas.SinceSpec

/-!
Helper lemmas for the C04 maturity theorems (`MaturityVerifier` in `Model/Since.lean`): the closure
`cellbase_immature` decides an exact-fraction comparison; `iter().position(..)` is "first index".
-/
namespace CkbVerif.C04
open CkbVerif.Since CkbVerif.Gen.Tx

/-- **spec**: the referenced cell is an output of the cellbase (transaction index 0) of a block
other than genesis, and at the epoch the environment reports the exact fraction
`created + cellbase_maturity` has not been reached yet: `current < maturity + created` -/
def CellbaseImmature (cfg : Cfg) (env : Env) (info : Option TxInfo) : Prop :=
  ∃ x, info = some x ∧ 0 < x.blockNumber ∧ x.index = 0 ∧
    ¬ fracLe (fracAdd (epFrac cfg.maturity) (epFrac x.blockEpoch)) (epFrac env.epoch)

/-- the epochs the maturity check converts to rationals do not make `to_rational` panic -/
def InfoValid (info : Option TxInfo) : Prop := ∀ x, info = some x → epValid x.blockEpoch

/-- `P` holds at position `i` of `l` and at no earlier position -/
def FirstAt {α : Type} (P : α → Prop) (l : List α) (i : Nat) : Prop :=
  ∃ h : i < l.length, P l[i] ∧ ∀ j (hj : j < i), ¬ P (l[j]'(Nat.lt_trans hj h))

theorem cellbaseImmature_eq (cfg : Cfg) (env : Env) (info : Option TxInfo)
    (hm : epValid cfg.maturity) (henv : epValid env.epoch) (hinfo : InfoValid info) :
    (cellbaseImmature cfg env info = some true ∧ CellbaseImmature cfg env info) ∨
    (cellbaseImmature cfg env info = some false ∧ ¬ CellbaseImmature cfg env info) := by
  unfold cellbaseImmature CellbaseImmature
  cases info with
  | none => right; exact ⟨rfl, fun ⟨x, h, _⟩ => by cases h⟩
  | some x =>
    obtain ⟨rm, hrm, repm⟩ := epToRational_rep hm
    obtain ⟨rb, hrb, repb⟩ := epToRational_rep (hinfo x rfl)
    obtain ⟨rc, hrc, repc⟩ := epToRational_rep henv
    by_cases hcb : (decide (x.blockNumber > 0) && x.index == 0) = true
    · have hcb' : 0 < x.blockNumber ∧ x.index = 0 := by
        simpa using hcb
      simp only [hcb, if_true, hrm, hrb, hrc]
      have key := Since.Rat.lt_iff repc (Since.Rat.add_rep repm repb)
      have hfr : (¬ fracLe (fracAdd (epFrac cfg.maturity) (epFrac x.blockEpoch)) (epFrac env.epoch)) ↔
          (epFrac env.epoch).1 * ((epFrac cfg.maturity).2 * (epFrac x.blockEpoch).2) <
            ((epFrac cfg.maturity).1 * (epFrac x.blockEpoch).2 + (epFrac x.blockEpoch).1 * (epFrac cfg.maturity).2) *
              (epFrac env.epoch).2 := by
        unfold fracLe fracAdd; simp only; omega
      rcases hlt : rc.lt (rm.add rb) with _ | _
      · right
        refine ⟨rfl, ?_⟩
        rintro ⟨y, hy, _, _, hn⟩
        cases hy
        have := key.2 (hfr.1 hn)
        rw [hlt] at this; exact Bool.noConfusion this
      · left
        exact ⟨rfl, x, rfl, hcb'.1, hcb'.2, hfr.2 (key.1 hlt)⟩
    · have hcb2 : (decide (x.blockNumber > 0) && x.index == 0) = false := by
        cases h : (decide (x.blockNumber > 0) && x.index == 0) <;> simp_all
      right
      simp only [hcb2]
      refine ⟨rfl, ?_⟩
      rintro ⟨y, hy, h1, h2, _⟩
      cases hy
      apply hcb
      simp [h1, h2]

theorem cellbaseImmature_true_iff (cfg : Cfg) (env : Env) (info : Option TxInfo)
    (hm : epValid cfg.maturity) (henv : epValid env.epoch) (hinfo : InfoValid info) :
    cellbaseImmature cfg env info = some true ↔ CellbaseImmature cfg env info := by
  rcases cellbaseImmature_eq cfg env info hm henv hinfo with ⟨h1, h2⟩ | ⟨h1, h2⟩
  · exact ⟨fun _ => h2, fun _ => h1⟩
  · constructor
    · intro h; rw [h1] at h; cases h
    · intro h; exact absurd h h2

/-- `iter().position(cellbase_immature)` starting the count at `i`: no panic, and it returns the
first immature position (or none when there is none) -/
theorem firstImmature_spec (cfg : Cfg) (env : Env) (hm : epValid cfg.maturity) (henv : epValid env.epoch)
    (l : List (Option TxInfo)) (hl : ∀ x ∈ l, InfoValid x) (i : Nat) :
    (firstImmature cfg env i l = some none ∧ ∀ x ∈ l, ¬ CellbaseImmature cfg env x) ∨
    (∃ k, firstImmature cfg env i l = some (some (i + k)) ∧ FirstAt (CellbaseImmature cfg env) l k) := by
  induction l generalizing i with
  | nil => left; exact ⟨rfl, by simp⟩
  | cons a rest ih =>
    have ha : InfoValid a := hl a (by simp)
    have hr : ∀ x ∈ rest, InfoValid x := fun x hx => hl x (by simp [hx])
    unfold firstImmature
    rcases cellbaseImmature_eq cfg env a hm henv ha with ⟨h1, h2⟩ | ⟨h1, h2⟩
    · right
      refine ⟨0, by simp [h1], ?_⟩
      exact ⟨by simp, by simpa using h2, fun j hj => absurd hj (Nat.not_lt_zero j)⟩
    · simp only [h1]
      rcases ih hr (i + 1) with ⟨e, hall⟩ | ⟨k, e, hk⟩
      · left
        refine ⟨e, ?_⟩
        intro x hx
        rcases List.mem_cons.1 hx with rfl | hx
        · exact h2
        · exact hall x hx
      · right
        refine ⟨k + 1, by rw [e]; congr 2; omega, ?_⟩
        obtain ⟨hlt, hP, hbefore⟩ := hk
        refine ⟨by simp; omega, by simpa using hP, ?_⟩
        intro j hj
        cases j with
        | zero => simpa using h2
        | succ j => simpa using hbefore j (by omega)

theorem FirstAt.unique {α : Type} {P : α → Prop} {l : List α} {i j : Nat}
    (hi : FirstAt P l i) (hj : FirstAt P l j) : i = j := by
  obtain ⟨h1, p1, b1⟩ := hi
  obtain ⟨h2, p2, b2⟩ := hj
  rcases Nat.lt_trichotomy i j with h | h | h
  · exact absurd p1 (b2 i h)
  · exact h
  · exact absurd p2 (b1 j h)

theorem FirstAt.exists_mem {α : Type} {P : α → Prop} {l : List α} {i : Nat}
    (hi : FirstAt P l i) : ∃ x ∈ l, P x := by
  obtain ⟨h1, p1, _⟩ := hi
  exact ⟨l[i], List.getElem_mem h1, p1⟩

end CkbVerif.C04
