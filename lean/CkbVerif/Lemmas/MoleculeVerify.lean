import CkbVerif.Lemmas.MoleculeCanonical
/-! (F) fixed types decode iff the length is right; (E) verify ↔ decode; (G) compatible ⊇ strict. -/
namespace CkbVerif.Molecule

mutual
theorem fixed_decode (c : Bool) : ∀ (s : Schema) (bs : Bytes), fixed s = true → wf s = true →
    (decode c s bs).isSome = (bs.length == size s)
  | .byte, bs, _, _ => by
      simp only [decode, size]
      match bs with
      | [] => simp
      | [_] => simp
      | _ :: _ :: _ => simp
  | .array it n, bs, hf, hs => by
      simp only [fixed] at hf
      simp only [wf, Bool.and_eq_true] at hs
      simp only [decode, size]
      split
      · rename_i hl
        have hall : (mapOpt (decode c it) (chunk (size it) n bs)).isSome = true := by
          rw [mapOpt_isSome, List.all_eq_true]
          intro x hx
          rw [fixed_decode c it x hf hs.2, chunk_each_length (size it) n bs (by omega) x hx]
          simp
        simp [hall, hl]
      · rename_i hl
        simp [hl]
  | .struct fs, bs, hf, hs => by
      simp only [fixed] at hf
      simp only [wf, Bool.and_eq_true] at hs
      simp only [decode, size]
      split
      · rename_i hl
        have := fixed_decodeS c fs bs hf hs.2 hl
        simp [this, hl]
      · rename_i hl
        simp [hl]
  | .fixvec _, _, hf, _ => by simp [fixed] at hf
  | .dynvec _, _, hf, _ => by simp [fixed] at hf
  | .table _, _, hf, _ => by simp [fixed] at hf
  | .option _, _, hf, _ => by simp [fixed] at hf
  | .union _ _, _, hf, _ => by simp [fixed] at hf
theorem fixed_decodeS (c : Bool) : ∀ (fs : List Schema) (bs : Bytes), fixedL fs = true → wfL fs = true →
    bs.length = sizeL fs → (decodeS c fs bs).isSome = true
  | [], _, _, _, _ => by simp [decodeS]
  | f :: fs, bs, hf, hs, hl => by
      simp only [fixedL, Bool.and_eq_true] at hf
      simp only [wfL, Bool.and_eq_true] at hs
      simp only [sizeL] at hl
      have h1 : (decode c f (bs.take (size f))).isSome = true := by
        rw [fixed_decode c f _ hf.1 hs.1, List.length_take]
        simp; omega
      have h2 : (decodeS c fs (bs.drop (size f))).isSome = true :=
        fixed_decodeS c fs _ hf.2 hs.2 (by rw [List.length_drop]; omega)
      simp only [decodeS]
      cases hd : decode c f (bs.take (size f)) with
      | none => simp [hd] at h1
      | some v =>
        cases hds : decodeS c fs (bs.drop (size f)) with
        | none => simp [hds] at h2
        | some vs => simp
end

mutual
theorem verify_eq_decode (c : Bool) : ∀ (s : Schema) (bs : Bytes), wf s = true →
    verify c s bs = (decode c s bs).isSome
  | .byte, bs, hs => by
      rw [fixed_decode c .byte bs (by simp [fixed]) hs]
      simp [verify, size]
  | .array it n, bs, hs => by
      have hf : fixed (.array it n) = true := by
        simp only [wf, Bool.and_eq_true] at hs
        simp [fixed, hs.1]
      rw [fixed_decode c _ bs hf hs]
      simp [verify, size]
  | .struct fs, bs, hs => by
      have hf : fixed (.struct fs) = true := by
        simp only [wf, Bool.and_eq_true] at hs
        simp [fixed, hs.1]
      rw [fixed_decode c _ bs hf hs]
      simp [verify, size]
  | .fixvec it, bs, hs => by
      simp only [wf, Bool.and_eq_true] at hs
      simp only [verify, decode]
      split
      · rename_i hl
        have hall : (mapOpt (decode c it) (chunk (size it) (num bs) (bs.drop 4))).isSome = true := by
          rw [mapOpt_isSome, List.all_eq_true]
          intro x hx
          rw [fixed_decode c it x hs.1 hs.2, chunk_each_length (size it) (num bs) (bs.drop 4) (by rw [List.length_drop]; omega) x hx]
          simp
        simp [hall, hl.1, ← hl.2]
      · rename_i hl
        simp only [Option.isSome_none, Bool.and_eq_false_iff, decide_eq_false_iff_not, beq_eq_false_iff_ne, ne_eq]
        by_cases h4 : 4 ≤ bs.length
        · right; intro hc; exact hl ⟨h4, hc⟩
        · left; exact h4
  | .dynvec it, bs, hs => by
      simp only [wf] at hs
      simp only [verify, decode]
      split
      · simp
      · split
        · simp
        · rename_i offs _
          rw [Option.isSome_map, mapOpt_isSome]
          apply List.all_congr rfl
          intro x
          exact verify_eq_decode c it x hs
  | .table fs, bs, hs => by
      simp only [wf] at hs
      cases fs with
      | nil =>
        simp only [verify, decode]
        split <;> simp_all
      | cons f fs =>
        simp only [verify, decode]
        split
        · simp
        · rename_i offs _
          split
          · rename_i hfc
            rw [Option.isSome_map, hfc, Bool.true_and]
            exact verifyL_eq_decodeL c (f :: fs) _ hs
          · rename_i hfc
            have : fieldCountOk c (f :: fs).length (offs.length - 1) = false := by simpa using hfc
            rw [this]; simp
  | .option it, bs, hs => by
      simp only [wf, Bool.and_eq_true] at hs
      simp only [verify, decode]
      split
      · rename_i he; simp [he]
      · rename_i he
        rw [Option.isSome_map, ← verify_eq_decode c it bs hs.2]
        simp [he]
  | .union ids its, bs, hs => by
      simp only [wf, Bool.and_eq_true] at hs
      simp only [verify, decode]
      split
      · rename_i hl
        rw [Option.isSome_map, ← verifyU_eq_decodeU c ids its (num bs) (bs.drop 4) hs.2]
        simp [hl]
      · rename_i hl
        simp [hl]
theorem verifyL_eq_decodeL (c : Bool) : ∀ (fs : List Schema) (sl : List Bytes), wfL fs = true →
    verifyL c fs sl = (decodeL c fs sl).isSome
  | [], _, _ => by simp [verifyL, decodeL]
  | _ :: _, [], _ => by simp [verifyL, decodeL]
  | f :: fs, b :: sl, hs => by
      simp only [wfL, Bool.and_eq_true] at hs
      simp only [verifyL, decodeL]
      rw [verify_eq_decode c f b hs.1, verifyL_eq_decodeL c fs sl hs.2]
      cases decode c f b with
      | none => simp
      | some v =>
        cases decodeL c fs sl with
        | none => simp
        | some vs => simp
theorem verifyU_eq_decodeU (c : Bool) : ∀ (ids : List Nat) (its : List Schema) (id : Nat) (bs : Bytes), wfL its = true →
    verifyU c ids its id bs = (decodeU c ids its id bs).isSome
  | [], _, _, _, _ => by simp [verifyU, decodeU]
  | _ :: _, [], _, _, _ => by simp [verifyU, decodeU]
  | i :: ids, s :: ss, id, bs, hs => by
      simp only [wfL, Bool.and_eq_true] at hs
      simp only [verifyU, decodeU]
      split
      · exact verify_eq_decode c s bs hs.1
      · exact verifyU_eq_decodeU c ids ss id bs hs.2
end

/-! ### (G) compatible mode accepts everything strict mode accepts, with the same value -/
theorem fieldCountOk_mono (n m : Nat) (h : fieldCountOk false n m = true) : fieldCountOk true n m = true := by
  simp [fieldCountOk] at *
  omega

mutual
theorem compat_extends : ∀ (s : Schema) (bs : Bytes) (v : Val), decode false s bs = some v → decode true s bs = some v
  | .byte, bs, v, h => by simpa [decode] using h
  | .array it n, bs, v, h => by
      simp only [decode] at h ⊢
      split at h
      · rename_i hl
        obtain ⟨vs, hm, hv⟩ := option_map_eq_some h
        rw [if_pos hl, mapOpt_mono _ (decode true it) _ vs (fun x _ y hy => compat_extends it x y hy) hm]
        simpa using hv
      · simp at h
  | .struct fs, bs, v, h => by
      simp only [decode] at h ⊢
      split at h
      · rename_i hl
        obtain ⟨vs, hm, hv⟩ := option_map_eq_some h
        rw [if_pos hl, compat_extendsS fs bs vs hm]
        simpa using hv
      · simp at h
  | .fixvec it, bs, v, h => by
      simp only [decode] at h ⊢
      split at h
      · rename_i hl
        obtain ⟨vs, hm, hv⟩ := option_map_eq_some h
        rw [if_pos hl, mapOpt_mono _ (decode true it) _ vs (fun x _ y hy => compat_extends it x y hy) hm]
        simpa using hv
      · simp at h
  | .dynvec it, bs, v, h => by
      simp only [decode] at h ⊢
      split at h
      · rename_i he; rw [if_pos he]; exact h
      · rename_i he
        rw [if_neg he]
        split at h
        · simp at h
        · rename_i offs ho
          obtain ⟨vs, hm, hv⟩ := option_map_eq_some h
          rw [mapOpt_mono _ (decode true it) _ vs (fun x _ y hy => compat_extends it x y hy) hm]
          simpa using hv
  | .table fs, bs, v, h => by
      cases fs with
      | nil =>
        simp only [decode] at h ⊢
        split at h
        · rename_i he
          have : emptyTableOk true bs = true := by
            simp [emptyTableOk] at he ⊢
            exact ⟨he.1.1, he.1.2⟩
          rw [if_pos this]; exact h
        · simp at h
      | cons f fs =>
        simp only [decode] at h ⊢
        split at h
        · simp at h
        · rename_i offs ho
          split at h
          · rename_i hfc
            obtain ⟨vs, hm, hv⟩ := option_map_eq_some h
            rw [if_pos (fieldCountOk_mono _ _ hfc), compat_extendsL (f :: fs) _ vs hm]
            simpa using hv
          · simp at h
  | .option it, bs, v, h => by
      simp only [decode] at h ⊢
      split at h
      · rename_i he; rw [if_pos he]; exact h
      · rename_i he
        rw [if_neg he]
        obtain ⟨x, hm, hv⟩ := option_map_eq_some h
        rw [compat_extends it bs x hm]
        simpa using hv
  | .union ids its, bs, v, h => by
      simp only [decode] at h ⊢
      split at h
      · rename_i hl
        obtain ⟨x, hm, hv⟩ := option_map_eq_some h
        rw [if_pos hl, compat_extendsU ids its (num bs) (bs.drop 4) x hm]
        simpa using hv
      · simp at h
theorem compat_extendsS : ∀ (fs : List Schema) (bs : Bytes) (vs : List Val), decodeS false fs bs = some vs →
    decodeS true fs bs = some vs
  | [], _, _, h => by simpa [decodeS] using h
  | f :: fs, bs, vs, h => by
      simp only [decodeS] at h ⊢
      split at h
      · simp at h
      · rename_i v hv
        split at h
        · simp at h
        · rename_i vs' hvs
          rw [compat_extends f _ v hv, compat_extendsS fs _ vs' hvs]
          exact h
theorem compat_extendsL : ∀ (fs : List Schema) (sl : List Bytes) (vs : List Val), decodeL false fs sl = some vs →
    decodeL true fs sl = some vs
  | [], _, _, h => by simpa [decodeL] using h
  | _ :: _, [], _, h => by simp [decodeL] at h
  | f :: fs, b :: sl, vs, h => by
      simp only [decodeL] at h ⊢
      split at h
      · simp at h
      · rename_i v hv
        split at h
        · simp at h
        · rename_i vs' hvs
          rw [compat_extends f b v hv, compat_extendsL fs sl vs' hvs]
          exact h
theorem compat_extendsU : ∀ (ids : List Nat) (its : List Schema) (id : Nat) (bs : Bytes) (v : Val),
    decodeU false ids its id bs = some v → decodeU true ids its id bs = some v
  | [], _, _, _, _, h => by simp [decodeU] at h
  | _ :: _, [], _, _, _, h => by simp [decodeU] at h
  | i :: ids, s :: ss, id, bs, v, h => by
      simp only [decodeU] at h ⊢
      split
      · rename_i e
        rw [if_pos e] at h
        exact compat_extends s bs v h
      · rename_i e
        rw [if_neg e] at h
        exact compat_extendsU ids ss id bs v h
end

end CkbVerif.Molecule
