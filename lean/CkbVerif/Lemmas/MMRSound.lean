import CkbVerif.Lemmas.MMRExpr
import CkbVerif.Lemmas.MMRCommit
/-!
# Soundness of `MerkleProof::verify` (`calculate_root`), argued on the expression tree it builds
-/
namespace CkbVerif.MMR

variable {α : Type}

/-- every atom of `e` occurs in `E` -/
def Uses (e E : Expr α) : Prop := ∀ a, a ∈ e.atoms → a ∈ E.atoms

theorem Uses.refl (e : Expr α) : Uses e e := fun _ h => h

theorem Uses.node_left (e l r : Expr α) (h : Uses e l) : Uses e (.node l r) :=
  fun a ha => by simp only [Expr.atoms, List.mem_append]; exact Or.inl (h a ha)

theorem Uses.node_right (e l r : Expr α) (h : Uses e r) : Uses e (.node l r) :=
  fun a ha => by simp only [Expr.atoms, List.mem_append]; exact Or.inr (h a ha)

theorem Uses.trans {a b c : Expr α} (h1 : Uses a b) (h2 : Uses b c) : Uses a c :=
  fun x hx => h2 x (h1 x hx)

/-- whatever `calculate_peak_root` returns contains every queued item -/
theorem calcPeakLoop_uses (peakPos : Nat) :
    ∀ (f : Nat) (queue : List (Nat × Expr α × Nat)) (proof : List (Expr α)) (r : Expr α) (rest : List (Expr α)),
      calcPeakLoop Expr.node peakPos f queue proof = some (r, rest) →
      ∀ x, x ∈ queue → Uses x.2.1 r := by
  intro f
  induction f with
  | zero => intro queue proof r rest h; simp [calcPeakLoop] at h
  | succ f ih =>
    intro queue proof r rest h
    cases queue with
    | nil => simp [calcPeakLoop] at h
    | cons e q =>
      obtain ⟨pos, item, height⟩ := e
      simp only [calcPeakLoop] at h
      by_cases hp : pos = peakPos
      · simp only [hp, if_true] at h
        cases q with
        | nil =>
          simp at h
          intro x hx
          simp at hx
          subst hx
          rw [← h.1]; exact Uses.refl _
        | cons _ _ => simp at h
      · simp only [hp, if_false] at h
        generalize sibParent pos height = sp at h
        obtain ⟨sib, parent, isRight⟩ := sp
        simp only at h
        have hpar : ∀ (s : Expr α), Uses item (if isRight then Expr.node s item else Expr.node item s) := by
          intro s; cases isRight
          · exact Uses.node_left _ _ _ (Uses.refl _)
          · exact Uses.node_right _ _ _ (Uses.refl _)
        have hsib : ∀ (s : Expr α), Uses s (if isRight then Expr.node s item else Expr.node item s) := by
          intro s; cases isRight
          · exact Uses.node_right _ _ _ (Uses.refl _)
          · exact Uses.node_left _ _ _ (Uses.refl _)
        cases q with
        | nil =>
          cases proof with
          | nil => simp at h
          | cons pe prest =>
            simp only [List.nil_append] at h
            by_cases hle : parent ≤ peakPos
            · simp only [hle, if_true] at h
              have := ih _ _ r rest h
              intro x hx
              simp at hx; subst hx
              exact Uses.trans (hpar pe) (this (parent, (if isRight then Expr.node pe item else Expr.node item pe), height + 1) (by simp))
            · simp [hle] at h
        | cons e2 qrest =>
          obtain ⟨p2, it2, h2⟩ := e2
          by_cases hs : p2 = sib
          · simp only [hs, if_true] at h
            by_cases hle : parent ≤ peakPos
            · simp only [hle, if_true] at h
              have := ih _ _ r rest h
              intro x hx
              simp only [List.mem_cons] at hx
              rcases hx with hx | hx | hx
              · subst hx; exact Uses.trans (hpar it2) (this (parent, (if isRight then Expr.node it2 item else Expr.node item it2), height + 1) (by simp))
              · subst hx; exact Uses.trans (hsib it2) (this (parent, (if isRight then Expr.node it2 item else Expr.node item it2), height + 1) (by simp))
              · exact this x (by simp [hx])
            · simp [hle] at h
          · simp only [hs, if_false] at h
            cases proof with
            | nil => simp at h
            | cons pe prest =>
              simp only at h
              by_cases hle : parent ≤ peakPos
              · simp only [hle, if_true] at h
                have := ih _ _ r rest h
                intro x hx
                simp only [List.mem_cons] at hx
                rcases hx with hx | hx
                · subst hx; exact Uses.trans (hpar pe) (this (parent, (if isRight then Expr.node pe item else Expr.node item pe), height + 1) (by simp))
                · exact this x (by simp only [List.mem_append, List.mem_cons]; left; exact hx)
              · simp [hle] at h

theorem takeWhile_dropWhile_mem {β : Type} (p : β → Bool) (l : List β) (x : β) (hx : x ∈ l) :
    x ∈ l.takeWhile p ∨ x ∈ l.dropWhile p := by
  have := List.takeWhile_append_dropWhile (p := p) (l := l)
  have hx' : x ∈ l.takeWhile p ++ l.dropWhile p := by rw [this]; exact hx
  exact List.mem_append.1 hx'

/-- the per-peak loop: every leaf is either left over or used by one of the produced peak hashes;
the accumulator is kept -/
theorem calcPeaksLoop_uses :
    ∀ (peaks : List Nat) (leaves : List (Nat × Expr α)) (proof acc : List (Expr α))
      (remL : List (Nat × Expr α)) (remP hashes : List (Expr α)),
      calcPeaksLoop Expr.node peaks leaves proof acc = some (remL, remP, hashes) →
      (∀ e, e ∈ acc → e ∈ hashes) ∧
      (∀ l, l ∈ leaves → l ∈ remL ∨ ∃ E, E ∈ hashes ∧ Uses l.2 E) := by
  intro peaks
  induction peaks with
  | nil =>
    intro leaves proof acc remL remP hashes h
    simp [calcPeaksLoop] at h
    obtain ⟨h1, -, h3⟩ := h
    subst h1 h3
    exact ⟨fun e he => he, fun l hl => Or.inl hl⟩
  | cons pk peaks ih =>
    intro leaves proof acc remL remP hashes h
    simp only [calcPeaksLoop] at h
    have hsplit := fun l hl => takeWhile_dropWhile_mem (fun x : Nat × Expr α => decide (x.1 ≤ pk)) leaves l hl
    generalize hm : leaves.takeWhile (fun x => decide (x.1 ≤ pk)) = mine at h hsplit
    generalize leaves.dropWhile (fun x => decide (x.1 ≤ pk)) = rest at h hsplit
    cases mine with
    | nil =>
      cases proof with
      | nil =>
        simp at h
        obtain ⟨h1, -, h3⟩ := h
        subst h1 h3
        refine ⟨fun e he => he, fun l hl => ?_⟩
        rcases hsplit l hl with h' | h'
        · simp at h'
        · exact Or.inl h'
      | cons e prest =>
        simp only at h
        obtain ⟨ha, hl⟩ := ih _ _ _ _ _ _ h
        refine ⟨fun x hx => ha x (by simp [hx]), fun l hl' => ?_⟩
        rcases hsplit l hl' with h' | h'
        · simp at h'
        · exact hl l h'
    | cons m1 mrest =>
      cases mrest with
      | nil =>
        obtain ⟨p, item⟩ := m1
        simp only at h
        by_cases hp : p = pk
        · simp only [hp, if_true] at h
          obtain ⟨ha, hl⟩ := ih _ _ _ _ _ _ h
          refine ⟨fun x hx => ha x (by simp [hx]), fun l hl' => ?_⟩
          rcases hsplit l hl' with h' | h'
          · simp at h'; subst h'
            exact Or.inr ⟨item, ha item (by simp), Uses.refl _⟩
          · exact hl l h'
        · simp only [hp, if_false] at h
          cases hc : calcPeakLoop Expr.node pk (peakFuel pk 1) [(p, item, 0)] proof with
          | none => simp [hc] at h
          | some r =>
            obtain ⟨rr, proof'⟩ := r
            simp only [hc] at h
            obtain ⟨ha, hl⟩ := ih _ _ _ _ _ _ h
            have hu := calcPeakLoop_uses pk _ _ _ _ _ hc
            refine ⟨fun x hx => ha x (by simp [hx]), fun l hl' => ?_⟩
            rcases hsplit l hl' with h' | h'
            · simp at h'; subst h'
              exact Or.inr ⟨rr, ha rr (by simp), hu (p, item, 0) (by simp)⟩
            · exact hl l h'
      | cons m2 mrest2 =>
        simp only at h
        simp only [List.map_cons, List.length_cons] at h
        cases hc : calcPeakLoop Expr.node pk (peakFuel pk (mrest2.length + 1 + 1))
            ((m1.1, m1.2, 0) :: (m2.1, m2.2, 0) :: List.map (fun l => (l.1, l.2, 0)) mrest2) proof with
        | none => simp [hc] at h
        | some r =>
          obtain ⟨rr, proof'⟩ := r
          simp only [hc] at h
          obtain ⟨ha, hl⟩ := ih _ _ _ _ _ _ h
          have hu := calcPeakLoop_uses pk _ _ _ _ _ hc
          refine ⟨fun x hx => ha x (by simp [hx]), fun l hl' => ?_⟩
          rcases hsplit l hl' with h' | h'
          · refine Or.inr ⟨rr, ha rr (by simp), ?_⟩
            refine hu (l.1, l.2, 0) ?_
            simp only [List.mem_cons] at h' ⊢
            rcases h' with h' | h' | h'
            · subst h'; exact Or.inl rfl
            · subst h'; exact Or.inr (Or.inl rfl)
            · exact Or.inr (Or.inr (List.mem_map.2 ⟨l, h', rfl⟩))
          · exact hl l h'

theorem mergePeaks_node_uses (a b : Expr α) :
    Uses a (mergePeaks Expr.node a b) ∧ Uses b (mergePeaks Expr.node a b) := by
  unfold mergePeaks
  split
  · exact ⟨Uses.node_right _ _ _ (Uses.refl _), Uses.node_left _ _ _ (Uses.refl _)⟩
  · exact ⟨Uses.node_left _ _ _ (Uses.refl _), Uses.node_right _ _ _ (Uses.refl _)⟩

theorem foldl_mergePeaks_uses (rest : List (Expr α)) (r : Expr α) :
    Uses r (rest.foldl (fun acc l => mergePeaks Expr.node acc l) r) ∧
    ∀ e, e ∈ rest → Uses e (rest.foldl (fun acc l => mergePeaks Expr.node acc l) r) := by
  induction rest generalizing r with
  | nil => exact ⟨Uses.refl _, fun e he => by simp at he⟩
  | cons x xs ih =>
    simp only [List.foldl_cons]
    obtain ⟨h1, h2⟩ := ih (mergePeaks Expr.node r x)
    obtain ⟨m1, m2⟩ := mergePeaks_node_uses r x
    refine ⟨Uses.trans m1 h1, fun e he => ?_⟩
    simp only [List.mem_cons] at he
    rcases he with he | he
    · subst he; exact Uses.trans m2 h1
    · exact h2 e he

theorem bagRhsPeaks_uses (l : List (Expr α)) (E : Expr α) (h : bagRhsPeaks Expr.node l = some E) :
    ∀ e, e ∈ l → Uses e E := by
  unfold bagRhsPeaks at h
  intro e he
  have he' : e ∈ l.reverse := by simpa using he
  cases hr : l.reverse with
  | nil => rw [hr] at he'; simp at he'
  | cons r rest =>
    rw [hr] at h he'
    simp only [Option.some.injEq] at h
    subst h
    obtain ⟨h1, h2⟩ := foldl_mergePeaks_uses rest r
    simp only [List.mem_cons] at he'
    rcases he' with he' | he'
    · subst he'; exact h1
    · exact h2 e he'

/-! ### sorting and de-duplicating the claimed leaves keeps all of them when positions are distinct -/

def StrictK {β : Type} : List (Nat × β) → Prop
  | [] => True
  | [_] => True
  | x :: y :: rest => x.1 < y.1 ∧ StrictK (y :: rest)

theorem mem_insertLeaf {β : Type} (x y : Nat × β) (l : List (Nat × β)) :
    y ∈ insertLeaf x l ↔ y = x ∨ y ∈ l := by
  induction l with
  | nil => simp [insertLeaf]
  | cons z zs ih =>
    simp only [insertLeaf]
    split
    · simp
    · simp only [List.mem_cons, ih]
      constructor
      · rintro (h | h | h) <;> simp [h]
      · rintro (h | h | h) <;> simp [h]

theorem mem_sortLeaves {β : Type} (y : Nat × β) (l : List (Nat × β)) : y ∈ sortLeaves l ↔ y ∈ l := by
  induction l with
  | nil => simp [sortLeaves]
  | cons x xs ih =>
    have : sortLeaves (x :: xs) = insertLeaf x (sortLeaves xs) := rfl
    rw [this, mem_insertLeaf, ih]; simp

theorem strictK_insertLeaf {β : Type} (x : Nat × β) (l : List (Nat × β)) (h : StrictK l)
    (hx : ∀ y, y ∈ l → y.1 ≠ x.1) : StrictK (insertLeaf x l) := by
  induction l with
  | nil => simp [insertLeaf, StrictK]
  | cons z zs ih =>
    have hz := hx z (by simp)
    simp only [insertLeaf]
    split
    · rename_i hle
      exact ⟨by omega, h⟩
    · rename_i hle
      cases zs with
      | nil => simp only [insertLeaf, StrictK, and_true]; omega
      | cons w ws =>
        have ih' := ih h.2 (fun y hy => hx y (by simp [hy]))
        have hw := hx w (by simp)
        simp only [insertLeaf] at ih' ⊢
        split
        · exact ⟨by omega, by omega, h.2⟩
        · rename_i h2
          simp only [h2, if_false] at ih'
          exact ⟨h.1, ih'⟩

theorem strictK_sortLeaves {β : Type} (l : List (Nat × β)) (hnd : (l.map (·.1)).Nodup) :
    StrictK (sortLeaves l) := by
  induction l with
  | nil => simp [sortLeaves, StrictK]
  | cons x xs ih =>
    have : sortLeaves (x :: xs) = insertLeaf x (sortLeaves xs) := rfl
    rw [this]
    simp only [List.map_cons, List.nodup_cons] at hnd
    refine strictK_insertLeaf x _ (ih hnd.2) ?_
    intro y hy hxy
    rw [mem_sortLeaves] at hy
    exact hnd.1 (by rw [← hxy]; exact List.mem_map.2 ⟨y, hy, rfl⟩)

theorem dedupLeavesFrom_strict {β : Type} (k : Nat) (l : List (Nat × β)) (h : StrictK l)
    (hk : ∀ y, y ∈ l.head? → k < y.1) : dedupLeavesFrom k l = l := by
  induction l generalizing k with
  | nil => rfl
  | cons y ys ih =>
    have hy := hk y (by simp)
    simp only [dedupLeavesFrom]
    rw [if_neg (by omega)]
    congr 1
    refine ih y.1 ?_ ?_
    · cases ys with
      | nil => trivial
      | cons _ _ => exact h.2
    · intro z hz
      cases ys with
      | nil => simp at hz
      | cons w ws => simp at hz; subst hz; exact h.1

theorem dedupLeaves_strict {β : Type} (l : List (Nat × β)) (h : StrictK l) : dedupLeaves l = l := by
  cases l with
  | nil => rfl
  | cons x xs =>
    simp only [dedupLeaves]
    congr 1
    refine dedupLeavesFrom_strict x.1 xs ?_ ?_
    · cases xs with
      | nil => trivial
      | cons _ _ => exact h.2
    · intro z hz
      cases xs with
      | nil => simp at hz
      | cons w ws => simp at hz; subst hz; exact h.1

/-- **Every claimed leaf ends up inside the computed root** (distinct positions). -/
theorem calculateRoot_uses (leaves : List (Nat × Expr α)) (mmrSize : Nat) (proof : List (Expr α))
    (E : Expr α) (hnd : (leaves.map (·.1)).Nodup)
    (h : calculateRoot Expr.node leaves mmrSize proof = some E) :
    ∀ l, l ∈ leaves → Uses l.2 E := by
  unfold calculateRoot at h
  cases hph : calculatePeaksHashes Expr.node leaves mmrSize proof with
  | none => simp [hph] at h
  | some hashes =>
    simp only [hph, baggingPeaksHashes] at h
    have hbag := bagRhsPeaks_uses hashes E h
    intro l hl
    suffices ∃ X, X ∈ hashes ∧ Uses l.2 X by
      obtain ⟨X, hX, hu⟩ := this
      exact Uses.trans hu (hbag X hX)
    unfold calculatePeaksHashes at hph
    by_cases h1 : (leaves.any fun l => decide (posHeightInTree l.1 > 0)) = true
    · simp [h1] at hph
    · simp only [h1] at hph
      by_cases h2 : mmrSize = 1 ∧ leaves.length = 1 ∧ List.map (fun x => x.1) leaves = [0]
      · simp only [h2, and_self, if_true, Bool.false_eq_true, if_false, Option.some.injEq] at hph
        subst hph
        exact ⟨l.2, List.mem_map.2 ⟨l, hl, rfl⟩, Uses.refl _⟩
      · simp only [h2, if_false, Bool.false_eq_true] at hph
        rw [dedupLeaves_strict _ (strictK_sortLeaves leaves hnd)] at hph
        cases hc : calcPeaksLoop Expr.node (getPeaks mmrSize) (sortLeaves leaves) proof [] with
        | none => simp [hc] at hph
        | some r =>
          obtain ⟨remL, remP, hs⟩ := r
          simp only [hc] at hph
          obtain ⟨-, hl'⟩ := calcPeaksLoop_uses _ _ _ _ _ _ _ hc
          have hmem : l ∈ sortLeaves leaves := (mem_sortLeaves l leaves).2 hl
          by_cases h3 : (!remL.isEmpty) = true
          · simp [h3] at hph
          · simp only [h3, if_false, Bool.false_eq_true] at hph
            have hrem : remL = [] := by cases remL with
              | nil => rfl
              | cons _ _ => simp at h3
            subst hrem
            rcases hl' l hmem with h' | ⟨X, hX, hu⟩
            · simp at h'
            · cases remP with
              | nil => simp at hph; subst hph; exact ⟨X, hX, hu⟩
              | cons e rest =>
                cases rest with
                | nil => simp at hph; subst hph; exact ⟨X, by simp [hX], hu⟩
                | cons _ _ => simp at hph

/-! ### the algebra of header digests that soundness needs -/

/-- `merge` is injective and propagates block-number ranges the way `MergeHeaderDigest::merge`
does (`start_number` of the left operand, `end_number` of the right one) -/
structure RangeAlg (merge : α → α → α) (lo hi : α → Nat) : Prop where
  inj : Injective2 merge
  lo_merge : ∀ a b, lo (merge a b) = lo a
  hi_merge : ∀ a b, hi (merge a b) = hi b

/-- the chain's leaves: leaf `i` is the digest of block `i` (`start = end = i`) and no leaf digest
is the output of a merge (a header hash is not the hash of two node hashes) -/
structure ChainLeaves (merge : α → α → α) (lo hi : α → Nat) (L : List α) : Prop where
  num : ∀ i (h : i < L.length), lo L[i] = i ∧ hi L[i] = i
  sep : ∀ i (h : i < L.length) a b, L[i] ≠ merge a b

/-- the atoms of `T` are the leaves `L[j], L[j+1], …` -/
def Slice (L : List α) (T : Expr α) (j : Nat) : Prop :=
  ∀ i, i < T.atoms.length → T.atoms[i]? = L[j + i]? ∧ j + i < L.length

theorem atoms_length_pos (T : Expr α) : 0 < T.atoms.length := by
  induction T with
  | atom v => simp [Expr.atoms]
  | node l r ihl ihr => simp only [Expr.atoms, List.length_append]; omega

theorem Slice.left {L : List α} {l r : Expr α} {j : Nat} (h : Slice L (.node l r) j) : Slice L l j := by
  intro i hi
  have := h i (by simp only [Expr.atoms, List.length_append]; omega)
  simp only [Expr.atoms] at this
  rw [List.getElem?_append_left hi] at this
  exact this

theorem Slice.right {L : List α} {l r : Expr α} {j : Nat} (h : Slice L (.node l r) j) :
    Slice L r (j + l.atoms.length) := by
  intro i hi
  have := h (l.atoms.length + i) (by simp only [Expr.atoms, List.length_append]; omega)
  simp only [Expr.atoms] at this
  rw [List.getElem?_append_right (by omega)] at this
  have e : l.atoms.length + i - l.atoms.length = i := by omega
  rw [e] at this
  have e2 : j + (l.atoms.length + i) = j + l.atoms.length + i := by omega
  rw [e2] at this
  exact this

theorem slice_range {merge : α → α → α} {lo hi : α → Nat} (hR : RangeAlg merge lo hi) {L : List α}
    (hL : ChainLeaves merge lo hi L) :
    ∀ (T : Expr α) (j : Nat), Slice L T j →
      lo (T.eval merge) = j ∧ hi (T.eval merge) = j + T.atoms.length - 1 := by
  intro T
  induction T with
  | atom v =>
    intro j h
    obtain ⟨h0, hj⟩ := h 0 (by simp [Expr.atoms])
    simp only [Expr.atoms, List.getElem?_cons_zero, Nat.add_zero] at h0
    have hj' : j < L.length := by omega
    rw [List.getElem?_eq_getElem hj'] at h0
    have hv : v = L[j] := by simpa using h0
    have := hL.num j hj'
    simp only [Expr.eval, Expr.atoms, List.length_cons, List.length_nil]
    rw [hv]; omega
  | node l r ihl ihr =>
    intro j h
    have hl := ihl j h.left
    have hr := ihr _ h.right
    have pl := atoms_length_pos l
    have pr := atoms_length_pos r
    simp only [Expr.eval, hR.lo_merge, hR.hi_merge, Expr.atoms, List.length_append]
    omega

/-- **Algebraic core of soundness.** If an expression `E` (built by anybody from arbitrary atoms)
evaluates to the same value as a tree `T` over consecutive chain leaves, then every atom of `E`
that has the form of a leaf digest (`lo = hi`) *is* the chain's leaf with that number. -/
theorem sound_core {merge : α → α → α} {lo hi : α → Nat} (hR : RangeAlg merge lo hi) {L : List α}
    (hL : ChainLeaves merge lo hi L) :
    ∀ (E T : Expr α) (j : Nat), Slice L T j → E.eval merge = T.eval merge →
      ∀ a, a ∈ E.atoms → lo a = hi a → L[lo a]? = some a := by
  intro E
  induction E with
  | atom v =>
    intro T j hs he a ha hlh
    simp only [Expr.atoms, List.mem_singleton] at ha
    subst ha
    simp only [Expr.eval] at he
    have hr := slice_range hR hL T j hs
    rw [← he] at hr
    have hp := atoms_length_pos T
    have hlen : T.atoms.length = 1 := by omega
    cases T with
    | atom t =>
      obtain ⟨h0, hj⟩ := hs 0 (by simp [Expr.atoms])
      simp only [Expr.atoms, List.getElem?_cons_zero, Nat.add_zero] at h0
      simp only [Expr.eval] at he
      rw [hr.1, ← h0, he]
    | node l r =>
      have := atoms_length_pos l
      have := atoms_length_pos r
      simp only [Expr.atoms, List.length_append] at hlen
      omega
  | node e1 e2 ih1 ih2 =>
    intro T j hs he a ha hlh
    cases T with
    | atom t =>
      obtain ⟨h0, hj⟩ := hs 0 (by simp [Expr.atoms])
      simp only [Expr.atoms, List.getElem?_cons_zero, Nat.add_zero] at h0
      have hj' : j < L.length := by omega
      rw [List.getElem?_eq_getElem hj'] at h0
      have ht : t = L[j] := by simpa using h0
      simp only [Expr.eval] at he
      exact absurd (ht ▸ he.symm) (hL.sep j hj' _ _)
    | node l r =>
      simp only [Expr.eval] at he
      obtain ⟨h1, h2⟩ := hR.inj _ _ _ _ he
      simp only [Expr.atoms, List.mem_append] at ha
      rcases ha with ha | ha
      · exact ih1 l j hs.left h1 a ha hlh
      · exact ih2 r _ hs.right h2 a ha hlh

/-! ### the true chain root is the value of a tree over the chain's leaves, in order -/

def gmap (merge : α → α → α) (m : Nat × Expr α) : Nat × α := (m.1, m.2.eval merge)

section truetree
variable (merge : α → α → α)
local notation "ev" => Expr.eval merge
local notation "gm" => gmap merge

theorem heights_map_gm (ms : List (Nat × Expr α)) : heights (ms.map gm) = heights ms := by
  simp [heights, gmap, Function.comp_def]

theorem topR_hom (ms : List (Nat × Expr α)) (x : Expr α) :
    topR merge (ms.map gm) (ev x) = ev (topR Expr.node ms x) := by
  induction ms with
  | nil => rfl
  | cons m r ih =>
    obtain ⟨h, v⟩ := m
    simp only [List.map_cons, gmap, topR, List.length_map]
    split
    · simp only [Expr.eval, ih]
    · exact ih

theorem pushD_hom (ms : List (Nat × Expr α)) (x : Expr α) :
    pushD merge (ms.map gm) (ev x) = (pushD Expr.node ms x).map gm := by
  induction ms with
  | nil => rfl
  | cons m r ih =>
    obtain ⟨h, v⟩ := m
    simp only [List.map_cons, gmap, pushD, List.length_map]
    split
    · simp only [List.map_cons, List.map_nil, gmap, Expr.eval, topR_hom]
    · simp only [List.map_cons, gmap, ih]

theorem foldl_pushD_hom (l : List (Expr α)) (ms : List (Nat × Expr α)) :
    (l.map ev).foldl (pushD merge) (ms.map gm) = (l.foldl (pushD Expr.node) ms).map gm := by
  induction l generalizing ms with
  | nil => rfl
  | cons x xs ih => simp only [List.map_cons, List.foldl_cons, pushD_hom, ih]

theorem bagD_hom (ms : List (Nat × Expr α)) :
    bagD merge (ms.map gm) = (bagD Expr.node ms).map ev := by
  induction ms with
  | nil => rfl
  | cons m r ih =>
    obtain ⟨h, v⟩ := m
    simp only [List.map_cons, gmap, bagD, ih]
    cases bagD Expr.node r with
    | none => rfl
    | some b => simp only [Option.map_some, mergePeaks_hom]

end truetree

def atomsM (ms : List (Nat × Expr α)) : List α := ms.flatMap fun m => m.2.atoms

theorem topR_atoms :
    ∀ (r : List (Nat × Expr α)) (b : Nat) (x : Expr α), DescB b (heights r) → r.length = b →
      (topR Expr.node r x).atoms = atomsM r ++ x.atoms := by
  intro r
  induction r with
  | nil => intro b x _ _; simp [topR, atomsM]
  | cons m r ih =>
    obtain ⟨h, v⟩ := m
    intro b x hd hl
    have hd2 : DescB h (heights r) := hd.2
    have hrl := DescB_len hd2
    have hlt : h < b := hd.1
    simp [heights] at hrl
    simp at hl
    have hf : h = r.length := by omega
    have : topR Expr.node ((h, v) :: r) x = Expr.node v (topR Expr.node r x) := by simp [topR, hf]
    rw [this]
    simp only [Expr.atoms, ih h x hd2 hf.symm, atomsM, List.flatMap_cons, List.append_assoc]

theorem pushD_atoms :
    ∀ (ms : List (Nat × Expr α)) (b : Nat) (x : Expr α), DescB b (heights ms) →
      atomsM (pushD Expr.node ms x) = atomsM ms ++ x.atoms := by
  intro ms
  induction ms with
  | nil => intro b x _; simp [pushD, atomsM]
  | cons m r ih =>
    obtain ⟨h, v⟩ := m
    intro b x hd
    have hd2 : DescB h (heights r) := hd.2
    by_cases hf : h = r.length
    · simp only [pushD, hf, if_true, atomsM, List.flatMap_cons, List.flatMap_nil, List.append_nil, Expr.atoms]
      rw [topR_atoms r h x hd2 hf.symm]
      simp [atomsM]
    · simp only [pushD, hf, if_false, atomsM, List.flatMap_cons, List.append_assoc]
      have := ih h x hd2
      simp only [atomsM] at this
      rw [this]

theorem specD_atoms (L : List α) :
    atomsM (specD Expr.node (L.map Expr.atom)) = L := by
  unfold specD
  suffices ∀ (ms : List (Nat × Expr α)), (∃ b, DescB b (heights ms)) →
      atomsM ((L.map Expr.atom).foldl (pushD Expr.node) ms) = atomsM ms ++ L by
    simpa [atomsM] using this [] ⟨0, trivial⟩
  induction L with
  | nil => intro ms _; simp
  | cons x xs ih =>
    intro ms ⟨b, hd⟩
    have hd' : DescB (max b ((heights ms).length + 1)) (heights (pushD Expr.node ms (Expr.atom x))) := by
      rw [heights_pushD]; exact DescB_inc (DescB_mono hd (by omega)) (by omega)
    simp only [List.map_cons, List.foldl_cons]
    rw [ih _ ⟨_, hd'⟩, pushD_atoms ms b _ hd]
    simp [Expr.atoms]

theorem mergePeaks_node (a b : Expr α) : mergePeaks Expr.node a b = Expr.node b a := by
  simp [mergePeaks, Gen.MMR.MERGE_PEAKS_ARGS]

theorem bagD_atoms (ms : List (Nat × Expr α)) (E : Expr α) (h : bagD Expr.node ms = some E) :
    E.atoms = atomsM ms := by
  induction ms generalizing E with
  | nil => simp [bagD] at h
  | cons m r ih =>
    obtain ⟨hh, v⟩ := m
    simp only [bagD] at h
    cases hb : bagD Expr.node r with
    | none =>
      simp only [hb, Option.some.injEq] at h
      subst h
      cases r with
      | nil => simp [atomsM]
      | cons m2 r2 =>
        exfalso
        simp only [bagD] at hb
        cases hb2 : bagD Expr.node r2 with
        | none => rw [hb2] at hb; exact absurd hb (by simp)
        | some _ => rw [hb2] at hb; exact absurd hb (by simp)
    | some b =>
      simp only [hb, Option.some.injEq] at h
      subst h
      rw [mergePeaks_node]
      simp only [Expr.atoms, ih b hb, atomsM, List.flatMap_cons]

/-- the chain root over `L` is the value of a tree whose leaves are exactly `L`, in order -/
theorem root_tree (merge : α → α → α) (L : List α) (root : α)
    (hroot : bagD merge (specD merge L) = some root) :
    ∃ T : Expr α, T.eval merge = root ∧ Slice L T 0 ∧ T.atoms = L := by
  have h1 := foldl_pushD_hom merge (L.map Expr.atom) []
  simp only [List.map_nil, List.map_map] at h1
  have hid : (Expr.eval merge ∘ Expr.atom) = (id : α → α) := by funext x; rfl
  rw [hid, List.map_id] at h1
  have h2 := bagD_hom merge (specD Expr.node (L.map Expr.atom))
  unfold specD at hroot h2
  rw [← h1, hroot] at h2
  cases hT : bagD Expr.node ((L.map Expr.atom).foldl (pushD Expr.node) []) with
  | none => rw [hT] at h2; simp at h2
  | some T =>
    rw [hT] at h2
    simp only [Option.map_some, Option.some.injEq] at h2
    refine ⟨T, h2.symm, ?_⟩
    have hat : T.atoms = L := by
      rw [bagD_atoms _ T hT]
      exact specD_atoms L
    refine ⟨?_, hat⟩
    intro i hi
    rw [hat] at hi ⊢
    exact ⟨by simp, by omega⟩

end CkbVerif.MMR
