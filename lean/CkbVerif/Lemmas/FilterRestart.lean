import CkbVerif.Lemmas.Filter
/-! The restart rule of `BlockFilter::build_filter_data`: invariants and the catch-up lemma. -/
namespace CkbVerif.Filter

variable {ρ : Type}

def builtP (s : FState ρ) (id : Nat) : Prop := (lookupHash s.built id).isSome = true

/-- what the snapshot guarantees about the main chain and the block tree -/
structure WF (v : View) : Prop where
  id_eq : ∀ i, (v.blk i).id = i
  main_number : ∀ n, n ≤ v.tip → (v.blk (v.mainAt n)).number = n
  main_parent : ∀ n, n < v.tip → (v.blk (v.mainAt (n + 1))).parent = v.mainAt n
  is_main : ∀ i, v.isMain i = true ↔ ((v.blk i).number ≤ v.tip ∧ v.mainAt (v.blk i).number = i)
  parent_number : ∀ i, (v.blk i).number ≠ 0 → (v.blk (v.blk i).parent).number + 1 = (v.blk i).number
  genesis : ∀ i, (v.blk i).number = 0 → i = v.mainAt 0

/-- the stored filters are closed under "parent" and `latest` points into them -/
structure Closed (v : View) (s : FState ρ) : Prop where
  parent_built : ∀ id, builtP s id → (v.blk id).number = 0 ∨ builtP s (v.blk id).parent
  latest_built : ∀ l, s.latest = some l → builtP s l

/-- every main-chain block below `n` has a filter -/
def MainBuilt (v : View) (s : FState ρ) (n : Nat) : Prop :=
  ∀ m, m < n → m ≤ v.tip → builtP s (v.mainAt m)

theorem builtP_cons (k : Nat) (h : ρ) (built : List (Nat × ρ)) (latest : Option Nat) (id : Nat) :
    builtP (⟨(k, h) :: built, latest⟩ : FState ρ) id ↔ (k = id ∨ (lookupHash built id).isSome = true) := by
  unfold builtP
  simp only [lookupHash_cons]
  by_cases hk : k = id <;> simp [hk]

theorem buildOne_step (H : ρ → Nat → ρ) (zero : ρ) (v : View) (hwf : WF v) (s : FState ρ) (n : Nat)
    (hn : n ≤ v.tip) (hmb : MainBuilt v s n) (hc : Closed v s) :
    ∃ s', buildOne H zero s (v.blk (v.mainAt n)) = some s' ∧ MainBuilt v s' (n + 1) ∧ Closed v s' := by
  have hid := hwf.id_eq (v.mainAt n)
  have hnum := hwf.main_number n hn
  unfold buildOne
  rw [hid]
  cases hl : lookupHash s.built (v.mainAt n) with
  | some h0 =>
    refine ⟨s, rfl, ?_, hc⟩
    intro m hm hmt
    by_cases hmn : m = n
    · subst hmn; simp [builtP, hl]
    · exact hmb m (by omega) hmt
  | none =>
    -- the parent's hash is available
    have hparent : ∃ ph, (if (v.blk (v.mainAt n)).number = 0 then some zero
        else lookupHash s.built (v.blk (v.mainAt n)).parent) = some ph := by
      by_cases h0 : n = 0
      · subst h0; simp [hnum]
      · have hp : (v.blk (v.mainAt n)).parent = v.mainAt (n - 1) := by
          have := hwf.main_parent (n - 1) (by omega)
          have e : n - 1 + 1 = n := by omega
          rw [e] at this; exact this
        have hb := hmb (n - 1) (by omega) (by omega)
        unfold builtP at hb
        rw [hnum, hp]
        simp only [h0, if_false]
        cases hq : lookupHash s.built (v.mainAt (n - 1)) with
        | none => simp [hq] at hb
        | some ph => exact ⟨ph, rfl⟩
    obtain ⟨ph, hph⟩ := hparent
    simp only [hph]
    refine ⟨_, rfl, ?_, ?_⟩
    · intro m hm hmt
      rw [builtP_cons]
      by_cases hmn : m = n
      · subst hmn; exact Or.inl rfl
      · exact Or.inr (hmb m (by omega) hmt)
    · constructor
      · intro id hb
        rw [builtP_cons] at hb
        rcases hb with hb | hb
        · subst hb
          by_cases h0 : n = 0
          · left; rw [hnum]; exact h0
          · right
            rw [builtP_cons]; right
            have hp : (v.blk (v.mainAt n)).parent = v.mainAt (n - 1) := by
              have := hwf.main_parent (n - 1) (by omega)
              have e : n - 1 + 1 = n := by omega
              rw [e] at this; exact this
            rw [hp]
            exact hmb (n - 1) (by omega) (by omega)
        · rcases hc.parent_built id hb with h | h
          · exact Or.inl h
          · right; rw [builtP_cons]; exact Or.inr h
      · intro l hlq
        simp at hlq
        subst hlq
        rw [builtP_cons]; exact Or.inl rfl

theorem buildRange_catchup (H : ρ → Nat → ρ) (zero : ρ) (v : View) (hwf : WF v) :
    ∀ (k start : Nat) (s : FState ρ), start + k = v.tip + 1 → MainBuilt v s start → Closed v s →
      ∃ s', buildRange H zero s ((List.range k).map fun i => v.blk (v.mainAt (start + i))) = some s' ∧
        MainBuilt v s' (v.tip + 1) ∧ Closed v s' := by
  intro k
  induction k with
  | zero =>
    intro start s hk hmb hc
    refine ⟨s, rfl, ?_, hc⟩
    have : start = v.tip + 1 := by omega
    rw [← this]; exact hmb
  | succ k ih =>
    intro start s hk hmb hc
    obtain ⟨s1, h1, hmb1, hc1⟩ := buildOne_step H zero v hwf s start (by omega) hmb hc
    obtain ⟨s2, h2, hmb2, hc2⟩ := ih (start + 1) s1 (by omega) hmb1 hc1
    refine ⟨s2, ?_, hmb2, hc2⟩
    rw [List.range_succ_eq_map]
    simp only [List.map_cons, List.map_map, buildRange, Nat.add_zero, h1]
    have : ((fun i => v.blk (v.mainAt (start + i))) ∘ Nat.succ) = fun i => v.blk (v.mainAt (start + 1 + i)) := by
      funext i; simp [Function.comp]; congr 2; omega
    rw [this]; exact h2

/-- main-chain ancestors of a built main-chain block are built -/
theorem main_below_built (v : View) (hwf : WF v) (s : FState ρ) (hc : Closed v s) :
    ∀ (n : Nat), n ≤ v.tip → builtP s (v.mainAt n) → MainBuilt v s (n + 1) := by
  intro n
  induction n with
  | zero =>
    intro _ hb m hm _
    have : m = 0 := by omega
    subst this; exact hb
  | succ n ih =>
    intro hn hb m hm hmt
    by_cases hmn : m = n + 1
    · subst hmn; exact hb
    · have hnum := hwf.main_number (n + 1) hn
      rcases hc.parent_built _ hb with h | h
      · omega
      · rw [hwf.main_parent n (by omega)] at h
        exact ih (by omega) h m (by omega) hmt

/-- the fork walk ends at a built, off-main block whose parent is on the main chain -/
theorem walkBack_spec (v : View) (hwf : WF v) (s : FState ρ) (hc : Closed v s) :
    ∀ (f : Nat) (i : Nat), (v.blk i).number ≤ f → v.isMain i = false → builtP s i →
      ∃ j, walkBack v f (v.blk i) = v.blk j ∧ v.isMain j = false ∧ builtP s j ∧
        v.isMain (v.blk j).parent = true ∧ (v.blk j).number ≠ 0 := by
  intro f
  induction f with
  | zero =>
    intro i hf hnm _
    have h0 : (v.blk i).number = 0 := by omega
    have := hwf.genesis i h0
    have hm : v.isMain i = true := by
      rw [hwf.is_main]; rw [h0]; exact ⟨by omega, this.symm⟩
    rw [hm] at hnm; exact absurd hnm (by simp)
  | succ f ih =>
    intro i hf hnm hb
    have hne : (v.blk i).number ≠ 0 := by
      intro h0
      have := hwf.genesis i h0
      have hm : v.isMain i = true := by
        rw [hwf.is_main]; rw [h0]; exact ⟨by omega, this.symm⟩
      rw [hm] at hnm; exact absurd hnm (by simp)
    simp only [walkBack]
    by_cases hp : v.isMain (v.blk i).parent = true
    · simp only [hp, if_true]
      exact ⟨i, rfl, hnm, hb, hp, hne⟩
    · simp only [hp, if_false]
      have hpn := hwf.parent_number i hne
      have hpb : builtP s (v.blk i).parent := by
        rcases hc.parent_built i hb with h | h
        · exact absurd h hne
        · exact h
      exact ih (v.blk i).parent (by omega) (by simpa using hp) hpb

theorem start_mainBuilt (v : View) (hwf : WF v) (s : FState ρ) (hc : Closed v s) :
    MainBuilt v s (startNumber v s.latest) ∧ startNumber v s.latest ≤ v.tip + 1 := by
  unfold startNumber
  cases hl : s.latest with
  | none =>
    show MainBuilt v s 0 ∧ 0 ≤ v.tip + 1
    exact ⟨fun m hm _ => absurd hm (by omega), by omega⟩
  | some l =>
    have hb := hc.latest_built l hl
    show MainBuilt v s (if v.isMain l = true then (v.blk l).number + 1
        else (walkBack v (v.blk l).number (v.blk l)).number) ∧
      (if v.isMain l = true then (v.blk l).number + 1
        else (walkBack v (v.blk l).number (v.blk l)).number) ≤ v.tip + 1
    by_cases hm : v.isMain l = true
    · rw [if_pos hm]
      obtain ⟨hle, heq⟩ := (hwf.is_main l).1 hm
      refine ⟨?_, by omega⟩
      have := main_below_built v hwf s hc (v.blk l).number hle (by rw [heq]; exact hb)
      exact this
    · rw [if_neg hm]
      obtain ⟨j, hj, -, hjb, hjp, hjn⟩ :=
        walkBack_spec v hwf s hc (v.blk l).number l (Nat.le_refl _) (by simpa using hm) hb
      rw [hj]
      have hpn := hwf.parent_number j hjn
      obtain ⟨hle, heq⟩ := (hwf.is_main _).1 hjp
      have hpb : builtP s (v.blk j).parent := by
        rcases hc.parent_built j hjb with h | h
        · exact absurd h hjn
        · exact h
      have := main_below_built v hwf s hc _ hle (by rw [heq]; exact hpb)
      have e : (v.blk (v.blk j).parent).number + 1 = (v.blk j).number := hpn
      rw [e] at this
      exact ⟨this, by omega⟩

end CkbVerif.Filter
