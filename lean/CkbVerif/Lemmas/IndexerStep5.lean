import CkbVerif.Lemmas.IndexerStep4

/-! The transaction-history rows written by one `append`, same-block spends included (C18).
(Generated from IndexerHistory.lean's proofs: these rows are put-only, so no order is involved.) -/
namespace CkbVerif.Indexer

variable {s : Store} {b : Block}

/-- the TxLockScript rows of the appended block's number are exactly: one `output` row per output
(under its lock script) and one `input` row per resolved input of a non-cellbase transaction (under
the lock script of the cell it spends), each mapping to the transaction's id -/
theorem txLock_step2 (wf : WFAppend2 s b)
    (fresh : ∀ (sc : Script) (txi io : Nat) (t : IoType), get s (.txLock sc b.number txi io t) = none)
    (sc : Script) (i io : Nat) (t : IoType) (id : Nat) :
    get (appendCore s b) (.txLock sc b.number i io t) = some (.tx id) ↔
      ∃ tx : Tx, b.txs[i]? = some tx ∧ id = tx.id ∧
        ((t = .output ∧ ∃ out : Output, tx.outputs[io]? = some out ∧ out.lock = sc) ∨
         (t = .input ∧ i ≠ 0 ∧ ∃ (op : OutPoint) (c : Cell), tx.inputs[io]? = some op ∧
            Res s b op c ∧ c.out.lock = sc)) := by
  rw [get_appendCore_from0 _ (by intro _ _ _ h; cases h)]
  -- every entry that mentions the key is a put of the id of the transaction at index `i`
  have hputs : ∀ o ∈ txsOpsFrom s b 0, o.key = .txLock sc b.number i io t →
      ∃ tx : Tx, b.txs[i]? = some tx ∧ o = .put (.txLock sc b.number i io t) (.tx tx.id) ∧
        ((t = .output ∧ ∃ out : Output, tx.outputs[io]? = some out ∧ out.lock = sc) ∨
         (t = .input ∧ i ≠ 0 ∧ ∃ (op : OutPoint) (c : Cell), tx.inputs[io]? = some op ∧
            Res s b op c ∧ c.out.lock = sc)) := by
    intro o ho hk
    rcases txsOpsFrom_shape wf 0 o ho with ⟨i', tx', ii', op', c', _, htx', hi', hop', hc', ho'⟩ |
      ⟨i', tx', out', oi', _, htx', hout', ho'⟩ | ⟨i', tx', _, htx', rfl⟩
    · rw [mem_consumeOps] at ho'
      rcases ho' with rfl | rfl | ⟨t', _, rfl | rfl⟩ | rfl | rfl <;> simp [BOp.key] at hk
      obtain ⟨h1, h2, h3, h4⟩ := hk
      subst h1; subst h2; subst h3; subst h4
      exact ⟨tx', htx', rfl, Or.inr ⟨rfl, hi', op', c', hop', hc', rfl⟩⟩
    · rw [mem_createOps] at ho'
      rcases ho' with rfl | rfl | ⟨t', _, rfl | rfl⟩ | rfl <;> simp [BOp.key] at hk
      obtain ⟨h1, h2, h3, h4⟩ := hk
      subst h1; subst h2; subst h3; subst h4
      exact ⟨tx', htx', rfl, Or.inl ⟨rfl, out', hout', rfl⟩⟩
    · simp [BOp.key] at hk
  constructor
  · intro h
    by_cases htouch : ∃ o ∈ txsOpsFrom s b 0, o.key = .txLock sc b.number i io t
    · obtain ⟨o, ho, hk⟩ := htouch
      obtain ⟨tx, htx, rfl, hcase⟩ := hputs o ho hk
      have hval := get_commit_all_put (txsOpsFrom s b 0) s _ (.tx tx.id) (by
        intro o' ho' hk'
        obtain ⟨tx', htx', ho'', _⟩ := hputs o' ho' hk'
        rw [htx] at htx'
        cases htx'
        exact ho'') ⟨_, ho, hk⟩
      rw [hval] at h
      have : tx.id = id := by simpa using h
      exact ⟨tx, htx, this.symm, hcase⟩
    · rw [get_commit_untouched _ _ _ (fun o ho hk => htouch ⟨o, ho, hk⟩), fresh] at h
      cases h
  · rintro ⟨tx, htx, rfl, hcase⟩
    apply get_commit_all_put
    · intro o' ho' hk'
      obtain ⟨tx', htx', ho'', _⟩ := hputs o' ho' hk'
      rw [htx] at htx'
      cases htx'
      exact ho''
    · rcases hcase with ⟨rfl, out, hout, rfl⟩ | ⟨rfl, hi, op, c, hop, hc, rfl⟩
      · refine ⟨.put (.txLock out.lock b.number i io .output) (.tx tx.id), ?_, rfl⟩
        apply create_mem_from 0 i tx out io (Nat.zero_le _) htx hout
        rw [mem_createOps]
        right; left; rfl
      · refine ⟨.put (.txLock c.out.lock b.number i io .input) (.tx tx.id), ?_, rfl⟩
        apply consume_mem_from wf 0 i tx io op c (Nat.zero_le _) htx hi hop hc
        rw [mem_consumeOps]
        right; left; rfl

end CkbVerif.Indexer

namespace CkbVerif.Indexer

variable {s : Store} {b : Block}

/-- the same for the TxTypeScript rows -/
theorem txType_step2 (wf : WFAppend2 s b)
    (fresh : ∀ (sc : Script) (txi io : Nat) (t : IoType), get s (.txType sc b.number txi io t) = none)
    (sc : Script) (i io : Nat) (t : IoType) (id : Nat) :
    get (appendCore s b) (.txType sc b.number i io t) = some (.tx id) ↔
      ∃ tx : Tx, b.txs[i]? = some tx ∧ id = tx.id ∧
        ((t = .output ∧ ∃ out : Output, tx.outputs[io]? = some out ∧ out.type = some sc) ∨
         (t = .input ∧ i ≠ 0 ∧ ∃ (op : OutPoint) (c : Cell), tx.inputs[io]? = some op ∧
            Res s b op c ∧ c.out.type = some sc)) := by
  rw [get_appendCore_from0 _ (by intro _ _ _ h; cases h)]
  have hputs : ∀ o ∈ txsOpsFrom s b 0, o.key = .txType sc b.number i io t →
      ∃ tx : Tx, b.txs[i]? = some tx ∧ o = .put (.txType sc b.number i io t) (.tx tx.id) ∧
        ((t = .output ∧ ∃ out : Output, tx.outputs[io]? = some out ∧ out.type = some sc) ∨
         (t = .input ∧ i ≠ 0 ∧ ∃ (op : OutPoint) (c : Cell), tx.inputs[io]? = some op ∧
            Res s b op c ∧ c.out.type = some sc)) := by
    intro o ho hk
    rcases txsOpsFrom_shape wf 0 o ho with ⟨i', tx', ii', op', c', _, htx', hi', hop', hc', ho'⟩ |
      ⟨i', tx', out', oi', _, htx', hout', ho'⟩ | ⟨i', tx', _, htx', rfl⟩
    · rw [mem_consumeOps] at ho'
      rcases ho' with rfl | rfl | ⟨t', ht', rfl | rfl⟩ | rfl | rfl <;> simp [BOp.key] at hk
      obtain ⟨h1, h2, h3, h4⟩ := hk
      subst h1; subst h2; subst h3; subst h4
      exact ⟨tx', htx', rfl, Or.inr ⟨rfl, hi', op', c', hop', hc', ht'⟩⟩
    · rw [mem_createOps] at ho'
      rcases ho' with rfl | rfl | ⟨t', ht', rfl | rfl⟩ | rfl <;> simp [BOp.key] at hk
      obtain ⟨h1, h2, h3, h4⟩ := hk
      subst h1; subst h2; subst h3; subst h4
      exact ⟨tx', htx', rfl, Or.inl ⟨rfl, out', hout', ht'⟩⟩
    · simp [BOp.key] at hk
  constructor
  · intro h
    by_cases htouch : ∃ o ∈ txsOpsFrom s b 0, o.key = .txType sc b.number i io t
    · obtain ⟨o, ho, hk⟩ := htouch
      obtain ⟨tx, htx, rfl, hcase⟩ := hputs o ho hk
      have hval := get_commit_all_put (txsOpsFrom s b 0) s _ (.tx tx.id) (by
        intro o' ho' hk'
        obtain ⟨tx', htx', ho'', _⟩ := hputs o' ho' hk'
        rw [htx] at htx'
        cases htx'
        exact ho'') ⟨_, ho, hk⟩
      rw [hval] at h
      have : tx.id = id := by simpa using h
      exact ⟨tx, htx, this.symm, hcase⟩
    · rw [get_commit_untouched _ _ _ (fun o ho hk => htouch ⟨o, ho, hk⟩), fresh] at h
      cases h
  · rintro ⟨tx, htx, rfl, hcase⟩
    apply get_commit_all_put
    · intro o' ho' hk'
      obtain ⟨tx', htx', ho'', _⟩ := hputs o' ho' hk'
      rw [htx] at htx'
      cases htx'
      exact ho''
    · rcases hcase with ⟨rfl, out, hout, ht⟩ | ⟨rfl, hi, op, c, hop, hc, ht⟩
      · refine ⟨.put (.txType sc b.number i io .output) (.tx tx.id), ?_, rfl⟩
        apply create_mem_from 0 i tx out io (Nat.zero_le _) htx hout
        rw [mem_createOps]
        right; right; left
        exact ⟨sc, ht, Or.inr rfl⟩
      · refine ⟨.put (.txType sc b.number i io .input) (.tx tx.id), ?_, rfl⟩
        apply consume_mem_from wf 0 i tx io op c (Nat.zero_le _) htx hi hop hc
        rw [mem_consumeOps]
        right; right; left
        exact ⟨sc, ht, Or.inr rfl⟩

end CkbVerif.Indexer
