import CkbVerif.Model.Cycles

/-!
Helper lemmas for C05 (`Model/Cycles.lean`): the step runner without positivity assumptions, the
closed forms of `run` / `chunk_run` ("fits" / "does not fit"), the unchunked verdict `verdict` and
the cycles `need`ed to reach it, the invariant `TxInv` of every `TransactionState` the resumable API
can return, and the closed forms of the multi-group loops of `resumable_verify` /
`resume_from_state` in terms of them. Core Lean only.
-/
namespace CkbVerif.Cycles

/-! ### the step runner -/

theorem runSteps_sum (steps : List Nat) (limit : Nat) :
    (runSteps steps limit).1 + (runSteps steps limit).2.sum = steps.sum := by
  induction steps generalizing limit with
  | nil => simp [runSteps]
  | cons k rest ih =>
    unfold runSteps
    by_cases h : k ≤ limit
    · simp only [h, if_true, List.sum_cons]
      have := ih (limit - k)
      omega
    · simp [h]

theorem runSteps_le (steps : List Nat) (limit : Nat) : (runSteps steps limit).1 ≤ limit := by
  induction steps generalizing limit with
  | nil => simp [runSteps]
  | cons k rest ih =>
    unfold runSteps
    by_cases h : k ≤ limit
    · simp only [h, if_true]
      have := ih (limit - k)
      omega
    · simp [h]

/-- a run finishes the trace iff the remaining cost fits into the limit (no positivity needed) -/
theorem runSteps_nil_iff (steps : List Nat) (limit : Nat) :
    (runSteps steps limit).2 = [] ↔ steps.sum ≤ limit := by
  induction steps generalizing limit with
  | nil => simp [runSteps]
  | cons k rest ih =>
    unfold runSteps
    by_cases h : k ≤ limit
    · simp only [h, if_true, List.sum_cons]
      rw [ih (limit - k)]
      omega
    · simp only [h, if_false, List.sum_cons]
      constructor
      · intro hh; cases hh
      · intro hh; omega

theorem runSteps_fits (steps : List Nat) (limit : Nat) (h : steps.sum ≤ limit) :
    runSteps steps limit = (steps.sum, []) := by
  have h1 := (runSteps_nil_iff steps limit).2 h
  have h2 := runSteps_sum steps limit
  rw [h1] at h2
  have h3 : (runSteps steps limit).1 = steps.sum := by simpa using h2
  exact Prod.ext h3 h1

/-- a positive first step that fits is executed: the run consumes something -/
theorem runSteps_progress (k : Nat) (rest : List Nat) (limit : Nat) (hk : 0 < k) (hfit : k ≤ limit) :
    0 < (runSteps (k :: rest) limit).1 := by
  unfold runSteps
  simp only [hfit, if_true]
  omega

/-- what a run leaves is a suffix of the trace -/
theorem runSteps_suffix (steps : List Nat) (limit : Nat) : (runSteps steps limit).2 <:+ steps := by
  induction steps generalizing limit with
  | nil => simp [runSteps]
  | cons k rest ih =>
    unfold runSteps
    by_cases h : k ≤ limit
    · simp only [h, if_true]
      exact List.IsSuffix.trans (ih (limit - k)) (List.suffix_cons k rest)
    · simp [h]

/-! ### one group: `run` and `chunk_run` in closed form -/

theorem runFull_fits (g : Group) (limit : Nat) (h : g.cost ≤ limit) :
    runFull g limit = if g.code = 0 then .ok g.cost else .error (.validation g.code) := by
  unfold runFull
  rw [runSteps_fits g.steps limit h]
  simp [Group.cost]

theorem runFull_short (g : Group) (limit : Nat) (h : limit < g.cost) :
    runFull g limit = .error (.exceeded limit) := by
  unfold runFull
  have hne : (runSteps g.steps limit).2 ≠ [] := fun e => by
    have := (runSteps_nil_iff g.steps limit).1 e
    unfold Group.cost at h
    omega
  cases hr : runSteps g.steps limit with
  | mk c r =>
    rw [hr] at hne
    have : r.isEmpty = false := by cases r <;> simp_all
    simp [this]

/-- the state a chunk starts from: the given one, or the fresh one -/
def startOf (g : Group) (st : Option GState) : GState := st.getD ⟨0, g.steps⟩

theorem chunkRun_fits (g : Group) (limit : Nat) (st : Option GState)
    (h : (startOf g st).rest.sum ≤ limit) :
    chunkRun g limit st =
      if g.code = 0 then
        .ok (.completed ((startOf g st).consumed + (startOf g st).rest.sum) (startOf g st).rest.sum)
      else .error (.validation g.code) := by
  unfold chunkRun
  unfold startOf at h ⊢
  simp only []
  rw [runSteps_fits _ limit h]
  simp

theorem chunkRun_short (g : Group) (limit : Nat) (st : Option GState)
    (h : limit < (startOf g st).rest.sum) :
    ∃ s', chunkRun g limit st = .ok (.suspended s') ∧
      s'.consumed + s'.rest.sum = (startOf g st).consumed + (startOf g st).rest.sum ∧
      s'.rest ≠ [] ∧ (startOf g st).consumed ≤ s'.consumed ∧
      s'.consumed ≤ (startOf g st).consumed + limit ∧
      s'.consumed = (startOf g st).consumed + (runSteps (startOf g st).rest limit).1 ∧
      s'.rest <:+ (startOf g st).rest := by
  unfold chunkRun
  unfold startOf at h ⊢
  generalize st.getD ⟨0, g.steps⟩ = s at h ⊢
  have hne : (runSteps s.rest limit).2 ≠ [] := fun e => by
    have := (runSteps_nil_iff s.rest limit).1 e
    omega
  have hs := runSteps_sum s.rest limit
  have hl := runSteps_le s.rest limit
  have hsuf := runSteps_suffix s.rest limit
  cases hr : runSteps s.rest limit with
  | mk c r =>
    rw [hr] at hne hs hl hsuf
    simp only at hne hs hl hsuf
    have : r.isEmpty = false := by cases r <;> simp_all
    refine ⟨⟨s.consumed + c, r⟩, by simp [hr, this], ?_, hne, ?_, ?_, by simp, hsuf⟩
    · simp only; omega
    · simp only; omega
    · simp only; omega

/-! ### the unchunked semantics -/

def totalCost (gs : List Group) : Nat := (gs.map Group.cost).sum

/-- cycles needed to reach the verdict: every group up to and including the first failing one -/
def need : List Group → Nat
  | [] => 0
  | g :: rest => if g.code = 0 then g.cost + need rest else g.cost

/-- the verdict of an uninterrupted, unlimited run that has already accumulated `c` cycles: the
total on success, else the exit code of the first failing group -/
def verdict : List Group → Nat → Except Err Nat
  | [], c => .ok c
  | g :: rest, c => if g.code = 0 then verdict rest (c + g.cost) else .error (.validation g.code)

/-- a `Result<Cycle, _>` seen as a `Result<VerifyResult, _>` -/
def asResult : Except Err Nat → Except Err VResult
  | .ok n => .ok (.completed n)
  | .error e => .error e

theorem totalCost_nil : totalCost [] = 0 := rfl
theorem totalCost_cons (g : Group) (gs : List Group) : totalCost (g :: gs) = g.cost + totalCost gs := by
  simp [totalCost]
theorem totalCost_append (a b : List Group) : totalCost (a ++ b) = totalCost a + totalCost b := by
  simp [totalCost]

theorem need_le_totalCost (gs : List Group) : need gs ≤ totalCost gs := by
  induction gs with
  | nil => simp [need, totalCost]
  | cons g rest ih =>
    rw [totalCost_cons]; unfold need
    by_cases h : g.code = 0 <;> simp [h] <;> omega

theorem need_of_ok (gs : List Group) (h : ∀ g ∈ gs, g.code = 0) : need gs = totalCost gs := by
  induction gs with
  | nil => rfl
  | cons g rest ih =>
    rw [totalCost_cons]; unfold need
    have hg := h g List.mem_cons_self
    simp only [hg, if_true]
    rw [ih (fun x hx => h x (List.mem_cons_of_mem _ hx))]

theorem verdict_of_ok (gs : List Group) (c : Nat) (h : ∀ g ∈ gs, g.code = 0) :
    verdict gs c = .ok (c + totalCost gs) := by
  induction gs generalizing c with
  | nil => simp [verdict, totalCost]
  | cons g rest ih =>
    unfold verdict
    have hg := h g List.mem_cons_self
    simp only [hg, if_true]
    rw [ih _ (fun x hx => h x (List.mem_cons_of_mem _ hx)), totalCost_cons]
    congr 1; omega

theorem need_append_ok (pre rest : List Group) (h : ∀ g ∈ pre, g.code = 0) :
    need (pre ++ rest) = totalCost pre + need rest := by
  induction pre with
  | nil => simp [totalCost]
  | cons g pre ih =>
    have hg := h g List.mem_cons_self
    have := ih (fun x hx => h x (List.mem_cons_of_mem _ hx))
    simp only [List.cons_append, need, hg, if_true, totalCost_cons, this]
    omega

theorem verdict_append_ok (pre rest : List Group) (c : Nat) (h : ∀ g ∈ pre, g.code = 0) :
    verdict (pre ++ rest) c = verdict rest (c + totalCost pre) := by
  induction pre generalizing c with
  | nil => simp [totalCost]
  | cons g pre ih =>
    have hg := h g List.mem_cons_self
    have := ih (c + g.cost) (fun x hx => h x (List.mem_cons_of_mem _ hx))
    simp only [List.cons_append, verdict, hg, if_true, totalCost_cons, this, Nat.add_assoc]

/-- a successful verdict is the accumulated cycles plus the whole cost, and every group succeeded -/
theorem verdict_ok (gs : List Group) (c n : Nat) (h : verdict gs c = .ok n) :
    n = c + totalCost gs ∧ ∀ g ∈ gs, g.code = 0 := by
  induction gs generalizing c with
  | nil => simp [verdict] at h; simp [totalCost, h]
  | cons g rest ih =>
    unfold verdict at h
    by_cases hg : g.code = 0
    · simp only [hg, if_true] at h
      have := ih _ h
      rw [totalCost_cons]
      refine ⟨by omega, ?_⟩
      intro x hx
      cases List.mem_cons.1 hx with
      | inl e => rw [e]; exact hg
      | inr e => exact this.2 x e
    · simp [hg] at h

theorem cyclesAdd_ok (a b : Nat) (h : a + b < U64) : cyclesAdd a b = .ok (a + b) := by
  unfold cyclesAdd; simp [h]

/-! ### `verify` in closed form -/

/-- a budget that covers the cycles needed: `verify` returns the unlimited verdict -/
theorem verifyFrom_fits (max : Nat) (gs : List Group) (cycles : Nat)
    (hfit : cycles + need gs ≤ max) (hmax : max < U64) :
    verifyFrom max gs cycles = verdict gs cycles := by
  induction gs generalizing cycles with
  | nil => simp [verifyFrom, verdict]
  | cons g rest ih =>
    unfold verifyFrom verdict
    unfold need at hfit
    by_cases hg : g.code = 0
    · simp only [hg, if_true] at hfit ⊢
      rw [runFull_fits g _ (by omega)]
      simp only [hg, if_true]
      rw [cyclesAdd_ok _ _ (by omega)]
      exact ih _ (by omega)
    · simp only [hg, if_false] at hfit ⊢
      rw [runFull_fits g _ (by omega)]
      simp [hg]

/-- a budget below the cycles needed: `verify` fails with `ExceededMaximumCycles(l)`, `l` = what was
left of the budget for the group that did not fit -/
theorem verifyFrom_short (max : Nat) (gs : List Group) (cycles : Nat)
    (hc : cycles ≤ max) (hlt : max < cycles + need gs) (hmax : max < U64) :
    ∃ l, verifyFrom max gs cycles = .error (.exceeded l) ∧ l ≤ max - cycles := by
  induction gs generalizing cycles with
  | nil => simp [need] at hlt; omega
  | cons g rest ih =>
    unfold verifyFrom
    unfold need at hlt
    by_cases hfit : g.cost ≤ max - cycles
    · by_cases hg : g.code = 0
      · simp only [hg, if_true] at hlt
        rw [runFull_fits g _ hfit]
        simp only [hg, if_true]
        rw [cyclesAdd_ok _ _ (by omega)]
        obtain ⟨l, h1, h2⟩ := ih (cycles + g.cost) (by omega) (by omega)
        exact ⟨l, h1, by omega⟩
      · simp only [hg, if_false] at hlt
        omega
    · rw [runFull_short g _ (by omega)]
      exact ⟨_, rfl, Nat.le_refl _⟩

/-! ### the states the resumable API returns -/

/-- the invariant of every `TransactionState` returned by `resumable_verify` / `resume_from_state`:
it points at a group `g` of the transaction, every earlier group succeeded and `current_cycles` is
their total cost, the group state accounts for `g`'s cost, and the group is not finished -/
def TxInv (gs : List Group) (st : TxState) : Prop :=
  ∃ pre g post, gs = pre ++ g :: post ∧ st.current = pre.length ∧ (∀ x ∈ pre, x.code = 0) ∧
    st.currentCycles = totalCost pre ∧ st.state.consumed + st.state.rest.sum = g.cost ∧
    st.state.rest ≠ [] ∧ st.state.rest <:+ g.steps

/-- cycles executed so far in the whole transaction -/
def TxState.done (st : TxState) : Nat := st.currentCycles + st.state.consumed

theorem asResult_not_suspended (v : Except Err Nat) (st : TxState) : asResult v ≠ .ok (.suspended st) := by
  cases v <;> simp [asResult]

/-- the loop over fresh groups, enough limit left: it reaches the unchunked verdict -/
theorem resumableLoop_fits (limit : Nat) (hl : limit < U64) (rest : List Group) (idx used cycles : Nat)
    (hu : used ≤ limit) (hfit : need rest ≤ limit - used) (hov : cycles + need rest < U64) :
    resumableLoop limit rest idx used cycles = asResult (verdict rest cycles) := by
  induction rest generalizing idx used cycles with
  | nil => simp [resumableLoop, verdict, asResult]
  | cons g rest ih =>
    unfold resumableLoop verdict
    have hnot : ¬ limit < used := by omega
    simp only [hnot, if_false]
    unfold need at hfit hov
    have hstart : (startOf g none).rest.sum = g.cost := rfl
    have hcons : (startOf g none).consumed = 0 := rfl
    by_cases hg : g.code = 0
    · simp only [hg, if_true] at hfit hov ⊢
      rw [chunkRun_fits g _ none (by rw [hstart]; omega)]
      simp only [hg, if_true, hstart, hcons, Nat.zero_add]
      rw [cyclesAdd_ok _ _ (by omega), cyclesAdd_ok _ _ (by omega)]
      exact ih _ _ _ (by omega) (by omega) (by omega)
    · simp only [hg, if_false] at hfit hov ⊢
      rw [chunkRun_fits g _ none (by rw [hstart]; omega)]
      simp [hg, asResult]

/-- the loop over fresh groups, not enough limit left: it suspends in a state that satisfies the
invariant, having executed at most what was left of the limit -/
theorem resumableLoop_short (limit : Nat) (hl : limit < U64) (pre rest : List Group) (used cycles : Nat)
    (hpre : ∀ x ∈ pre, x.code = 0) (hcyc : cycles = totalCost pre) (hu : used ≤ limit)
    (hshort : limit - used < need rest) (hov : cycles + need rest < U64) :
    ∃ st, resumableLoop limit rest pre.length used cycles = .ok (.suspended st) ∧
      TxInv (pre ++ rest) st ∧ cycles ≤ st.done ∧ st.done ≤ cycles + (limit - used) ∧
      st.limitCycles ≤ limit := by
  induction rest generalizing pre used cycles with
  | nil => simp [need] at hshort
  | cons g rest ih =>
    unfold resumableLoop
    have hnot : ¬ limit < used := by omega
    simp only [hnot, if_false]
    unfold need at hshort hov
    have hstart : (startOf g none).rest.sum = g.cost := rfl
    have hcons : (startOf g none).consumed = 0 := rfl
    by_cases hfit : g.cost ≤ limit - used
    · have hg : g.code = 0 := by
        apply Classical.byContradiction
        intro hne
        simp only [hne, if_false] at hshort
        omega
      simp only [hg, if_true] at hshort hov
      rw [chunkRun_fits g _ none (by rw [hstart]; exact hfit)]
      simp only [hg, if_true, hstart, hcons, Nat.zero_add]
      rw [cyclesAdd_ok _ _ (by omega), cyclesAdd_ok _ _ (by omega)]
      have hpre' : ∀ x ∈ pre ++ [g], x.code = 0 := by
        intro x hx
        rcases List.mem_append.1 hx with h | h
        · exact hpre x h
        · simp only [List.mem_singleton] at h; rw [h]; exact hg
      have hcyc' : cycles + g.cost = totalCost (pre ++ [g]) := by
        rw [totalCost_append, hcyc]; simp [totalCost]
      obtain ⟨st, h1, h2, h3, h4, h5⟩ :=
        ih (pre ++ [g]) (used + g.cost) (cycles + g.cost) hpre' hcyc' (by omega) (by omega) (by omega)
      have hlen : (pre ++ [g]).length = pre.length + 1 := by simp
      rw [hlen] at h1
      refine ⟨st, h1, ?_, by omega, by omega, h5⟩
      simpa [List.append_assoc] using h2
    · obtain ⟨s', h1, h2, h3, h4, h5, h6, h7⟩ := chunkRun_short g (limit - used) none (by rw [hstart]; omega)
      rw [h1]
      rw [hstart, hcons] at h2
      rw [hcons] at h4 h5
      refine ⟨⟨pre.length, s', cycles, limit - used⟩, rfl, ?_, ?_, ?_, ?_⟩
      · exact ⟨pre, g, rest, rfl, rfl, hpre, hcyc, by simpa using h2, h3, h7⟩
      · simp [TxState.done]
      · simp only [TxState.done]; omega
      · simp only; omega

theorem getElem?_at_split (pre : List Group) (g : Group) (post : List Group) :
    (pre ++ g :: post)[pre.length]? = some g := by simp

theorem drop_at_split (pre : List Group) (g : Group) (post : List Group) :
    (pre ++ g :: post).drop (pre.length + 1) = post := by
  induction pre with
  | nil => simp
  | cons a pre ih => simp

/-- what the whole transaction needs, seen from a state that satisfies the invariant -/
theorem need_at_state (pre : List Group) (g : Group) (post : List Group) (hpre : ∀ x ∈ pre, x.code = 0) :
    need (pre ++ g :: post) = totalCost pre + (if g.code = 0 then g.cost + need post else g.cost) := by
  rw [need_append_ok pre _ hpre]; rfl

/-- a suspended state has not reached the verdict yet when steps cost something -/
theorem done_lt_need (gs : List Group) (st : TxState) (hinv : TxInv gs st)
    (hpos : ∀ g ∈ gs, ∀ k ∈ g.steps, 0 < k) : st.done < need gs := by
  obtain ⟨pre, g, post, hgs, hcur, hpre, hcyc, hcost, hne, hsuf⟩ := hinv
  subst hgs
  rw [need_at_state pre g post hpre]
  have : 0 < st.state.rest.sum := by
    cases hr : st.state.rest with
    | nil => exact absurd hr hne
    | cons k r =>
      have hk : k ∈ g.steps := by
        apply hsuf.subset; rw [hr]; exact List.mem_cons_self
      have := hpos g (by simp) k hk
      simp only [List.sum_cons]; omega
  unfold TxState.done
  by_cases hg : g.code = 0 <;> simp only [hg, if_true, if_false] <;> omega

/-- `resume_from_state`, limit covers what is still needed: it reaches the unchunked verdict -/
theorem resumeFromState_fits (gs : List Group) (st : TxState) (limit : Nat) (hinv : TxInv gs st)
    (hl : limit < U64) (hov : need gs < U64) (hfit : need gs ≤ st.done + limit) :
    resumeFromState gs st limit = asResult (verdict gs 0) := by
  obtain ⟨pre, g, post, hgs, hcur, hpre, hcyc, hcost, hne, hsuf⟩ := hinv
  subst hgs
  unfold resumeFromState
  rw [hcur, getElem?_at_split]
  simp only
  rw [need_at_state pre g post hpre] at hfit hov
  unfold TxState.done at hfit
  have hstart : startOf g (some st.state) = st.state := rfl
  rw [verdict_append_ok pre _ 0 hpre]
  unfold verdict
  by_cases hg : g.code = 0
  · simp only [hg, if_true] at hfit hov ⊢
    rw [chunkRun_fits g limit (some st.state) (by rw [hstart]; omega)]
    simp only [hg, if_true, hstart]
    rw [hcost, hcyc, cyclesAdd_ok _ _ (by omega), drop_at_split]
    simp only
    rw [resumableLoop_fits limit hl post _ _ _ (by omega) (by omega) (by omega)]
    simp
  · simp only [hg, if_false] at hfit hov ⊢
    rw [chunkRun_fits g limit (some st.state) (by rw [hstart]; omega)]
    simp [hg, asResult]

/-- `resume_from_state`, limit below what is still needed: it suspends again, in a state that
satisfies the invariant, having executed at most `limit` more cycles -/
theorem resumeFromState_short (gs : List Group) (st : TxState) (limit : Nat) (hinv : TxInv gs st)
    (hl : limit < U64) (hov : need gs < U64) (hshort : st.done + limit < need gs) :
    ∃ st', resumeFromState gs st limit = .ok (.suspended st') ∧ TxInv gs st' ∧
      st.done ≤ st'.done ∧ st'.done ≤ st.done + limit ∧ st'.limitCycles ≤ limit ∧
      (∀ k r, st.state.rest = k :: r → 0 < k → k ≤ limit → st.done < st'.done) := by
  obtain ⟨pre, g, post, hgs, hcur, hpre, hcyc, hcost, hne, hsuf⟩ := hinv
  subst hgs
  unfold resumeFromState
  rw [hcur, getElem?_at_split]
  simp only
  rw [need_at_state pre g post hpre] at hshort hov
  unfold TxState.done at hshort ⊢
  have hstart : startOf g (some st.state) = st.state := rfl
  by_cases hfit : st.state.rest.sum ≤ limit
  · have hg : g.code = 0 := by
      apply Classical.byContradiction
      intro hne
      simp only [hne, if_false] at hshort
      omega
    simp only [hg, if_true] at hshort hov
    rw [chunkRun_fits g limit (some st.state) (by rw [hstart]; exact hfit)]
    simp only [hg, if_true, hstart]
    rw [hcost, hcyc, cyclesAdd_ok _ _ (by omega), drop_at_split]
    simp only
    have hpre' : ∀ x ∈ pre ++ [g], x.code = 0 := by
      intro x hx
      rcases List.mem_append.1 hx with h | h
      · exact hpre x h
      · simp only [List.mem_singleton] at h; rw [h]; exact hg
    have hcyc' : totalCost pre + g.cost = totalCost (pre ++ [g]) := by
      rw [totalCost_append]; simp [totalCost]
    have hlen : pre.length + 1 = (pre ++ [g]).length := by simp
    rw [hlen]
    obtain ⟨st', h1, h2, h3, h4, h5⟩ :=
      resumableLoop_short limit hl (pre ++ [g]) post st.state.rest.sum (totalCost pre + g.cost)
        hpre' hcyc' hfit (by omega) (by omega)
    refine ⟨st', h1, by simpa [List.append_assoc] using h2, ?_, ?_, h5, ?_⟩
    · unfold TxState.done at h3; omega
    · unfold TxState.done at h4; omega
    · intro k r hr hk _
      unfold TxState.done at h3
      rw [hr] at hcost
      simp only [List.sum_cons] at hcost
      omega
  · obtain ⟨s', h1, h2, h3, h4, h5, h6, h7⟩ := chunkRun_short g limit (some st.state) (by rw [hstart]; omega)
    rw [h1]
    rw [hstart] at h2 h4 h5 h6 h7
    refine ⟨⟨pre.length, s', st.currentCycles, limit⟩, rfl, ?_, ?_, ?_, Nat.le_refl _, ?_⟩
    · exact ⟨pre, g, post, rfl, rfl, hpre, hcyc, by simp only; omega, h3, h7.trans hsuf⟩
    · simp only; omega
    · simp only; omega
    · intro k r hr hk hkl
      have := runSteps_progress k r limit hk hkl
      rw [hr] at h6
      simp only; omega

/-- `resumable_verify`, limit covers the need -/
theorem resumableVerify_fits (gs : List Group) (limit : Nat) (hl : limit < U64)
    (hfit : need gs ≤ limit) : resumableVerify gs limit = asResult (verdict gs 0) := by
  unfold resumableVerify
  exact resumableLoop_fits limit hl gs 0 0 0 (by omega) (by omega) (by omega)

/-- `resumable_verify`, limit below the need -/
theorem resumableVerify_short (gs : List Group) (limit : Nat) (hl : limit < U64) (hov : need gs < U64)
    (hshort : limit < need gs) :
    ∃ st, resumableVerify gs limit = .ok (.suspended st) ∧ TxInv gs st ∧ st.done ≤ limit ∧
      st.limitCycles ≤ limit := by
  unfold resumableVerify
  obtain ⟨st, h1, h2, _, h4, h5⟩ :=
    resumableLoop_short limit hl [] gs 0 0 (by simp) rfl (by omega) (by omega) (by omega)
  exact ⟨st, h1, by simpa using h2, by omega, h5⟩

/-! ### the resumable API driven over a list of limits -/

theorem driveFrom_sound (gs : List Group) (hov : need gs < U64) (limits : List Nat)
    (hl : ∀ l ∈ limits, l < U64) (st : TxState) (hinv : TxInv gs st) :
    (∃ st', driveFrom gs limits st = .ok (.suspended st') ∧ TxInv gs st') ∨
      driveFrom gs limits st = asResult (verdict gs 0) := by
  induction limits generalizing st with
  | nil => exact .inl ⟨st, rfl, hinv⟩
  | cons l more ih =>
    have hl0 := hl l List.mem_cons_self
    have hmore : ∀ x ∈ more, x < U64 := fun x hx => hl x (List.mem_cons_of_mem _ hx)
    unfold driveFrom
    by_cases hfit : need gs ≤ st.done + l
    · rw [resumeFromState_fits gs st l hinv hl0 hov hfit]
      right
      cases verdict gs 0 <;> simp [asResult]
    · obtain ⟨st', h1, h2, _⟩ := resumeFromState_short gs st l hinv hl0 hov (by omega)
      rw [h1]
      exact ih hmore st' h2

theorem drive_sound (gs : List Group) (hov : need gs < U64) (l : Nat) (more : List Nat)
    (hl : ∀ x ∈ l :: more, x < U64) :
    (∃ st', drive gs l more = .ok (.suspended st') ∧ TxInv gs st') ∨
      drive gs l more = asResult (verdict gs 0) := by
  have hl0 := hl l List.mem_cons_self
  have hmore : ∀ x ∈ more, x < U64 := fun x hx => hl x (List.mem_cons_of_mem _ hx)
  unfold drive
  by_cases hfit : need gs ≤ l
  · rw [resumableVerify_fits gs l hl0 hfit]
    right
    cases verdict gs 0 <;> simp [asResult]
  · obtain ⟨st, h1, h2, _⟩ := resumableVerify_short gs l hl0 hov (by omega)
    rw [h1]
    exact driveFrom_sound gs hov more hmore st h2

theorem driveFrom_completes (gs : List Group) (hov : need gs < U64) (limits : List Nat)
    (hl : ∀ l ∈ limits, l < U64) (hpos : ∀ g ∈ gs, ∀ k ∈ g.steps, 0 < k)
    (hbig : ∀ g ∈ gs, ∀ k ∈ g.steps, ∀ l ∈ limits, k ≤ l) (st : TxState) (hinv : TxInv gs st)
    (hlen : need gs ≤ st.done + limits.length) :
    driveFrom gs limits st = asResult (verdict gs 0) := by
  induction limits generalizing st with
  | nil =>
    have := done_lt_need gs st hinv hpos
    simp at hlen; omega
  | cons l more ih =>
    have hl0 := hl l List.mem_cons_self
    have hmore : ∀ x ∈ more, x < U64 := fun x hx => hl x (List.mem_cons_of_mem _ hx)
    unfold driveFrom
    by_cases hfit : need gs ≤ st.done + l
    · rw [resumeFromState_fits gs st l hinv hl0 hov hfit]
      cases verdict gs 0 <;> simp [asResult]
    · obtain ⟨st', h1, h2, h3, _, _, h6⟩ := resumeFromState_short gs st l hinv hl0 hov (by omega)
      rw [h1]
      obtain ⟨pre, g, post, hgs, _, _, _, _, hne, hsuf⟩ := hinv
      have hprog : st.done < st'.done := by
        cases hr : st.state.rest with
        | nil => exact absurd hr hne
        | cons k r =>
          have hk : k ∈ g.steps := by apply hsuf.subset; rw [hr]; exact List.mem_cons_self
          have hg : g ∈ gs := by rw [hgs]; simp
          exact h6 k r hr (hpos g hg k hk) (hbig g hg k hk l List.mem_cons_self)
      apply ih hmore (fun g hg k hk x hx => hbig g hg k hk x (List.mem_cons_of_mem _ hx)) st' h2
      simp only [List.length_cons] at hlen
      omega

/-! ### `complete` -/

/-- the tail loop of `complete`, budget covers the need -/
theorem completeLoop_fits (max : Nat) (gs : List Group) (cycles : Nat)
    (hfit : cycles + need gs ≤ max) (hmax : max < U64) :
    completeLoop max gs cycles = verdict gs cycles := by
  induction gs generalizing cycles with
  | nil => simp [completeLoop, verdict]
  | cons g rest ih =>
    unfold completeLoop verdict
    unfold need at hfit
    have hnot : ¬ max < cycles := by omega
    simp only [hnot, if_false]
    have hstart : (startOf g none).rest.sum = g.cost := rfl
    have hcons : (startOf g none).consumed = 0 := rfl
    by_cases hg : g.code = 0
    · simp only [hg, if_true] at hfit ⊢
      rw [chunkRun_fits g _ none (by rw [hstart]; omega)]
      simp only [hg, if_true, hstart, hcons, Nat.zero_add]
      rw [cyclesAdd_ok _ _ (by omega)]
      exact ih _ (by omega)
    · simp only [hg, if_false] at hfit ⊢
      rw [chunkRun_fits g _ none (by rw [hstart]; omega)]
      simp [hg]

/-- the tail loop of `complete`, budget not yet overdrawn but below the need: `ExceededMaximumCycles`
with the whole budget as payload -/
theorem completeLoop_short (max : Nat) (gs : List Group) (cycles : Nat)
    (hc : cycles ≤ max) (hlt : max < cycles + need gs) (hmax : max < U64) :
    completeLoop max gs cycles = .error (.exceeded max) := by
  induction gs generalizing cycles with
  | nil => simp [need] at hlt; omega
  | cons g rest ih =>
    unfold completeLoop
    unfold need at hlt
    have hnot : ¬ max < cycles := by omega
    simp only [hnot, if_false]
    have hstart : (startOf g none).rest.sum = g.cost := rfl
    have hcons : (startOf g none).consumed = 0 := rfl
    by_cases hfit : g.cost ≤ max - cycles
    · have hg : g.code = 0 := by
        apply Classical.byContradiction
        intro hne
        simp only [hne, if_false] at hlt
        omega
      simp only [hg, if_true] at hlt
      rw [chunkRun_fits g _ none (by rw [hstart]; exact hfit)]
      simp only [hg, if_true, hstart, hcons, Nat.zero_add]
      rw [cyclesAdd_ok _ _ (by omega)]
      exact ih _ (by omega) (by omega)
    · obtain ⟨s', h1, _⟩ := chunkRun_short g (max - cycles) none (by rw [hstart]; omega)
      rw [h1]

/-- the tail loop of `complete` entered with the budget already overdrawn (possible because the
resumed group was given too much, F4): the next group reports `Other("expect invalid cycles …")` -/
theorem completeLoop_over (max : Nat) (g : Group) (rest : List Group) (cycles : Nat) (h : max < cycles) :
    completeLoop max (g :: rest) cycles = .error .other := by
  unfold completeLoop
  simp [h]

/-! ### the signal path -/

/-- one group under pause/resume signals, the limit covers what is left of the group: whatever the
pause schedule, the group ends with its own verdict and its full cost -/
theorem signalGroup_fits (g : Group) (max : Nat) (pauses : List (Option Nat)) (s : GState) (fuel : Nat)
    (hinv : s.consumed + s.rest.sum = g.cost) (hfit : s.rest.sum ≤ max) (hfuel : pauses.length < fuel) :
    signalGroup g max pauses s fuel = if g.code = 0 then .ok g.cost else .error (.validation g.code) := by
  induction pauses generalizing s fuel with
  | nil =>
    cases fuel with
    | zero => simp at hfuel
    | succ fuel =>
      unfold signalGroup
      simp only
      rw [runSteps_fits s.rest max hfit]
      simp [hinv]
  | cons p more ih =>
    cases fuel with
    | zero => simp at hfuel
    | succ fuel =>
      cases p with
      | none =>
        unfold signalGroup
        simp only
        rw [runSteps_fits s.rest max hfit]
        simp [hinv]
      | some p =>
        unfold signalGroup
        simp only
        have hsum := runSteps_sum s.rest (min p max)
        have hnil := runSteps_nil_iff s.rest (min p max)
        cases hr : runSteps s.rest (min p max) with
        | mk c r =>
          rw [hr] at hsum hnil
          simp only at hsum hnil
          by_cases he : r = []
          · subst he
            have : c = s.rest.sum := by simpa using hsum
            simp [this, hinv]
          · have he' : r.isEmpty = false := by cases r <;> simp_all
            simp only [he', Bool.false_eq_true, if_false]
            have hp : p < max := by
              apply Classical.byContradiction
              intro hnp
              have : min p max = max := by omega
              rw [this] at hnil
              exact he (hnil.2 hfit)
            simp only [hp, if_true]
            apply ih
            · simp only; omega
            · simp only; omega
            · simp only [List.length_cons] at hfuel; omega

/-- `resumable_verify_with_signal`, budget covers the need: whatever the pause schedules of the
groups, the result is the unchunked verdict -/
theorem signalVerify_fits (limit : Nat) (sched : List (Group × List (Option Nat))) (cycles : Nat)
    (hfit : cycles + need (sched.map Prod.fst) ≤ limit) (hl : limit < U64) :
    signalVerify limit sched cycles = verdict (sched.map Prod.fst) cycles := by
  induction sched generalizing cycles with
  | nil => simp [signalVerify, verdict]
  | cons gp rest ih =>
    obtain ⟨g, ps⟩ := gp
    simp only [List.map_cons] at hfit ⊢
    unfold signalVerify verdict
    unfold need at hfit
    have hnot : ¬ limit < cycles := by omega
    simp only [hnot, if_false]
    by_cases hg : g.code = 0
    · simp only [hg, if_true] at hfit ⊢
      rw [signalGroup_fits g _ ps ⟨0, g.steps⟩ _ (by simp [Group.cost]) (by simp only; unfold Group.cost at hfit; omega) (by omega)]
      simp only [hg, if_true]
      rw [cyclesAdd_ok _ _ (by omega)]
      exact ih _ (by omega)
    · simp only [hg, if_false] at hfit ⊢
      rw [signalGroup_fits g _ ps ⟨0, g.steps⟩ _ (by simp [Group.cost]) (by simp only; unfold Group.cost at hfit; omega) (by omega)]
      simp [hg]

end CkbVerif.Cycles
