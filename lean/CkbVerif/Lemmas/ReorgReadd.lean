import CkbVerif.Model.ReorgReadd
import CkbVerif.Lemmas.ReorgStage

/-! Helper lemmas for `Props/C12.lean`, part 4: the re-adds as the code does them (`Model/ReorgReadd.lean`:
    `addEntry` = `PoolMap::add_entry` with the cell-ref eviction, `detachProposalR`, `readdOneR`). -/
namespace CkbVerif.Reorg

/-! ### `add_entry` -/

theorem linkParentsE_entryOf (a : Args) (q : Pool) (t : CTx) : linkParentsE q (entryOf a t) = linkParentsOf q t := rfl

theorem mem_of_mem_evictLoop (m : Nat) (cs : List Nat) (cnt : Nat) (q : Pool) (ps : List Nat) {e : PEnt}
    (h : e ∈ (evictLoop m cs cnt q ps).1) : e ∈ q := by
  induction cs generalizing cnt q ps with
  | nil => exact h
  | cons c cs ih =>
    unfold evictLoop at h
    split at h
    · exact mem_of_mem_removeWithDesc (ih _ _ _ h)
    · exact h

/-- the eviction loop stops with the count within the limit when there are enough candidates -/
theorem evictLoop_count (m : Nat) (cs : List Nat) (cnt : Nat) (q : Pool) (ps : List Nat) (h : cnt - cs.length ≤ m) :
    (evictLoop m cs cnt q ps).2.2 ≤ m := by
  induction cs generalizing cnt q ps with
  | nil => simpa [evictLoop] using h
  | cons c cs ih =>
    unfold evictLoop
    split
    · apply ih
      simp only [List.length_cons] at h
      omega
    · simp only; omega

/-- the loop removes nothing when the count is within the limit -/
theorem evictLoop_within (m : Nat) (cs : List Nat) (cnt : Nat) (q : Pool) (ps : List Nat) (h : cnt ≤ m) :
    evictLoop m cs cnt q ps = (q, ps, cnt) := by
  cases cs with
  | nil => rfl
  | cons c cs => unfold evictLoop; simp [Nat.not_lt.mpr h]

/-- `add_entry` never invents or alters an entry: the pool afterwards consists of old entries and the new one -/
theorem addEntry_mem (m : Nat) (pref : List Nat) (q : Pool) (e : PEnt) {e' : PEnt}
    (h : e' ∈ (addEntry m pref q e).1) : e' ∈ q ∨ e' = e := by
  unfold addEntry at h
  split at h
  · exact Or.inl h
  · simp only at h
    split at h
    · rcases List.mem_append.mp h with h | h
      · exact Or.inl h
      · exact Or.inr (List.mem_singleton.mp h)
    · split at h
      · split at h
        · rcases List.mem_append.mp h with h | h
          · exact Or.inl (mem_of_mem_evictLoop _ _ _ _ _ h)
          · exact Or.inr (List.mem_singleton.mp h)
        · exact Or.inl (mem_of_mem_evictLoop _ _ _ _ _ h)
      · exact Or.inl h

/-- within `max_ancestors_count` the entry is inserted and nothing else changes -/
theorem addEntry_within_limit (m : Nat) (pref : List Nat) (q : Pool) (e : PEnt) (hid : hasId q e.id = false)
    (h : (ancestorsOf q (linkParentsE q e)).length + 1 ≤ m) : addEntry m pref q e = (q ++ [e], true) := by
  unfold addEntry
  simp [hid, h]

/-- over the limit without a cell-ref parent: `ExceededMaximumAncestorsCount`, the pool is unchanged -/
theorem addEntry_over_limit_no_cell_ref (m : Nat) (pref : List Nat) (q : Pool) (e : PEnt)
    (h : m < (ancestorsOf q (linkParentsE q e)).length + 1) (hc : cellRefParents q e = []) :
    addEntry m pref q e = (q, false) := by
  unfold addEntry
  split
  · rfl
  · simp only [hc, List.length_nil, Nat.sub_zero]
    simp [Nat.not_le.mpr h]

/-- a pooled id is never inserted twice -/
theorem addEntry_pooled (m : Nat) (pref : List Nat) (q : Pool) (e : PEnt) (hid : hasId q e.id = true) :
    addEntry m pref q e = (q, false) := by
  unfold addEntry; simp [hid]

/-- whatever `add_entry` does, the entry is only inserted under an id that was not pooled -/
theorem addEntry_inserted_fresh (m : Nat) (pref : List Nat) (q : Pool) (e : PEnt)
    (h : (addEntry m pref q e).2 = true) : hasId q e.id = false := by
  cases hid : hasId q e.id with
  | false => rfl
  | true => rw [addEntry_pooled m pref q e hid] at h; cases h

/-! ### one turn of `readd_detached_tx`: the refusal model of `Model/Reorg.lean` is exact without cell-ref parents -/

theorem readdOneR_eq_readdOne (a : Args) (live : List Nat) (q : Pool) (t : CTx)
    (hc : cellRefParents q (entryOf a t) = []) : readdOneR a live q t = readdOne a live q t := by
  unfold readdOneR readdOne
  split
  · by_cases hid : hasId q t.id = true
    · have : hasId q (entryOf a t).id = true := hid
      rw [addEntry_pooled _ _ _ _ this]; simp [hid]
    · have hid0 : hasId q t.id = false := by simpa using hid
      have hid' : hasId q (entryOf a t).id = false := hid0
      simp only [hid, Bool.false_eq_true, if_false]
      by_cases hlim : (ancestorsOf q (linkParentsOf q t)).length + 1 > a.maxAnc
      · rw [addEntry_over_limit_no_cell_ref _ _ _ _ (by rw [linkParentsE_entryOf]; omega) hc]
        simp [hlim]
      · rw [addEntry_within_limit _ _ _ _ hid' (by rw [linkParentsE_entryOf]; omega)]
        simp [hlim]
  · rfl

theorem readdOneR_prov (a : Args) (live : List Nat) (q : Pool) (t : CTx) {e' : PEnt} (h : e' ∈ readdOneR a live q t) :
    e' ∈ q ∨ (resolves q a live t = true ∧ t.ok = true ∧ e' = entryOf a t) := by
  unfold readdOneR at h
  split at h
  · rename_i hr
    simp only [Bool.and_eq_true] at hr
    rcases addEntry_mem _ _ _ _ h with h | h
    · exact Or.inl h
    · exact Or.inr ⟨hr.1, hr.2, h⟩
  · exact Or.inl h

theorem readdR_cons (a : Args) (live : List Nat) (q : Pool) (t : CTx) (l : List CTx) :
    readdR a live q (t :: l) = readdR a live (readdOneR a live q t) l := rfl

/-- everything pooled after the loop is an old entry or a detached transaction that resolved against the
    pool of its turn + the new chain and passed fee and scripts -/
theorem readdR_prov (a : Args) (live : List Nat) (l : List CTx) (q : Pool) {e' : PEnt} (h : e' ∈ readdR a live q l) :
    e' ∈ q ∨ (∃ l1 t l2, l = l1 ++ t :: l2 ∧ resolves (readdR a live q l1) a live t = true ∧ t.ok = true ∧ e' = entryOf a t) := by
  induction l generalizing q with
  | nil => exact Or.inl h
  | cons t l ih =>
    rw [readdR_cons] at h
    rcases ih (readdOneR a live q t) h with h1 | ⟨l1, t', l2, hl, hA, hok, hF⟩
    · rcases readdOneR_prov a live q t h1 with h0 | ⟨hA, hok, hF⟩
      · exact Or.inl h0
      · exact Or.inr ⟨[], t, l, rfl, hA, hok, hF⟩
    · exact Or.inr ⟨t :: l1, t', l2, by rw [hl]; rfl, hA, hok, hF⟩

/-- the loop is the loop of `Model/Reorg.lean` when no pooled entry and no earlier detached-only transaction
    has an input of a detached-only transaction as a cell dep -/
theorem readdR_eq_readd (a : Args) (live : List Nat) (l : List CTx) (q : Pool)
    (hq : ∀ x ∈ q, ∀ t ∈ l, ∀ o ∈ t.spent, o ∉ x.deps)
    (hl : ∀ d ∈ l, ∀ t ∈ l, ∀ o ∈ t.spent, o ∉ d.deps) : readdR a live q l = readd a live q l := by
  induction l generalizing q with
  | nil => rfl
  | cons t l ih =>
    have hc : cellRefParents q (entryOf a t) = [] := by
      unfold cellRefParents
      rw [List.map_eq_nil_iff, List.filter_eq_nil_iff]
      intro x hx
      simp only [List.any_eq_true, List.contains_iff_mem, not_exists, not_and]
      intro o ho
      exact hq x hx t (List.mem_cons_self ..) o ho
    rw [readdR_cons, readd_cons, readdOneR_eq_readdOne a live q t hc]
    apply ih
    · intro x hx t' ht' o ho
      rcases readdOne_prov a live q t hx with h | ⟨_, rfl⟩
      · exact hq x h t' (List.mem_cons_of_mem _ ht') o ho
      · exact hl t (List.mem_cons_self ..) t' (List.mem_cons_of_mem _ ht') o ho
    · intro d hd t' ht' o ho
      exact hl d (List.mem_cons_of_mem _ hd) t' (List.mem_cons_of_mem _ ht') o ho

/-! ### `remove_by_detached_proposal` with the real re-add -/

theorem mem_insertByKey (k : PEnt → Nat) (x : PEnt) (l : List PEnt) (y : PEnt) :
    y ∈ insertByKey k x l ↔ y = x ∨ y ∈ l := by
  induction l with
  | nil => simp [insertByKey]
  | cons z zs ih =>
    unfold insertByKey
    split
    · simp
    · simp only [List.mem_cons, ih]
      constructor
      · rintro (h | h | h)
        · exact Or.inr (Or.inl h)
        · exact Or.inl h
        · exact Or.inr (Or.inr h)
      · rintro (h | h | h)
        · exact Or.inr (Or.inl h)
        · exact Or.inl h
        · exact Or.inr (Or.inr h)

theorem mem_foldl_insertByKey (k : PEnt → Nat) (l acc : List PEnt) (y : PEnt) :
    y ∈ l.foldl (fun acc x => insertByKey k x acc) acc ↔ y ∈ l ∨ y ∈ acc := by
  induction l generalizing acc with
  | nil => simp
  | cons x xs ih =>
    simp only [List.foldl_cons, ih, mem_insertByKey, List.mem_cons]
    constructor
    · rintro (h | h | h)
      · exact Or.inl (Or.inr h)
      · exact Or.inl (Or.inl h)
      · exact Or.inr h
    · rintro ((h | h) | h)
      · exact Or.inr (Or.inl h)
      · exact Or.inl h
      · exact Or.inr (Or.inr h)

/-- sorting by `ancestors_count` re-orders, nothing else -/
theorem mem_sortByKey (k : PEnt → Nat) (l : List PEnt) (y : PEnt) : y ∈ sortByKey k l ↔ y ∈ l := by
  unfold sortByKey
  rw [mem_foldl_insertByKey]
  simp

theorem mem_detachedGroup {p : Pool} {id : Nat} {x : PEnt} (h : x ∈ detachedGroup p id) : x ∈ p ∧ Gone p id x.id := by
  unfold detachedGroup at h
  rw [mem_sortByKey] at h
  obtain ⟨hx, hc⟩ := List.mem_filter.mp h
  refine ⟨hx, ?_⟩
  unfold Gone
  simpa using hc

/-- every entry after the folded re-adds is an entry of the start pool or a re-added one (as pending) -/
theorem mem_foldl_addEntry (m : Nat) (pref : List Nat) (g : List PEnt) (q : Pool) {e' : PEnt}
    (h : e' ∈ g.foldl (fun q x => (addEntry m pref q { x with status := 0 }).1) q) :
    e' ∈ q ∨ ∃ x ∈ g, e' = { x with status := 0 } := by
  induction g generalizing q with
  | nil => exact Or.inl h
  | cons x xs ih =>
    simp only [List.foldl_cons] at h
    rcases ih _ h with h1 | ⟨y, hy, rfl⟩
    · rcases addEntry_mem _ _ _ _ h1 with h0 | h0
      · exact Or.inl h0
      · exact Or.inr ⟨x, List.mem_cons_self .., h0⟩
    · exact Or.inr ⟨y, List.mem_cons_of_mem _ hy, rfl⟩

/-- `remove_by_detached_proposal`: every entry afterwards is an old entry, or an old entry of the removed
    group back as pending -/
theorem mem_detachProposalR (m : Nat) (pref : List Nat) (p : Pool) (id : Nat) {e' : PEnt}
    (h : e' ∈ detachProposalR m pref p id) :
    e' ∈ p ∨ ∃ x ∈ p, Gone p id x.id ∧ e' = { x with status := 0 } := by
  unfold detachProposalR at h
  split at h
  · split at h
    · exact Or.inl h
    · rcases mem_foldl_addEntry _ _ _ _ h with h1 | ⟨x, hx, rfl⟩
      · exact Or.inl (mem_of_mem_removeWithDesc h1)
      · exact Or.inr ⟨x, (mem_detachedGroup hx).1, (mem_detachedGroup hx).2, rfl⟩
  · exact Or.inl h

theorem sub_detachProposalR (m : Nat) (pref : List Nat) (p : Pool) (id : Nat) : Sub (detachProposalR m pref p id) p := by
  intro e he
  rcases mem_detachProposalR m pref p id he with h | ⟨x, hx, _, rfl⟩
  · exact ⟨e, h, rfl, rfl, rfl, rfl, rfl⟩
  · exact ⟨x, hx, rfl, rfl, rfl, rfl, rfl⟩

/-- the phases of `updateR` after `remove_committed_txs`/`resolve_conflict_header_dep` only drop entries or change stages -/
theorem sub_updateR_tail (a : Args) (p2 : Pool) :
    Sub (a.expired.foldl removeWithDesc ((a.detachedProposals.foldl (detachProposalR a.maxAnc a.evictPref) p2).map (moveStage a))) p2 :=
  ((sub_foldl _ sub_removeWithDesc _ _).trans (sub_map_status _ _ (moveStage_core a))).trans
    (sub_foldl _ (sub_detachProposalR a.maxAnc a.evictPref) _ _)

theorem sub_updateR_attached (p : Pool) (a : Args) : Sub (updateR p a) (a.attached.foldl removeCommitted p) := by
  unfold updateR
  exact (sub_updateR_tail a _).trans (sub_resolveHeaderDeps _ _)

/-- a non-pending entry is needed for `remove_by_detached_proposal` to do anything -/
theorem detachProposalR_eq_of_pending (m : Nat) (pref : List Nat) (p : Pool) (id : Nat)
    (h : ∀ e ∈ p, e.id = id → e.status = 0) : detachProposalR m pref p id = p ∧ detachProposal p id = p := by
  unfold detachProposalR detachProposal
  cases hf : p.find? (·.id == id) with
  | none => exact ⟨rfl, rfl⟩
  | some e =>
    have hs : e.status = 0 := h e (List.mem_of_find?_eq_some hf) (by simpa using List.find?_some hf)
    simp [hs]

theorem foldl_detachProposalR_eq_of_pending (m : Nat) (pref : List Nat) (l : List Nat) (p : Pool)
    (h : ∀ id ∈ l, ∀ e ∈ p, e.id = id → e.status = 0) :
    l.foldl (detachProposalR m pref) p = p ∧ l.foldl detachProposal p = p := by
  induction l with
  | nil => exact ⟨rfl, rfl⟩
  | cons x xs ih =>
    have h1 := detachProposalR_eq_of_pending m pref p x (h x (List.mem_cons_self ..))
    simp only [List.foldl_cons, h1.1, h1.2]
    exact ih (fun id hid => h id (List.mem_cons_of_mem _ hid))

end CkbVerif.Reorg
