import CkbVerif.Model.ReorgReadd
import CkbVerif.Lemmas.ReorgStage

/-! Helper lemmas for `Props/C12.lean`, part 4: the re-adds as the code does them (`Model/ReorgReadd.lean`:
    `addEntry` = `PoolMap::add_entry` with the cell-ref eviction, `detachProposalR`, `readdOneR`). -/
namespace CkbVerif.Reorg

/-! ### `add_entry` -/

theorem linkParentsE_entryOf (a : Args) (q : Pool) (t : CTx) : linkParentsE q (entryOf a t) = linkParentsOf q t := rfl

theorem mem_of_mem_evictLoop (m : Nat) (cs : List Nat) (cnt : Nat) (q : Pool) (ps : List Nat) {e : PEnt}
    (h : e ∈ (evictLoop m cs cnt q ps).1) : e ∈ q := by
  induction cs generalizing cnt q ps with
  | nil => exact h
  | cons c cs ih =>
    unfold evictLoop at h
    split at h
    · exact mem_of_mem_removeWithDesc (ih _ _ _ h)
    · exact h

/-- the eviction loop stops with the count within the limit when there are enough candidates -/
theorem evictLoop_count (m : Nat) (cs : List Nat) (cnt : Nat) (q : Pool) (ps : List Nat) (h : cnt - cs.length ≤ m) :
    (evictLoop m cs cnt q ps).2.2 ≤ m := by
  induction cs generalizing cnt q ps with
  | nil => simpa [evictLoop] using h
  | cons c cs ih =>
    unfold evictLoop
    split
    · apply ih
      simp only [List.length_cons] at h
      omega
    · simp only; omega

/-- the loop removes nothing when the count is within the limit -/
theorem evictLoop_within (m : Nat) (cs : List Nat) (cnt : Nat) (q : Pool) (ps : List Nat) (h : cnt ≤ m) :
    evictLoop m cs cnt q ps = (q, ps, cnt) := by
  cases cs with
  | nil => rfl
  | cons c cs => unfold evictLoop; simp [Nat.not_lt.mpr h]

/-- `add_entry` (for every choice of candidates) never invents or alters an entry -/
theorem addEntryWith_mem (cands : Pool → PEnt → List Nat) (m : Nat) (pref : List Nat) (q : Pool) (e : PEnt) {e' : PEnt}
    (h : e' ∈ (addEntryWith cands m pref q e).1) : e' ∈ q ∨ e' = e := by
  unfold addEntryWith at h
  split at h
  · exact Or.inl h
  · simp only at h
    split at h
    · rcases List.mem_append.mp h with h | h
      · exact Or.inl h
      · exact Or.inr (List.mem_singleton.mp h)
    · split at h
      · split at h
        · rcases List.mem_append.mp h with h | h
          · exact Or.inl (mem_of_mem_evictLoop _ _ _ _ _ h)
          · exact Or.inr (List.mem_singleton.mp h)
        · exact Or.inl (mem_of_mem_evictLoop _ _ _ _ _ h)
      · exact Or.inl h

/-- `add_entry` never invents or alters an entry: the pool afterwards consists of old entries and the new one -/
theorem addEntry_mem (m : Nat) (pref : List Nat) (q : Pool) (e : PEnt) {e' : PEnt}
    (h : e' ∈ (addEntry m pref q e).1) : e' ∈ q ∨ e' = e := addEntryWith_mem _ m pref q e h

/-- within `max_ancestors_count` the entry is inserted and nothing else changes -/
theorem addEntryWith_within_limit (cands : Pool → PEnt → List Nat) (m : Nat) (pref : List Nat) (q : Pool) (e : PEnt)
    (hid : hasId q e.id = false) (h : (ancestorsOf q (linkParentsE q e)).length + 1 ≤ m) :
    addEntryWith cands m pref q e = (q ++ [e], true) := by
  unfold addEntryWith
  simp [hid, h]

theorem addEntry_within_limit (m : Nat) (pref : List Nat) (q : Pool) (e : PEnt) (hid : hasId q e.id = false)
    (h : (ancestorsOf q (linkParentsE q e)).length + 1 ≤ m) : addEntry m pref q e = (q ++ [e], true) :=
  addEntryWith_within_limit _ m pref q e hid h

/-- over the limit without a candidate: `ExceededMaximumAncestorsCount`, the pool is unchanged -/
theorem addEntryWith_over_limit_no_cand (cands : Pool → PEnt → List Nat) (m : Nat) (pref : List Nat) (q : Pool) (e : PEnt)
    (h : m < (ancestorsOf q (linkParentsE q e)).length + 1) (hc : cands q e = []) :
    addEntryWith cands m pref q e = (q, false) := by
  unfold addEntryWith
  split
  · rfl
  · simp only [hc, List.length_nil, Nat.sub_zero]
    simp [Nat.not_le.mpr h]

/-- no cell-ref parent at all: no evictable one -/
theorem evictableParents_nil_of_cellRefParents_nil {q : Pool} {e : PEnt} (hc : cellRefParents q e = []) :
    evictableParents q e = [] := by
  unfold evictableParents; rw [hc]; rfl

/-- over the limit without an EVICTABLE cell-ref parent (none, or only needed ones): refusal, the pool is unchanged -/
theorem addEntry_over_limit_no_evictable (m : Nat) (pref : List Nat) (q : Pool) (e : PEnt)
    (h : m < (ancestorsOf q (linkParentsE q e)).length + 1) (hc : evictableParents q e = []) :
    addEntry m pref q e = (q, false) := addEntryWith_over_limit_no_cand _ m pref q e h hc

/-- over the limit without a cell-ref parent: `ExceededMaximumAncestorsCount`, the pool is unchanged -/
theorem addEntry_over_limit_no_cell_ref (m : Nat) (pref : List Nat) (q : Pool) (e : PEnt)
    (h : m < (ancestorsOf q (linkParentsE q e)).length + 1) (hc : cellRefParents q e = []) :
    addEntry m pref q e = (q, false) :=
  addEntry_over_limit_no_evictable m pref q e h (evictableParents_nil_of_cellRefParents_nil hc)

/-- a pooled id is never inserted twice -/
theorem addEntryWith_pooled (cands : Pool → PEnt → List Nat) (m : Nat) (pref : List Nat) (q : Pool) (e : PEnt)
    (hid : hasId q e.id = true) : addEntryWith cands m pref q e = (q, false) := by
  unfold addEntryWith; simp [hid]

theorem addEntry_pooled (m : Nat) (pref : List Nat) (q : Pool) (e : PEnt) (hid : hasId q e.id = true) :
    addEntry m pref q e = (q, false) := addEntryWith_pooled _ m pref q e hid

/-- whatever `add_entry` does, the entry is only inserted under an id that was not pooled -/
theorem addEntry_inserted_fresh (m : Nat) (pref : List Nat) (q : Pool) (e : PEnt)
    (h : (addEntry m pref q e).2 = true) : hasId q e.id = false := by
  cases hid : hasId q e.id with
  | false => rfl
  | true => rw [addEntry_pooled m pref q e hid] at h; cases h

/-! ### /repo 10e306f: a needed parent is never evicted for the entry that needs it -/

/-- the remaining parents after the loop: the parents minus the candidates that were processed; a parent that
    is not a candidate stays -/
theorem evictLoop_keeps_parent (m : Nat) (cs : List Nat) (cnt : Nat) (q : Pool) (ps : List Nat) (x : Nat)
    (hx : x ∈ ps) (hc : x ∉ cs) : x ∈ (evictLoop m cs cnt q ps).2.1 := by
  induction cs generalizing cnt q ps with
  | nil => exact hx
  | cons c cs ih =>
    unfold evictLoop
    split
    · apply ih
      · have hne : x ≠ c := fun h => hc (by rw [h]; exact List.mem_cons_self ..)
        exact List.mem_filter.mpr ⟨hx, by simpa using hne⟩
      · exact fun h => hc (List.mem_cons_of_mem _ h)
    · exact hx

theorem mem_evictOrder {pref cands : List Nat} {c : Nat} (h : c ∈ evictOrder pref cands) : c ∈ cands := by
  unfold evictOrder at h
  rcases List.mem_append.mp h with h | h
  · simpa using (List.mem_filter.mp h).2
  · exact (List.mem_filter.mp h).1

theorem neededId_not_evictable {q : Pool} {e : PEnt} {id : Nat} (h : id ∈ neededIds q e) : id ∉ evictableParents q e := by
  unfold evictableParents
  intro hm
  have := (List.mem_filter.mp hm).2
  simp [h] at this

theorem neededIds_sub_linkParents {q : Pool} {e : PEnt} {id : Nat} (h : id ∈ neededIds q e) : id ∈ linkParentsE q e := by
  unfold neededIds at h
  unfold linkParentsE
  obtain ⟨x, hx, rfl⟩ := List.mem_map.mp h
  obtain ⟨hxq, hn⟩ := List.mem_filter.mp hx
  refine List.mem_map.mpr ⟨x, List.mem_filter.mpr ⟨hxq, ?_⟩, rfl⟩
  unfold neededParent at hn
  unfold refs
  simp only [Bool.or_eq_true] at hn ⊢
  rcases hn with hn | hn
  · exact Or.inl (Or.inl hn)
  · exact Or.inl (Or.inr hn)

/-- THE REPAIR: when `add_entry` inserts the entry, every pooled transaction that created one of its inputs or
    cell deps is still pooled (by id) — for every pool, limit and evict-key order -/
theorem addEntry_inserted_keeps_needed (m : Nat) (pref : List Nat) (q : Pool) (e : PEnt)
    (h : (addEntry m pref q e).2 = true) (id : Nat) (hid : id ∈ neededIds q e) : hasId (addEntry m pref q e).1 id = true := by
  have hq : hasId q id = true := by
    unfold neededIds at hid
    obtain ⟨x, hx, rfl⟩ := List.mem_map.mp hid
    unfold hasId
    exact List.any_eq_true.mpr ⟨x, (List.mem_filter.mp hx).1, by simp⟩
  have happ : ∀ r : Pool, hasId r id = true → hasId (r ++ [e]) id = true := by
    intro r hr; unfold hasId at hr ⊢; rw [List.any_append, hr]; rfl
  unfold addEntry addEntryWith at h ⊢
  split at h
  · cases h
  · rename_i hfresh
    simp only [hfresh, Bool.false_eq_true, if_false] at h ⊢
    split at h
    · rename_i hle; simp only [hle, if_true]; exact happ q hq
    · rename_i hle
      simp only [hle, if_false] at h ⊢
      split at h
      · rename_i hroom
        simp only [hroom, if_true] at h ⊢
        split at h
        · rename_i hall
          simp only [hall, if_true]
          apply happ
          have hkeep := evictLoop_keeps_parent m (evictOrder pref (evictableParents q e))
            ((ancestorsOf q (linkParentsE q e)).length + 1) q (linkParentsE q e) id
            (neededIds_sub_linkParents hid) (fun hc => neededId_not_evictable hid (mem_evictOrder hc))
          exact List.all_eq_true.mp hall id hkeep
        · cases h
      · cases h

/-! ### InputsResolvable is kept by `add_entry` (needs /repo 10e306f) -/

/-- the id determines the outputs (`PoolMap.entries` is keyed by id, and the id is a hash of the transaction) -/
def UniqueIds (q : Pool) : Prop := ∀ x ∈ q, ∀ y ∈ q, x.id = y.id → x.outs = y.outs

theorem resolvable_evictLoop {P : Nat → Prop} (m : Nat) (cs : List Nat) (cnt : Nat) (q : Pool) (ps : List Nat)
    (h : Resolvable P q) : Resolvable P (evictLoop m cs cnt q ps).1 := by
  induction cs generalizing cnt q ps with
  | nil => exact h
  | cons c cs ih =>
    unfold evictLoop
    split
    · exact ih _ _ _ (resolvable_removeWithDesc c h)
    · exact h

/-- the two outcomes of `add_entry`: refused with the pool `r`, or inserted behind `r`, where `r` is the pool
    after the evictions (`r = q` when the loop was not entered) -/
theorem addEntryWith_shape (cands : Pool → PEnt → List Nat) (m : Nat) (pref : List Nat) (q : Pool) (e : PEnt) :
    ∃ cs cnt ps, addEntryWith cands m pref q e = ((evictLoop m cs cnt q ps).1, false) ∨
      addEntryWith cands m pref q e = ((evictLoop m cs cnt q ps).1 ++ [e], true) := by
  unfold addEntryWith
  split
  · exact ⟨[], 0, [], Or.inl rfl⟩
  · simp only
    split
    · exact ⟨[], 0, [], Or.inr rfl⟩
    · split
      · split
        · exact ⟨_, _, _, Or.inr rfl⟩
        · exact ⟨_, _, _, Or.inl rfl⟩
      · exact ⟨[], 0, [], Or.inl rfl⟩

theorem uniqueIds_addEntry (m : Nat) (pref : List Nat) (q : Pool) (e : PEnt) (hu : UniqueIds q) :
    UniqueIds (addEntry m pref q e).1 := by
  obtain ⟨cs, cnt, ps, hs | hs⟩ := addEntryWith_shape evictableParents m pref q e
  · unfold addEntry; rw [hs]
    intro x hx y hy hid
    exact hu x (mem_of_mem_evictLoop _ _ _ _ _ hx) y (mem_of_mem_evictLoop _ _ _ _ _ hy) hid
  · have hfresh : hasId q e.id = false := addEntry_inserted_fresh m pref q e (by unfold addEntry; rw [hs])
    have hno : ∀ x ∈ (evictLoop m cs cnt q ps).1, x.id ≠ e.id := by
      intro x hx hid
      have : hasId q e.id = true := hasId_iff.mpr ⟨x, mem_of_mem_evictLoop _ _ _ _ _ hx, hid⟩
      rw [hfresh] at this; cases this
    have hfst : (addEntry m pref q e).1 = (evictLoop m cs cnt q ps).1 ++ [e] := by unfold addEntry; rw [hs]
    rw [hfst]
    intro x hx y hy hid
    rcases List.mem_append.mp hx with hx1 | hx1
    · rcases List.mem_append.mp hy with hy1 | hy1
      · exact hu x (mem_of_mem_evictLoop _ _ _ _ _ hx1) y (mem_of_mem_evictLoop _ _ _ _ _ hy1) hid
      · rw [List.mem_singleton] at hy1; rw [hy1] at hid; exact absurd hid (hno x hx1)
    · rcases List.mem_append.mp hy with hy1 | hy1
      · rw [List.mem_singleton] at hx1; rw [hx1] at hid; exact absurd hid.symm (hno y hy1)
      · rw [List.mem_singleton] at hx1 hy1; rw [hx1, hy1]

/-- `add_entry` keeps "every input and cell dep is `P` or created by a pooled entry": the evictions take
    descendants along, and (since /repo 10e306f) the creators of the new entry's own inputs are never evicted -/
theorem resolvable_addEntry {P : Nat → Prop} (m : Nat) (pref : List Nat) (q : Pool) (e : PEnt) (hu : UniqueIds q)
    (hr : Resolvable P q) (he : ∀ o ∈ e.spent ++ e.deps, P o ∨ ∃ x ∈ q, o ∈ x.outs) :
    Resolvable P (addEntry m pref q e).1 := by
  obtain ⟨cs, cnt, ps, hs | hs⟩ := addEntryWith_shape evictableParents m pref q e
  · unfold addEntry; rw [hs]; exact resolvable_evictLoop _ _ _ _ _ hr
  · have hsucc : (addEntry m pref q e).2 = true := by unfold addEntry; rw [hs]
    have hfst : (addEntry m pref q e).1 = (evictLoop m cs cnt q ps).1 ++ [e] := by unfold addEntry; rw [hs]
    have hfresh : hasId q e.id = false := addEntry_inserted_fresh m pref q e hsucc
    rw [hfst]
    intro e' he' o ho
    rcases List.mem_append.mp he' with h1 | h1
    · rcases resolvable_evictLoop m cs cnt q ps hr e' h1 o ho with h | ⟨x, hx, hox⟩
      · exact Or.inl h
      · exact Or.inr ⟨x, List.mem_append.mpr (Or.inl hx), hox⟩
    · rw [List.mem_singleton] at h1; subst h1
      rcases he o ho with h | ⟨x, hx, hox⟩
      · exact Or.inl h
      · have hneed : x.id ∈ neededIds q e' := by
          unfold neededIds
          refine List.mem_map.mpr ⟨x, List.mem_filter.mpr ⟨hx, ?_⟩, rfl⟩
          unfold neededParent
          rcases List.mem_append.mp ho with h | h
          · have : e'.spent.any x.outs.contains = true := List.any_eq_true.mpr ⟨o, h, by simpa using hox⟩
            simp [this]
          · have : e'.deps.any x.outs.contains = true := List.any_eq_true.mpr ⟨o, h, by simpa using hox⟩
            simp [this]
        have hk := addEntry_inserted_keeps_needed m pref q e' hsucc x.id hneed
        rw [hfst] at hk
        obtain ⟨x', hx', hid'⟩ := hasId_iff.mp hk
        rcases List.mem_append.mp hx' with h2 | h2
        · have : x'.outs = x.outs := hu x' (mem_of_mem_evictLoop _ _ _ _ _ h2) x hx hid'
          exact Or.inr ⟨x', hx', this ▸ hox⟩
        · rw [List.mem_singleton] at h2; subst h2
          have : hasId q x'.id = true := hasId_iff.mpr ⟨x, hx, hid'.symm⟩
          rw [hfresh] at this; cases this

theorem resolvable_readdOneR {P : Nat → Prop} {a : Args} {live : List Nat} {q : Pool} (t : CTx)
    (hP : ∀ o ∈ live, P o) (hu : UniqueIds q) (hr : Resolvable P q) :
    Resolvable P (readdOneR a live q t) ∧ UniqueIds (readdOneR a live q t) := by
  unfold readdOneR
  split
  · rename_i hres
    simp only [Bool.and_eq_true] at hres
    refine ⟨resolvable_addEntry _ _ q (entryOf a t) hu hr ?_, uniqueIds_addEntry _ _ q _ hu⟩
    intro o ho
    obtain ⟨_, h2⟩ := cellLive_cases (resolves_cells hres.1 o ho)
    rcases h2 with h2 | h2
    · exact Or.inr h2
    · exact Or.inl (hP o h2)
  · exact ⟨hr, hu⟩

theorem resolvable_readdR {P : Nat → Prop} (a : Args) (live : List Nat) (l : List CTx) (q : Pool)
    (hP : ∀ o ∈ live, P o) (hu : UniqueIds q) (hr : Resolvable P q) :
    Resolvable P (readdR a live q l) ∧ UniqueIds (readdR a live q l) := by
  induction l generalizing q with
  | nil => exact ⟨hr, hu⟩
  | cons t l ih =>
    have h1 := resolvable_readdOneR (a := a) (live := live) t hP hu hr
    exact ih _ h1.2 h1.1

theorem uniqueIds_of_sub {q p : Pool} (hs : Sub q p) (hu : UniqueIds p) : UniqueIds q := by
  intro x hx y hy hid
  obtain ⟨x0, hx0, i1, _, _, _, i5⟩ := hs x hx
  obtain ⟨y0, hy0, j1, _, _, _, j5⟩ := hs y hy
  rw [i5, j5]
  exact hu x0 hx0 y0 hy0 (by rw [← i1, ← j1]; exact hid)

/-! ### one turn of `readd_detached_tx`: the refusal model of `Model/Reorg.lean` is exact without cell-ref parents -/

theorem readdOneR_eq_readdOne_of_no_evictable (a : Args) (live : List Nat) (q : Pool) (t : CTx)
    (hc : evictableParents q (entryOf a t) = []) : readdOneR a live q t = readdOne a live q t := by
  unfold readdOneR readdOne
  split
  · by_cases hid : hasId q t.id = true
    · have : hasId q (entryOf a t).id = true := hid
      rw [addEntry_pooled _ _ _ _ this]; simp [hid]
    · have hid0 : hasId q t.id = false := by simpa using hid
      have hid' : hasId q (entryOf a t).id = false := hid0
      simp only [hid, Bool.false_eq_true, if_false]
      by_cases hlim : (ancestorsOf q (linkParentsOf q t)).length + 1 > a.maxAnc
      · rw [addEntry_over_limit_no_evictable _ _ _ _ (by rw [linkParentsE_entryOf]; omega) hc]
        simp [hlim]
      · rw [addEntry_within_limit _ _ _ _ hid' (by rw [linkParentsE_entryOf]; omega)]
        simp [hlim]
  · rfl

theorem readdOneR_eq_readdOne (a : Args) (live : List Nat) (q : Pool) (t : CTx)
    (hc : cellRefParents q (entryOf a t) = []) : readdOneR a live q t = readdOne a live q t :=
  readdOneR_eq_readdOne_of_no_evictable a live q t (evictableParents_nil_of_cellRefParents_nil hc)

theorem readdOneR_prov (a : Args) (live : List Nat) (q : Pool) (t : CTx) {e' : PEnt} (h : e' ∈ readdOneR a live q t) :
    e' ∈ q ∨ (resolves q a live t = true ∧ t.ok = true ∧ e' = entryOf a t) := by
  unfold readdOneR at h
  split at h
  · rename_i hr
    simp only [Bool.and_eq_true] at hr
    rcases addEntry_mem _ _ _ _ h with h | h
    · exact Or.inl h
    · exact Or.inr ⟨hr.1, hr.2, h⟩
  · exact Or.inl h

theorem readdR_cons (a : Args) (live : List Nat) (q : Pool) (t : CTx) (l : List CTx) :
    readdR a live q (t :: l) = readdR a live (readdOneR a live q t) l := rfl

/-- everything pooled after the loop is an old entry or a detached transaction that resolved against the
    pool of its turn + the new chain and passed fee and scripts -/
theorem readdR_prov (a : Args) (live : List Nat) (l : List CTx) (q : Pool) {e' : PEnt} (h : e' ∈ readdR a live q l) :
    e' ∈ q ∨ (∃ l1 t l2, l = l1 ++ t :: l2 ∧ resolves (readdR a live q l1) a live t = true ∧ t.ok = true ∧ e' = entryOf a t) := by
  induction l generalizing q with
  | nil => exact Or.inl h
  | cons t l ih =>
    rw [readdR_cons] at h
    rcases ih (readdOneR a live q t) h with h1 | ⟨l1, t', l2, hl, hA, hok, hF⟩
    · rcases readdOneR_prov a live q t h1 with h0 | ⟨hA, hok, hF⟩
      · exact Or.inl h0
      · exact Or.inr ⟨[], t, l, rfl, hA, hok, hF⟩
    · exact Or.inr ⟨t :: l1, t', l2, by rw [hl]; rfl, hA, hok, hF⟩

/-- the loop is the loop of `Model/Reorg.lean` when no pooled entry and no earlier detached-only transaction
    has an input of a detached-only transaction as a cell dep -/
theorem readdR_eq_readd (a : Args) (live : List Nat) (l : List CTx) (q : Pool)
    (hq : ∀ x ∈ q, ∀ t ∈ l, ∀ o ∈ t.spent, o ∉ x.deps)
    (hl : ∀ d ∈ l, ∀ t ∈ l, ∀ o ∈ t.spent, o ∉ d.deps) : readdR a live q l = readd a live q l := by
  induction l generalizing q with
  | nil => rfl
  | cons t l ih =>
    have hc : cellRefParents q (entryOf a t) = [] := by
      unfold cellRefParents
      rw [List.map_eq_nil_iff, List.filter_eq_nil_iff]
      intro x hx
      simp only [List.any_eq_true, List.contains_iff_mem, not_exists, not_and]
      intro o ho
      exact hq x hx t (List.mem_cons_self ..) o ho
    rw [readdR_cons, readd_cons, readdOneR_eq_readdOne a live q t hc]
    apply ih
    · intro x hx t' ht' o ho
      rcases readdOne_prov a live q t hx with h | ⟨_, rfl⟩
      · exact hq x h t' (List.mem_cons_of_mem _ ht') o ho
      · exact hl t (List.mem_cons_self ..) t' (List.mem_cons_of_mem _ ht') o ho
    · intro d hd t' ht' o ho
      exact hl d (List.mem_cons_of_mem _ hd) t' (List.mem_cons_of_mem _ ht') o ho

/-! ### `remove_by_detached_proposal` with the real re-add -/

theorem mem_insertByKey (k : PEnt → Nat) (x : PEnt) (l : List PEnt) (y : PEnt) :
    y ∈ insertByKey k x l ↔ y = x ∨ y ∈ l := by
  induction l with
  | nil => simp [insertByKey]
  | cons z zs ih =>
    unfold insertByKey
    split
    · simp
    · simp only [List.mem_cons, ih]
      constructor
      · rintro (h | h | h)
        · exact Or.inr (Or.inl h)
        · exact Or.inl h
        · exact Or.inr (Or.inr h)
      · rintro (h | h | h)
        · exact Or.inr (Or.inl h)
        · exact Or.inl h
        · exact Or.inr (Or.inr h)

theorem mem_foldl_insertByKey (k : PEnt → Nat) (l acc : List PEnt) (y : PEnt) :
    y ∈ l.foldl (fun acc x => insertByKey k x acc) acc ↔ y ∈ l ∨ y ∈ acc := by
  induction l generalizing acc with
  | nil => simp
  | cons x xs ih =>
    simp only [List.foldl_cons, ih, mem_insertByKey, List.mem_cons]
    constructor
    · rintro (h | h | h)
      · exact Or.inl (Or.inr h)
      · exact Or.inl (Or.inl h)
      · exact Or.inr h
    · rintro ((h | h) | h)
      · exact Or.inr (Or.inl h)
      · exact Or.inl h
      · exact Or.inr (Or.inr h)

/-- sorting by `ancestors_count` re-orders, nothing else -/
theorem mem_sortByKey (k : PEnt → Nat) (l : List PEnt) (y : PEnt) : y ∈ sortByKey k l ↔ y ∈ l := by
  unfold sortByKey
  rw [mem_foldl_insertByKey]
  simp

theorem mem_detachedGroup {p : Pool} {id : Nat} {x : PEnt} (h : x ∈ detachedGroup p id) : x ∈ p ∧ Gone p id x.id := by
  unfold detachedGroup at h
  rw [mem_sortByKey] at h
  obtain ⟨hx, hc⟩ := List.mem_filter.mp h
  refine ⟨hx, ?_⟩
  unfold Gone
  simpa using hc

/-- every entry after the folded re-adds is an entry of the start pool or a re-added one (as pending) -/
theorem mem_foldl_addEntry (m : Nat) (pref : List Nat) (g : List PEnt) (q : Pool) {e' : PEnt}
    (h : e' ∈ g.foldl (fun q x => (addEntry m pref q { x with status := 0 }).1) q) :
    e' ∈ q ∨ ∃ x ∈ g, e' = { x with status := 0 } := by
  induction g generalizing q with
  | nil => exact Or.inl h
  | cons x xs ih =>
    simp only [List.foldl_cons] at h
    rcases ih _ h with h1 | ⟨y, hy, rfl⟩
    · rcases addEntry_mem _ _ _ _ h1 with h0 | h0
      · exact Or.inl h0
      · exact Or.inr ⟨x, List.mem_cons_self .., h0⟩
    · exact Or.inr ⟨y, List.mem_cons_of_mem _ hy, rfl⟩

/-- `remove_by_detached_proposal`: every entry afterwards is an old entry, or an old entry of the removed
    group back as pending -/
theorem mem_detachProposalR (m : Nat) (pref : List Nat) (p : Pool) (id : Nat) {e' : PEnt}
    (h : e' ∈ detachProposalR m pref p id) :
    e' ∈ p ∨ ∃ x ∈ p, Gone p id x.id ∧ e' = { x with status := 0 } := by
  unfold detachProposalR at h
  split at h
  · split at h
    · exact Or.inl h
    · rcases mem_foldl_addEntry _ _ _ _ h with h1 | ⟨x, hx, rfl⟩
      · exact Or.inl (mem_of_mem_removeWithDesc h1)
      · exact Or.inr ⟨x, (mem_detachedGroup hx).1, (mem_detachedGroup hx).2, rfl⟩
  · exact Or.inl h

theorem sub_detachProposalR (m : Nat) (pref : List Nat) (p : Pool) (id : Nat) : Sub (detachProposalR m pref p id) p := by
  intro e he
  rcases mem_detachProposalR m pref p id he with h | ⟨x, hx, _, rfl⟩
  · exact ⟨e, h, rfl, rfl, rfl, rfl, rfl⟩
  · exact ⟨x, hx, rfl, rfl, rfl, rfl, rfl⟩

/-- the phases of `updateR` after `remove_committed_txs`/`resolve_conflict_header_dep` only drop entries or change stages -/
theorem sub_updateR_tail (a : Args) (p2 : Pool) :
    Sub (a.expired.foldl removeWithDesc ((a.detachedProposals.foldl (detachProposalR a.maxAnc a.evictPref) p2).map (moveStage a))) p2 :=
  ((sub_foldl _ sub_removeWithDesc _ _).trans (sub_map_status _ _ (moveStage_core a))).trans
    (sub_foldl _ (sub_detachProposalR a.maxAnc a.evictPref) _ _)

theorem sub_updateR_attached (p : Pool) (a : Args) : Sub (updateR p a) (a.attached.foldl removeCommitted p) := by
  unfold updateR
  exact (sub_updateR_tail a _).trans (sub_resolveHeaderDeps _ _)

/-- a non-pending entry is needed for `remove_by_detached_proposal` to do anything -/
theorem detachProposalR_eq_of_pending (m : Nat) (pref : List Nat) (p : Pool) (id : Nat)
    (h : ∀ e ∈ p, e.id = id → e.status = 0) : detachProposalR m pref p id = p ∧ detachProposal p id = p := by
  unfold detachProposalR detachProposal
  cases hf : p.find? (·.id == id) with
  | none => exact ⟨rfl, rfl⟩
  | some e =>
    have hs : e.status = 0 := h e (List.mem_of_find?_eq_some hf) (by simpa using List.find?_some hf)
    simp [hs]

theorem foldl_detachProposalR_eq_of_pending (m : Nat) (pref : List Nat) (l : List Nat) (p : Pool)
    (h : ∀ id ∈ l, ∀ e ∈ p, e.id = id → e.status = 0) :
    l.foldl (detachProposalR m pref) p = p ∧ l.foldl detachProposal p = p := by
  induction l with
  | nil => exact ⟨rfl, rfl⟩
  | cons x xs ih =>
    have h1 := detachProposalR_eq_of_pending m pref p x (h x (List.mem_cons_self ..))
    simp only [List.foldl_cons, h1.1, h1.2]
    exact ih (fun id hid => h id (List.mem_cons_of_mem _ hid))

/-! ### stage = window through the real `remove_by_detached_proposal` -/

theorem StageInv.mono {a : Args} {done : List Nat} {q q' : Pool} (hs : ∀ y ∈ q', y ∈ q) (h : StageInv a done q) :
    StageInv a done q' :=
  ⟨fun x hx y hy => h.same x (hs x hx) y (hs y hy), fun x hx => h.le2 x (hs x hx),
   fun x hx => h.prop x (hs x hx), fun x hx => h.done0 x (hs x hx)⟩

/-- every entry the real `remove_by_detached_proposal` leaves is an entry of the optimistic one (which re-adds
    everything): the real one only drops more -/
theorem mem_detachProposal_of_mem_detachProposalR (m : Nat) (pref : List Nat) (p : Pool) (id : Nat) {e' : PEnt}
    (h : e' ∈ detachProposalR m pref p id) : e' ∈ detachProposal p id := by
  unfold detachProposalR at h
  unfold detachProposal
  split at h
  · rename_i e hf
    simp only [hf]
    split at h
    · rename_i hs; simp only [hs, if_true]; exact h
    · rename_i hs
      simp only [hs]
      rcases mem_foldl_addEntry _ _ _ _ h with h1 | ⟨x, hx, rfl⟩
      · obtain ⟨hp, hng⟩ := mem_removeWithDesc.mp h1
        refine List.mem_map.mpr ⟨e', hp, ?_⟩
        unfold Gone at hng
        have h1 : (e'.id == id) = false := by simpa using fun h => hng (Or.inl h)
        have h2 : (descOf p id).contains e'.id = false := by simpa using fun h => hng (Or.inr h)
        have hc : (e'.id == id || (descOf p id).contains e'.id) = false := by rw [h1, h2]; rfl
        rw [hc]; simp
      · obtain ⟨hp, hg⟩ := mem_detachedGroup hx
        refine List.mem_map.mpr ⟨x, hp, ?_⟩
        unfold Gone at hg
        have hc : (x.id == id || (descOf p id).contains x.id) = true := by
          rcases hg with hg | hg
          · simp [hg]
          · have : (descOf p id).contains x.id = true := by simpa using hg
            rw [this]; simp
        rw [if_pos hc]
  · rename_i hf
    simp only [hf]; exact h

theorem stageInv_foldl_detachProposalR {a : Args} (m : Nat) (pref : List Nat) (l : List Nat) (done : List Nat) (q : Pool)
    (h : StageInv a done q) : StageInv a (l.reverse ++ done) (l.foldl (detachProposalR m pref) q) := by
  induction l generalizing done q with
  | nil => simpa using h
  | cons id ids ih =>
    simp only [List.foldl_cons, List.reverse_cons, List.append_assoc, List.singleton_append]
    obtain ⟨c, hc1, hc2⟩ := detachProposal_spec id h.same
    have h1 : StageInv a (id :: done) (detachProposal q id) := by rw [hc1]; exact stageInv_resetBy c id h hc2
    exact ih (id :: done) _ (h1.mono fun y hy => mem_detachProposal_of_mem_detachProposalR m pref q id hy)

end CkbVerif.Reorg
