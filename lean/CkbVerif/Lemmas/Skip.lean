import CkbVerif.Model.Skip

/-! Helper lemmas for the skip-list part of C17. -/
namespace CkbVerif.Skip

theorem invertLowestOne_le (n : Nat) : invertLowestOne n ≤ n := Nat.and_le_left

theorem invertLowestOne_le_pred (n : Nat) : invertLowestOne n ≤ n - 1 := Nat.and_le_right

/-- the skip target is strictly lower: the loop of `get_ancestor` terminates -/
theorem getSkipHeight_lt {h : Nat} (hpos : 1 ≤ h) : getSkipHeight h < h := by
  unfold getSkipHeight
  split
  · omega
  · split
    · have a := invertLowestOne_le (invertLowestOne (h - 1))
      have b := invertLowestOne_le_pred (h - 1)
      omega
    · have := invertLowestOne_le_pred h
      omega

/-- well-formed header store: ids are keys, every non-genesis header has its parent one below, and
every skip pointer is the ancestor at `get_skip_height(number)` (what `build_skip` records) -/
structure StoreOk (store : Store) : Prop where
  id_ok : ∀ i h, store i = some h → h.id = i
  parent_ok : ∀ i h, store i = some h → 0 < h.number →
    ∃ p, store h.parent = some p ∧ p.number + 1 = h.number
  skip_ok : ∀ i h s, store i = some h → h.skip = some s →
    ∃ t, store s = some t ∧ walk store (h.number - getSkipHeight h.number) h = some t

/-- the `fast_scanner` shortcut may only return the ancestor at the requested number -/
def ScanOk (store : Store) (scan : Nat → Hdr → Option Hdr) : Prop :=
  ∀ number c t, scan number c = some t → number ≤ c.number →
    walk store (c.number - number) c = some t

theorem walk_add (store : Store) (a b : Nat) (h : Hdr) :
    walk store (a + b) h = (walk store a h).bind (walk store b) := by
  induction a generalizing h with
  | zero => simp [walk]
  | succ a ih =>
    have : a + 1 + b = (a + b) + 1 := by omega
    rw [this]
    simp only [walk]
    cases store h.parent with
    | none => simp
    | some p => simp [ih]

/-- walking `k ≤ number` steps succeeds, lands `k` lower, inside the store -/
theorem walk_ok {store : Store} (ok : StoreOk store) (k : Nat) : ∀ (h : Hdr), store h.id = some h →
    k ≤ h.number → ∃ t, walk store k h = some t ∧ t.number + k = h.number ∧ store t.id = some t := by
  induction k with
  | zero => intro h hs _; exact ⟨h, rfl, by omega, hs⟩
  | succ k ih =>
    intro h hs hk
    obtain ⟨p, hp, hn⟩ := ok.parent_ok _ _ hs (by omega)
    have hpid := ok.id_ok _ _ hp
    obtain ⟨t, ht, htn, hts⟩ := ih p (by rw [hpid]; exact hp) (by omega)
    refine ⟨t, ?_, by omega, hts⟩
    simp [walk, hp, ht]

/-- one loop iteration moves to a stored ancestor, strictly lower but not below the target -/
theorem nextStep_spec {store : Store} (ok : StoreOk store) {number : Nat} {cur : Hdr} {nw : Nat}
    (hs : store cur.id = some cur) (hn : cur.number = nw) (hgt : number < nw) :
    ∃ c nw', nextStep store number cur nw = some (c, nw') ∧ number ≤ nw' ∧ nw' < nw ∧
      c.number = nw' ∧ store c.id = some c ∧ walk store (nw - nw') cur = some c := by
  have parentCase : ∃ c nw', (store cur.parent).map (fun c => (c, nw - 1)) = some (c, nw') ∧
      number ≤ nw' ∧ nw' < nw ∧ c.number = nw' ∧ store c.id = some c ∧
      walk store (nw - nw') cur = some c := by
    obtain ⟨p, hp, hpn⟩ := ok.parent_ok _ _ hs (by omega)
    have hpid := ok.id_ok _ _ hp
    refine ⟨p, nw - 1, by simp [hp], by omega, by omega, by omega, by rw [hpid]; exact hp, ?_⟩
    have : nw - (nw - 1) = 1 := by omega
    rw [this]; simp [walk, hp]
  unfold nextStep
  cases hsk : cur.skip with
  | none => simpa using parentCase
  | some s =>
    simp only []
    split
    · rename_i hcond
      obtain ⟨t, ht, hw⟩ := ok.skip_ok _ _ s hs hsk
      have hlt := getSkipHeight_lt (h := nw) (by omega)
      have htid := ok.id_ok _ _ ht
      obtain ⟨t', ht', htn, _⟩ := walk_ok ok (cur.number - getSkipHeight cur.number) cur hs (by omega)
      rw [hw] at ht'
      have : t' = t := (Option.some.inj ht').symm
      subst this
      have hge : number ≤ getSkipHeight nw := by
        simp only [Bool.or_eq_true, beq_iff_eq, Bool.and_eq_true, decide_eq_true_eq] at hcond
        rcases hcond with h | h
        · omega
        · omega
      refine ⟨t', getSkipHeight nw, by simp [ht], hge, hlt, ?_, by rw [htid]; exact ht, ?_⟩
      · rw [hn] at htn; omega
      · rw [← hn]; exact hw
    · exact parentCase

/-- the loop computes the parent walk -/
theorem ancestorLoop_eq_walk {store : Store} (ok : StoreOk store) {scan : Nat → Hdr → Option Hdr}
    (sok : ScanOk store scan) (number : Nat) (fuel : Nat) : ∀ (cur : Hdr) (nw : Nat),
    store cur.id = some cur → cur.number = nw → number ≤ nw → nw ≤ fuel →
    ancestorLoop store scan number fuel cur nw = walk store (nw - number) cur := by
  induction fuel with
  | zero =>
    intro cur nw _ _ h1 h2
    have : nw - number = 0 := by omega
    simp [ancestorLoop, this, walk]
  | succ fuel ih =>
    intro cur nw hs hn h1 h2
    simp only [ancestorLoop]
    split
    · rename_i hgt
      obtain ⟨c, nw', hstep, g1, g2, g3, g4, g5⟩ := nextStep_spec ok hs hn hgt
      rw [hstep]
      simp only []
      have hsplit : nw - number = (nw - nw') + (nw' - number) := by omega
      have hw : walk store (nw - number) cur = walk store (nw' - number) c := by
        rw [hsplit, walk_add, g5]; rfl
      cases hsc : scan number c with
      | some t =>
        simp only []
        have := sok number c t hsc (by omega)
        rw [hw, ← g3]; exact this.symm
      | none =>
        simp only []
        rw [ih c nw' g4 g3 g1 (by omega), hw]
    · have : nw - number = 0 := by omega
      simp [this, walk]

/-- `get_ancestor` = walking parent links -/
theorem getAncestor_eq_walk {store : Store} (ok : StoreOk store) {scan : Nat → Hdr → Option Hdr}
    (sok : ScanOk store scan) {h : Hdr} (hs : store h.id = some h) {number : Nat}
    (hn : number ≤ h.number) :
    getAncestor store scan h number = walk store (h.number - number) h := by
  unfold getAncestor
  rw [if_neg (by omega)]
  exact ancestorLoop_eq_walk ok sok number h.number h h.number hs rfl hn (Nat.le_refl _)

/-- the locator loop only depends on the ancestor function through "ancestor of the start at
index i": looking up from the previous locator entry (as the code does) gives the same result -/
theorem locatorLoop_congr (A : Nat → Option Nat) (anc : Nat → Nat → Option Nat)
    (H : ∀ base j i, A j = some base → i ≤ j → anc base i = A i) (fuel : Nat) :
    ∀ (step index base : Nat) (acc : List Nat), (∃ j, index ≤ j ∧ A j = some base) →
    locatorLoop anc fuel step index base acc = locatorLoop (fun _ i => A i) fuel step index base acc := by
  induction fuel with
  | zero => intro _ _ _ _ _; rfl
  | succ fuel ih =>
    intro step index base acc ⟨j, hj, hA⟩
    simp only [locatorLoop]
    rw [H base j index hA hj]
    cases hh : A index with
    | none => rfl
    | some x =>
      simp only []
      have e1 : ∀ st i, i ≤ index → locatorLoop anc fuel st i x (acc ++ [x]) =
          locatorLoop (fun _ i => A i) fuel st i x (acc ++ [x]) :=
        fun st i hi => ih st i x _ ⟨index, hi, hh⟩
      have e2 : ∀ st, locatorLoop anc fuel st (index / 2) x (acc ++ [x]) =
          locatorLoop (fun _ i => A i) fuel st (index / 2) x (acc ++ [x]) :=
        fun st => e1 st _ (Nat.div_le_self _ _)
      have e3 : ∀ st k, locatorLoop anc fuel st (index - k) x (acc ++ [x]) =
          locatorLoop (fun _ i => A i) fuel st (index - k) x (acc ++ [x]) :=
        fun st k => e1 st _ (Nat.sub_le _ _)
      simp only [e2, e3]

/-! ## `build_skip` establishes the store invariant -/

/-- the store after `header_map.insert(h)` -/
def extend (store : Store) (h : Hdr) : Store := fun i => if i = h.id then some h else store i

theorem extend_old {store : Store} {h : Hdr} {i : Nat} {x : Hdr} (hnew : store h.id = none)
    (hx : store i = some x) : extend store h i = some x := by
  unfold extend
  split
  · rename_i hi; rw [hi, hnew] at hx; cases hx
  · exact hx

theorem walk_extend {store : Store} {h : Hdr} (hnew : store h.id = none) (k : Nat) :
    ∀ (g t : Hdr), walk store k g = some t → walk (extend store h) k g = some t := by
  induction k with
  | zero => intro g t hw; exact hw
  | succ k ih =>
    intro g t hw
    simp only [walk] at hw ⊢
    cases hp : store g.parent with
    | none => rw [hp] at hw; cases hw
    | some p =>
      rw [hp] at hw
      rw [extend_old hnew hp]
      exact ih p t hw

/-- what `build_skip` computes for a header that is not in the store yet: the parent walk -/
theorem getAncestor_new {store : Store} (ok : StoreOk store) {scan : Nat → Hdr → Option Hdr}
    (sok : ScanOk store scan) {h p : Hdr} (hskip : h.skip = none) (hp : store h.parent = some p)
    (hn : p.number + 1 = h.number) {number : Nat} (hnum : number ≤ p.number) :
    getAncestor store scan h number = walk store (p.number - number) p := by
  have hpid := ok.id_ok _ _ hp
  have hps : store p.id = some p := by rw [hpid]; exact hp
  unfold getAncestor
  rw [if_neg (by omega)]
  have hfuel : h.number = p.number + 1 := by omega
  rw [hfuel]
  simp only [ancestorLoop]
  rw [if_pos (by omega)]
  have hstep : nextStep store number h (p.number + 1) = some (p, p.number) := by
    simp [nextStep, hskip, hp]
  rw [hstep]
  simp only []
  cases hsc : scan number p with
  | some t =>
    simp only []
    exact (sok number p t hsc hnum).symm
  | none =>
    simp only []
    exact ancestorLoop_eq_walk ok sok number p.number p p.number hps rfl hnum (Nat.le_refl _)

/-- inserting a header whose skip pointer was computed by `build_skip` keeps the store well formed -/
theorem storeOk_extend {store : Store} (ok : StoreOk store) {scan : Nat → Hdr → Option Hdr}
    (sok : ScanOk store scan) {h : Hdr} (hnew : store h.id = none) (hskip : h.skip = none)
    (hpar : h.number = 0 ∨ ∃ p, store h.parent = some p ∧ p.number + 1 = h.number) :
    StoreOk (extend store (buildSkip store scan h)) := by
  have hid : (buildSkip store scan h).id = h.id := by unfold buildSkip; split <;> rfl
  have hnum : (buildSkip store scan h).number = h.number := by unfold buildSkip; split <;> rfl
  have hparent : (buildSkip store scan h).parent = h.parent := by unfold buildSkip; split <;> rfl
  have hnew' : store (buildSkip store scan h).id = none := by rw [hid]; exact hnew
  refine ⟨?_, ?_, ?_⟩
  · intro i x hx
    unfold extend at hx
    split at hx
    · rename_i hi
      have := Option.some.inj hx
      rw [← this]; exact hi.symm
    · exact ok.id_ok i x hx
  · intro i x hx hpos
    unfold extend at hx
    split at hx
    · have hxe := Option.some.inj hx
      rw [← hxe, hnum] at hpos
      rw [← hxe, hparent, hnum]
      rcases hpar with h0 | ⟨p, hp, hpn⟩
      · omega
      · exact ⟨p, extend_old hnew' hp, hpn⟩
    · obtain ⟨p, hp, hpn⟩ := ok.parent_ok i x hx hpos
      exact ⟨p, extend_old hnew' hp, hpn⟩
  · intro i x s hx hs
    unfold extend at hx
    split at hx
    · have hxe := Option.some.inj hx
      subst hxe
      -- the new header: its skip pointer is what get_ancestor returned
      rcases hpar with h0 | ⟨p, hp, hpn⟩
      · have : (buildSkip store scan h).skip = none := by
          unfold buildSkip; simp [h0, hskip]
        rw [this] at hs; cases hs
      · have hne : (h.number == 0) = false := by simp; omega
        have hsk : (buildSkip store scan h).skip =
            (getAncestor store scan h (getSkipHeight h.number)).map (·.id) := by
          unfold buildSkip; simp [hne]
        have hlt := getSkipHeight_lt (h := h.number) (by omega)
        have hle : getSkipHeight h.number ≤ p.number := by omega
        rw [hsk, getAncestor_new ok sok hskip hp hpn hle] at hs
        have hps : store p.id = some p := by rw [ok.id_ok _ _ hp]; exact hp
        obtain ⟨t, ht, _, hts⟩ := walk_ok ok (p.number - getSkipHeight h.number) p hps (by omega)
        rw [ht] at hs
        have hst : t.id = s := by simpa using hs
        subst hst
        refine ⟨t, extend_old hnew' hts, ?_⟩
        rw [hnum]
        have : h.number - getSkipHeight h.number = (p.number - getSkipHeight h.number) + 1 := by omega
        rw [this]
        simp only [walk, hparent]
        rw [extend_old hnew' hp]
        exact walk_extend hnew' _ p t ht
    · obtain ⟨t, ht, hw⟩ := ok.skip_ok i x s hx hs
      exact ⟨t, extend_old hnew' ht, walk_extend hnew' _ x t hw⟩

/-! ## the locator loop terminates and does not panic -/

/-- the loop never runs out of fuel: `index` strictly decreases (by `step ≥ 1`, or by halving
above `ONE_DAY_BLOCK_NUMBER`), so any fuel above `index` gives the same result — the model's
bounded loop is the code's unbounded `loop` -/
theorem locatorLoop_fuel (anc : Nat → Nat → Option Nat) (fuel : Nat) :
    ∀ (fuel' step index base : Nat) (acc : List Nat), 1 ≤ step → index < fuel → index < fuel' →
    locatorLoop anc fuel step index base acc = locatorLoop anc fuel' step index base acc := by
  induction fuel with
  | zero => intro _ _ _ _ _ _ h _; omega
  | succ f ih =>
    intro fuel' step index base acc hstep h1 h2
    cases fuel' with
    | zero => omega
    | succ f' =>
      simp only [locatorLoop]
      cases anc base index with
      | none => rfl
      | some hh =>
        simp only []
        have hs' : 1 ≤ (if (acc ++ [hh]).length ≥ 10 then step * 2 else step) := by
          split <;> omega
        generalize (if (acc ++ [hh]).length ≥ 10 then step * 2 else step) = st at hs'
        by_cases hlt : index < st * 2
        · simp only [hlt, if_true]
          by_cases hb : ((acc ++ [hh]).length < 52 && decide (index > CkbVerif.Gen.Sync.ONE_DAY_BLOCK_NUMBER)) = true
          · simp only [hb, if_true]
            have hi : index > CkbVerif.Gen.Sync.ONE_DAY_BLOCK_NUMBER := by
              simp only [Bool.and_eq_true, decide_eq_true_eq] at hb; exact hb.2
            have : index / 2 < index := Nat.div_lt_self (by omega) (by omega)
            exact ih f' st (index / 2) hh _ hs' (by omega) (by omega)
          · simp only [hb, Bool.false_eq_true, if_false]
        · simp only [hlt, if_false]
          exact ih f' st (index - st) hh _ hs' (by omega) (by omega)

/-- with every queried ancestor present the loop returns (the code's `expect` cannot fire) -/
theorem locatorLoop_some (A : Nat → Option Nat) (fuel : Nat) :
    ∀ (step index base : Nat) (acc : List Nat), (∀ i, i ≤ index → ∃ x, A i = some x) →
    ∃ r, locatorLoop (fun _ i => A i) fuel step index base acc = some r := by
  induction fuel with
  | zero => intro _ _ _ acc _; exact ⟨_, rfl⟩
  | succ f ih =>
    intro step index base acc hA
    simp only [locatorLoop]
    obtain ⟨x, hx⟩ := hA index (Nat.le_refl _)
    simp only [hx]
    generalize (if (acc ++ [x]).length ≥ 10 then step * 2 else step) = st
    by_cases hlt : index < st * 2
    · simp only [hlt, if_true]
      by_cases hb : ((acc ++ [x]).length < 52 && decide (index > CkbVerif.Gen.Sync.ONE_DAY_BLOCK_NUMBER)) = true
      · simp only [hb, if_true]
        exact ih _ _ _ _ (fun i hi => hA i (Nat.le_trans hi (Nat.div_le_self _ _)))
      · simp only [hb, Bool.false_eq_true, if_false]
        exact ⟨_, rfl⟩
    · simp only [hlt, if_false]
      exact ih _ _ _ _ (fun i hi => hA i (Nat.le_trans hi (Nat.sub_le _ _)))

end CkbVerif.Skip
