import CkbVerif.Model.EpochU256
import CkbVerif.Lemmas.EpochCompact

/-! C07: `U256::gcd` (Stein) = `Nat.gcd`; the compact encoding on its canonical range. -/
namespace CkbVerif.Epoch.U256
open CkbVerif.Arith

theorem coprime_two_of_odd {n : Nat} (h : n % 2 = 1) : Nat.Coprime 2 n := by
  unfold Nat.Coprime
  rw [Nat.gcd_rec, h]
  decide

/-- a non-zero value is `2^tz · odd` -/
theorem tz_spec (n : Nat) (h : n ≠ 0) : n = 2 ^ tz n * oddPart n ∧ oddPart n % 2 = 1 := by
  induction n using Nat.strongRecOn with
  | _ n ih =>
    unfold oddPart
    rw [tz]
    simp only [h, if_false]
    by_cases ho : n % 2 = 1
    · simp [ho]
    · simp only [ho, if_false]
      have h2 : n / 2 ≠ 0 := by omega
      obtain ⟨a, b⟩ := ih (n / 2) (by omega) h2
      unfold oddPart at a b
      have e : n / 2 ^ (tz (n / 2) + 1) = n / 2 / 2 ^ tz (n / 2) := by
        rw [Nat.pow_succ, Nat.mul_comm, Nat.div_div_eq_div_mul]
      rw [e]
      refine ⟨?_, b⟩
      have : n = 2 * (n / 2) := by omega
      rw [Nat.pow_succ, Nat.mul_comm (2 ^ _) 2, Nat.mul_assoc, ← a]
      exact this

theorem oddPart_pos_le {n : Nat} (h : n ≠ 0) : 1 ≤ oddPart n ∧ oddPart n ≤ n := by
  obtain ⟨a, b⟩ := tz_spec n h
  refine ⟨by omega, ?_⟩
  unfold oddPart
  exact Nat.div_le_self _ _

/-- stripping the factors of two of `m` does not change the gcd with an odd `n` -/
theorem gcd_oddPart {m n : Nat} (hm : m ≠ 0) (hn : n % 2 = 1) : Nat.gcd (oddPart m) n = Nat.gcd m n := by
  obtain ⟨a, _⟩ := tz_spec m hm
  conv => rhs; rw [a]
  exact (Nat.Coprime.gcd_mul_left_cancel (oddPart m) (Nat.Coprime.pow_left (tz m) (coprime_two_of_odd hn))).symm

/-- the subtract-and-shift loop computes the gcd (and never runs out of the fuel `m + n`) -/
theorem steinLoop_eq_gcd : ∀ (fuel m n : Nat), n % 2 = 1 → m + n ≤ fuel → steinLoop fuel m n = Nat.gcd m n := by
  intro fuel
  induction fuel with
  | zero => intro m n hn hf; omega
  | succ fuel ih =>
    intro m n hn hf
    unfold steinLoop
    by_cases hm : m = 0
    · simp [hm]
    · simp only [hm, if_false]
      obtain ⟨h1, h2⟩ := oddPart_pos_le hm
      obtain ⟨_, hodd⟩ := tz_spec m hm
      have hg := gcd_oddPart hm hn
      by_cases hc : n > oddPart m
      · simp only [hc, if_true]
        rw [ih (n - oddPart m) (oddPart m) hodd (by omega), Nat.gcd_sub_self_left (by omega), ← hg, Nat.gcd_comm]
      · simp only [hc, if_false]
        rw [ih (oddPart m - n) n hn (by omega), Nat.gcd_sub_self_left (by omega), hg]

/-- the gcd of two non-zero values: common power of two times the gcd of the odd parts -/
theorem gcd_two_pow_split {a b : Nat} (ha : a ≠ 0) (hb : b ≠ 0) :
    Nat.gcd a b = Nat.gcd a (oddPart b) * 2 ^ min (tz a) (tz b) := by
  obtain ⟨ea, oa⟩ := tz_spec a ha
  obtain ⟨eb, ob⟩ := tz_spec b hb
  have hgo : Nat.gcd a (oddPart b) = Nat.gcd (oddPart a) (oddPart b) := (gcd_oddPart ha ob).symm
  rw [hgo]
  by_cases hle : tz a ≤ tz b
  · have hmin : min (tz a) (tz b) = tz a := Nat.min_eq_left hle
    rw [hmin]
    conv => lhs; rw [ea, eb]
    have : 2 ^ tz b = 2 ^ tz a * 2 ^ (tz b - tz a) := by rw [← Nat.pow_add]; congr 1; omega
    rw [this, Nat.mul_assoc, Nat.gcd_mul_left]
    rw [Nat.Coprime.gcd_mul_left_cancel_right (oddPart b)
      (Nat.Coprime.pow_left (tz b - tz a) (coprime_two_of_odd oa))]
    exact Nat.mul_comm _ _
  · have hmin : min (tz a) (tz b) = tz b := Nat.min_eq_right (by omega)
    rw [hmin]
    conv => lhs; rw [ea, eb]
    have : 2 ^ tz a = 2 ^ tz b * 2 ^ (tz a - tz b) := by rw [← Nat.pow_add]; congr 1; omega
    rw [this, Nat.mul_assoc, Nat.gcd_mul_left]
    rw [Nat.Coprime.gcd_mul_left_cancel (oddPart a)
      (Nat.Coprime.pow_left (tz a - tz b) (coprime_two_of_odd ob))]
    exact Nat.mul_comm _ _

/-- `U256::gcd` (Stein's algorithm as written) is the mathematical gcd, for all 256-bit arguments -/
theorem gcd_eq_nat_gcd {a b : Nat} (ha : a < U256) : gcd a b = Nat.gcd a b := by
  unfold gcd
  by_cases h1 : a = 0
  · simp [h1]
  by_cases h2 : b = 0
  · simp [h1, h2]
  simp only [h1, h2, if_false]
  obtain ⟨_, ob⟩ := tz_spec b h2
  rw [steinLoop_eq_gcd (a + oddPart b) a (oddPart b) ob (Nat.le_refl _)]
  unfold shl
  rw [← gcd_two_pow_split h1 h2]
  apply Nat.mod_eq_of_lt
  exact Nat.lt_of_le_of_lt (Nat.gcd_le_left b (Nat.pos_of_ne_zero h1)) ha

end CkbVerif.Epoch.U256

namespace CkbVerif.Epoch
open CkbVerif.Arith CkbVerif.Gen.Epoch

/-- a compact target `m + e·2^24` is canonical when it is what `target_to_compact` emits: exponent
(byte length) `1..32`, the top mantissa byte non-zero, and for exponents below 3 the mantissa bytes
that decoding shifts out are zero -/
def CanonicalCompact (m e : Nat) : Prop :=
  2 ^ 16 ≤ m ∧ m < 2 ^ 24 ∧ 1 ≤ e ∧ e ≤ 32 ∧ (e < 3 → m % 2 ^ (8 * (3 - e)) = 0)

theorem byteLen_eq {t e : Nat} (he : 1 ≤ e) (h1 : 2 ^ (8 * (e - 1)) ≤ t) (h2 : t < 2 ^ (8 * e)) :
    (bitLen t + 7) / 8 = e := by
  have hle := bitLen_le_of_lt h2
  have hlt : 8 * (e - 1) < bitLen t := by
    have := (bitLen_bounds t).1
    exact (Nat.pow_lt_pow_iff_right (by decide : 1 < 2)).mp (Nat.lt_of_le_of_lt h1 this)
  omega

/-- the target a canonical compact decodes to has exactly `e` bytes -/
theorem canonical_target_bounds {m e : Nat} (h : CanonicalCompact m e) :
    (compactToTarget (m + e * 2 ^ 24)) =
      ((if e ≤ 3 then m / 2 ^ (8 * (3 - e)) else m * 2 ^ (8 * (e - 3))), false) ∧
    2 ^ (8 * (e - 1)) ≤ (compactToTarget (m + e * 2 ^ 24)).1 ∧
    (compactToTarget (m + e * 2 ^ 24)).1 < 2 ^ (8 * e) := by
  obtain ⟨h1, h2, h3, h4, h5⟩ := h
  rw [compactToTarget_mk h2]
  have hov : (decide (m ≠ 0) && decide (e > 32)) = false := by
    have : ¬ (e > 32) := by omega
    simp [this]
  rw [hov]
  by_cases he : e ≤ 3
  · simp only [he, if_true]
    refine ⟨by first | rfl | trivial, ?_, ?_⟩
    · have : e = 1 ∨ e = 2 ∨ e = 3 := by omega
      rcases this with rfl | rfl | rfl <;> simp <;> omega
    · have : e = 1 ∨ e = 2 ∨ e = 3 := by omega
      rcases this with rfl | rfl | rfl <;> simp <;> omega
  · simp only [he, if_false]
    have hlt : m * 2 ^ (8 * (e - 3)) < 2 ^ (8 * e) := by
      have : m * 2 ^ (8 * (e - 3)) < 2 ^ 24 * 2 ^ (8 * (e - 3)) :=
        Nat.mul_lt_mul_of_pos_right h2 (Nat.pow_pos (by decide))
      rw [← Nat.pow_add] at this
      have e24 : 24 + 8 * (e - 3) = 8 * e := by omega
      rw [e24] at this; exact this
    have hU : m * 2 ^ (8 * (e - 3)) < U256 := by
      refine Nat.lt_of_lt_of_le hlt ?_
      unfold U256
      exact Nat.pow_le_pow_right (by decide) (by omega)
    rw [Nat.mod_eq_of_lt hU]
    refine ⟨by first | rfl | trivial, ?_, hlt⟩
    have : 2 ^ 16 * 2 ^ (8 * (e - 3)) ≤ m * 2 ^ (8 * (e - 3)) := Nat.mul_le_mul_right _ h1
    rw [← Nat.pow_add] at this
    have e16 : 16 + 8 * (e - 3) = 8 * (e - 1) := by omega
    rw [e16] at this; exact this

/-- `target_to_compact ∘ compact_to_target` is the identity on canonical compacts -/
theorem canonical_roundtrip {m e : Nat} (h : CanonicalCompact m e) :
    targetToCompact (compactToTarget (m + e * 2 ^ 24)).1 = m + e * 2 ^ 24 := by
  obtain ⟨hd, hlo, hhi⟩ := canonical_target_bounds h
  obtain ⟨h1, h2, h3, h4, h5⟩ := h
  have hU : (compactToTarget (m + e * 2 ^ 24)).1 < U256 := by
    refine Nat.lt_of_lt_of_le hhi ?_
    unfold U256
    exact Nat.pow_le_pow_right (by decide) (by omega)
  have hb := byteLen_eq h3 hlo hhi
  obtain ⟨_, heq, _⟩ := targetToCompact_eq hU
  simp only [hb] at heq
  rw [heq, hd]
  simp only
  congr 1
  by_cases he : e ≤ 3
  · simp only [he, if_true]
    have : e = 1 ∨ e = 2 ∨ e = 3 := by omega
    rcases this with rfl | rfl | rfl
    · have := h5 (by omega); simp at this ⊢; omega
    · have := h5 (by omega); simp at this ⊢; omega
    · simp
  · simp only [he, if_false]
    exact Nat.mul_div_cancel _ (Nat.pow_pos (by decide))

/-- numeric order of canonical compacts = order of the targets they decode to -/
theorem canonical_mono {m1 e1 m2 e2 : Nat} (c1 : CanonicalCompact m1 e1) (c2 : CanonicalCompact m2 e2)
    (h : m1 + e1 * 2 ^ 24 ≤ m2 + e2 * 2 ^ 24) :
    (compactToTarget (m1 + e1 * 2 ^ 24)).1 ≤ (compactToTarget (m2 + e2 * 2 ^ 24)).1 := by
  obtain ⟨d1, lo1, hi1⟩ := canonical_target_bounds c1
  obtain ⟨d2, lo2, hi2⟩ := canonical_target_bounds c2
  have hm1 := c1.2.1
  have hm2 := c2.2.1
  by_cases hee : e1 = e2
  · subst hee
    have hmm : m1 ≤ m2 := by omega
    rw [d1, d2]
    simp only
    split
    · exact Nat.div_le_div_right hmm
    · exact Nat.mul_le_mul_right _ hmm
  · have hlt : e1 < e2 := by omega
    have : 2 ^ (8 * e1) ≤ 2 ^ (8 * (e2 - 1)) := Nat.pow_le_pow_right (by decide) (by omega)
    omega

/-- everything `target_to_compact` emits for a non-zero target is canonical -/
theorem targetToCompact_canonical {t : Nat} (ht : t < U256) (h0 : t ≠ 0) :
    ∃ m e, targetToCompact t = m + e * 2 ^ 24 ∧ CanonicalCompact m e := by
  obtain ⟨he32, heq, hm⟩ := targetToCompact_eq ht
  obtain ⟨hlt, hge⟩ := byteLen_bounds t
  obtain ⟨he1, hlo⟩ := hge h0
  refine ⟨_, _, heq, ?_, hm, he1, he32, ?_⟩
  · by_cases he : (bitLen t + 7) / 8 ≤ 3
    · simp only [he, if_true]
      have : 2 ^ (8 * ((bitLen t + 7) / 8 - 1)) * 2 ^ (8 * (3 - (bitLen t + 7) / 8)) ≤
          t * 2 ^ (8 * (3 - (bitLen t + 7) / 8)) := Nat.mul_le_mul_right _ hlo
      rw [← Nat.pow_add] at this
      have e16 : 8 * ((bitLen t + 7) / 8 - 1) + 8 * (3 - (bitLen t + 7) / 8) = 16 := by omega
      rw [e16] at this; exact this
    · simp only [he, if_false]
      have : 2 ^ (8 * ((bitLen t + 7) / 8 - 1)) / 2 ^ (8 * ((bitLen t + 7) / 8 - 3)) ≤
          t / 2 ^ (8 * ((bitLen t + 7) / 8 - 3)) := Nat.div_le_div_right hlo
      rw [Nat.pow_div (by omega) (by decide)] at this
      have e16 : 8 * ((bitLen t + 7) / 8 - 1) - 8 * ((bitLen t + 7) / 8 - 3) = 16 := by omega
      rw [e16] at this; exact this
  · intro h3
    have he : (bitLen t + 7) / 8 ≤ 3 := by omega
    simp only [he, if_true]
    exact Nat.mul_mod_left _ _

end CkbVerif.Epoch
