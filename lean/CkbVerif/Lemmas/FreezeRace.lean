/-
The freezer pass racing block import.  `Shared::freeze` takes ONE snapshot at its start and uses it
for the threshold and — in `wipe_out_frozen_data` — for the scan of the NUMBER_HASH rows that finds
the side-chain blocks to delete; but the append loop reads the LIVE store
(`store.get_block_hash(number).and_then(get_unfrozen_block)`), and both delete batches are written to
the live store.  The chain service may commit blocks (also reorganisations above the frozen height)
at any point in between.

The loop under interleaving is already covered by `SysStep` (`FileStep.freeze` with any threshold
and any stop-flag prefix, chain steps in between).  What is new here is the wipe with a STALE side
scan: `wipeRace snap r ret` deletes the bodies of the returned map from the live rows `r` and the
side blocks computed from the snapshot rows `snap`.
-/
import CkbVerif.Lemmas.FreezeSys
namespace CkbVerif.FreezeSys
open CkbVerif.Store CkbVerif.Freeze CkbVerif.Freezer

/-- `live` is a later state of the store than `snap`: block records are insert-only and per hash -/
def Later (snap live : FS) : Prop :=
  ∀ id b, snap.v.r.bodies id = some b → live.v.r.bodies id = some b

theorem Later.refl (s : FS) : Later s s := fun _ _ h => h

theorem later_chainStore {snap s : FS} (hl : Later snap s) (b : Block) (v' : View)
    (fr : List Block) (ok : ChainOk { s with frozen := fr } b v') : Later snap (chainStore s b v') := by
  intro id x hx
  have h1 := hl id x hx
  show v'.r.bodies id = some x
  rw [ok.bodies]
  unfold upd
  by_cases hid : id = b.id
  · subst hid
    have := ok.sameHash x h1
    simp [this]
  · simp only [hid, if_false]
    exact h1


/-- `wipe_out_frozen_data(snapshot, ret)` with the side scan on the SNAPSHOT's NUMBER_HASH rows and
both delete batches on the LIVE rows -/
def wipeRace (snap r : FS) (ret : List (Nat × Nat × Nat)) : FS :=
  (sideOfRet snap ret).foldl wipeSide (ret.foldl (fun r e => wipeBody r e.1) r)

/-- with no commit in between (`snap` = the live rows) it is `wipeRet` -/
theorem wipeRace_self (r : FS) (ret : List (Nat × Nat × Nat)) : wipeRace r r ret = wipeRet r ret := rfl

/-- **the stale side scan only finds blocks that are not on the live main chain**, and the whole
wipe is a run of `FileStep`s from the live state: every block of the returned map is held by the
files below the synced mark; a block the snapshot lists at such a height under another hash cannot
be on the main chain NOW, because the main chain at a frozen height is the frozen block
(`Inv.frozenOk`, kept by every legal chain step) and records are per hash (`Later`) -/
theorem wipeRace_is_fileSteps {k : Codec} (ok : k.Ok) {s : Sys} {chain : List Block} (h : SysInv k s chain)
    (snap : FS) (hl : Later snap s.rows) (ret : List (Nat × Nat × Nat))
    (hret : ∀ e ∈ ret, ∃ fb, 0 < e.2.1 ∧ e.2.1 < s.synced ∧ readFrozen k s.top e.2.1 = .some fb ∧ fb.id = e.1) :
    FileSteps k s { s with rows := wipeRace snap s.rows ret } := by
  have st3 := fileSteps_wipeBodies k ret s hret
  let s3 : Sys := { s with rows := ret.foldl (fun r e => wipeBody r e.1) s.rows }
  have hside : ∀ x ∈ sideOfRet snap ret, ∀ blk, ¬ OnMain s3.rows x blk := by
    intro x hx blk hm
    have hm' : OnMain s.rows x blk := (onMain_foldl_wipeBodyRet _ ret x blk).mp hm
    simp only [sideOfRet, List.mem_filter, List.any_eq_true, Bool.and_eq_true, beq_iff_eq,
      bne_iff_ne] at hx
    obtain ⟨_, e, he, hnum, hne⟩ := hx
    obtain ⟨fb, h0, _, hr, hid⟩ := hret e he
    have hc := readFrozen_some ok h h0 hr
    obtain ⟨_, _, hidx⟩ := h.inv.frozenOk (e.2.1 - 1) fb hc
    have hk : e.2.1 - 1 + 1 = e.2.1 := by omega
    rw [hk] at hidx
    -- the number the snapshot has for `x` is the number of the live record
    have hxnum : blk.number = e.2.1 := by
      unfold numberOfId numberOf at hnum
      cases hb : snap.v.r.bodies x with
      | none => rw [hb] at hnum; simp only at hnum; omega
      | some b =>
        rw [hb] at hnum
        simp only at hnum
        have := hl x b hb
        rw [hm'.1] at this
        cases this
        exact hnum
    have h2 := hm'.2
    rw [hxnum] at h2
    have h3 : s.rows.v.m.index e.2.1 = some fb.id := hidx
    rw [h3, hid] at h2
    exact hne (Option.some.inj h2).symm
  have st4 := fileSteps_wipeSides k (sideOfRet snap ret) s3 hside
  exact FileSteps.trans st3 st4

end CkbVerif.FreezeSys
