import CkbVerif.Lemmas.MMR
/-! `MMRBatch` reads equal reads of the committed store, so the write-through model is exact. -/
namespace CkbVerif.MMR

variable {α : Type}

/-- newest-first view of the batch: entries are contiguous, the newest ends at `top`, the oldest
starts at `base` -/
def ContigR : Nat → List (Nat × List α) → Nat → Prop
  | top, [], base => top = base
  | top, (start, elems) :: older, base => start + elems.length = top ∧ ContigR start older base

theorem batchCommit_snoc (batch : List (Nat × List α)) (e : Nat × List α) (st : Store α) :
    batchCommit (batch ++ [e]) st = (batchCommit batch st).append e.1 e.2 := by
  simp [batchCommit, List.foldl_append]

theorem batchCommit_ge_top (rev : List (Nat × List α)) (st : Store α) (top base : Nat)
    (hc : ContigR top rev base) (q : Nat) (hq : top ≤ q) : batchCommit rev.reverse st q = st q := by
  induction rev generalizing top with
  | nil => rfl
  | cons e older ih =>
    obtain ⟨start, elems⟩ := e
    obtain ⟨h1, h2⟩ := hc
    rw [List.reverse_cons, batchCommit_snoc]
    have hq' : q = start + (q - start) := by omega
    rw [hq', Store.append_ge]
    have : elems[q - start]? = none := by apply List.getElem?_eq_none; omega
    simp only [this]
    rw [← hq']
    exact ih start h2 (by omega)

/-- scanning the batch newest-first = reading the committed store -/
theorem batchScan_eq_commit (rev : List (Nat × List α)) (st : Store α) (top base : Nat)
    (hc : ContigR top rev base) (pos : Nat) :
    batchScan st pos rev = batchCommit rev.reverse st pos := by
  induction rev generalizing top with
  | nil => rfl
  | cons e older ih =>
    obtain ⟨start, elems⟩ := e
    obtain ⟨h1, h2⟩ := hc
    rw [List.reverse_cons, batchCommit_snoc]
    simp only [batchScan]
    by_cases hlt : pos < start
    · simp only [hlt, if_true]
      rw [ih start h2, Store.append_lt _ _ _ _ hlt]
    · simp only [hlt, if_false]
      have hp : pos = start + (pos - start) := by omega
      by_cases h3 : pos < start + elems.length
      · simp only [h3, if_true]
        rw [hp, Store.append_ge]
        have hl : pos - start < elems.length := by omega
        have e : start + (pos - start) - start = pos - start := by omega
        rw [e, List.getElem?_eq_getElem hl]
      · simp only [h3, if_false]
        rw [hp, Store.append_ge]
        have : elems[pos - start]? = none := by apply List.getElem?_eq_none; omega
        simp only [this]
        rw [← hp]
        exact (batchCommit_ge_top older st start base h2 pos (by omega)).symm

/-- a batched MMR object whose batch is contiguous and ends at its size (true for `MMR::new`, whose
batch is empty, and preserved by every `push`) -/
def BOk (m : BMMR α) : Prop := ∃ base, ContigR m.size m.batch.reverse base

theorem batchGet_eq_commit (m : BMMR α) (hok : BOk m) (pos : Nat) :
    batchGet m.batch m.store pos = batchCommit m.batch m.store pos := by
  obtain ⟨base, hc⟩ := hok
  unfold batchGet
  rw [batchScan_eq_commit _ _ _ _ hc, List.reverse_reverse]

theorem findElemB_eq (m : BMMR α) (hok : BOk m) (pos : Nat) (hashes : List α) :
    findElemB m pos hashes = findElem m.flat.size m.flat.store pos hashes := by
  unfold findElemB findElem BMMR.flat
  simp only [batchGet_eq_commit m hok]

theorem pushLoopB_eq (merge : α → α → α) (m : BMMR α) (hok : BOk m) :
    ∀ f pos height elems, pushLoopB merge m f pos height elems =
      pushLoop merge m.flat.size m.flat.store f pos height elems := by
  intro f
  induction f with
  | zero => intros; rfl
  | succ f ih =>
    intro pos height elems
    simp only [pushLoopB, pushLoop, findElemB_eq m hok, ih]

theorem pushLoopB_len (merge : α → α → α) (m : BMMR α) :
    ∀ f pos0 height (es : List α) pos1 es1, pushLoopB merge m f pos0 height es = some (pos1, es1) →
      m.size + es.length = pos0 + 1 → m.size + es1.length = pos1 + 1 := by
  intro f
  induction f with
  | zero =>
    intro pos0 height es pos1 es1 h hl
    simp [pushLoopB] at h; obtain ⟨rfl, rfl⟩ := h; exact hl
  | succ f ih =>
    intro pos0 height es pos1 es1 h hl
    simp only [pushLoopB] at h
    split at h
    · split at h
      · exact ih _ _ _ _ _ h (by simp; omega)
      · simp at h
    · simp at h; obtain ⟨rfl, rfl⟩ := h; exact hl

/-- **The batched `push` (as in the crate) and the write-through `push` agree**: same leaf position,
same size, and committing the batch gives the write-through store; the batch stays contiguous. -/
theorem pushB_flat (merge : α → α → α) (m : BMMR α) (hok : BOk m) (x : α) :
    (pushB merge m x).map (fun r => (r.1.flat, r.2)) = push merge m.flat x ∧
    ∀ m' p, pushB merge m x = some (m', p) → BOk m' := by
  constructor
  · unfold pushB push
    rw [pushLoopB_eq merge m hok]
    simp only [BMMR.flat]
    generalize pushLoop merge m.size (batchCommit m.batch m.store) (m.size + 2) m.size 0 [x] = r
    cases r with
    | none => rfl
    | some r =>
      obtain ⟨pos, elems⟩ := r
      simp only [Option.map_some, batchCommit_snoc]
  · intro m' p h
    obtain ⟨base, hc⟩ := hok
    unfold pushB at h
    cases hl : pushLoopB merge m (m.size + 2) m.size 0 [x] with
    | none => simp [hl] at h
    | some r =>
      obtain ⟨pos, elems⟩ := r
      simp only [hl, Option.some.injEq, Prod.mk.injEq] at h
      obtain ⟨h1, -⟩ := h
      subst h1
      have hlen := pushLoopB_len merge m _ _ _ _ _ _ hl (by simp)
      refine ⟨base, ?_⟩
      simp only [List.reverse_append, List.reverse_cons, List.reverse_nil, List.nil_append, List.singleton_append]
      exact ⟨by omega, hc⟩

/-- `MMR::new(size, store)`: empty batch -/
theorem BOk_new (size : Nat) (st : Store α) : BOk (⟨size, [], st⟩ : BMMR α) := ⟨size, rfl⟩

theorem pushAllB_flat (merge : α → α → α) (m : BMMR α) (hok : BOk m) (xs : List α) :
    (pushAllB merge m xs).map BMMR.flat = pushAll merge m.flat xs := by
  induction xs generalizing m with
  | nil => rfl
  | cons x xs ih =>
    obtain ⟨h1, h2⟩ := pushB_flat merge m hok x
    simp only [pushAllB, pushAll]
    cases hp : pushB merge m x with
    | none =>
      rw [hp] at h1
      simp only [Option.map_none] at h1
      rw [← h1]; rfl
    | some r =>
      obtain ⟨m', p⟩ := r
      rw [hp] at h1
      simp only [Option.map_some] at h1
      rw [← h1]
      exact ih m' (h2 m' p hp)

end CkbVerif.MMR
