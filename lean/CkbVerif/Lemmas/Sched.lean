import CkbVerif.Model.Sched
import CkbVerif.Lemmas.Cycles

/-! Helper lemmas for the scheduler-layer statements of C05 (`Model/Sched.lean`). -/
namespace CkbVerif.Sched
open CkbVerif.Cycles

variable {σ Susp O : Type}

/-- the observation `R` determines the next step: there is a step function on observations that the
real step function follows -/
def Determines (m : Machine σ Susp) (R : σ → O) (iterO : O → It O) : Prop :=
  ∀ s, (m.iter s).map R = iterO (R s)

/-- observationally equal states have the same trace -/
theorem trace_congr (m : Machine σ Susp) (R : σ → O) (iterO : O → It O) (hd : Determines m R iterO) :
    ∀ (fuel : Nat) (s s' : σ), R s = R s' → trace m fuel s = trace m fuel s' := by
  intro fuel
  induction fuel with
  | zero => intro s s' _; rfl
  | succ n ih =>
    intro s s' h
    have h1 := hd s
    have h2 := hd s'
    rw [h] at h1
    unfold trace
    cases hs : m.iter s with
    | exit c =>
      cases hs' : m.iter s' with
      | exit c' =>
        rw [hs] at h1; rw [hs'] at h2
        simp only [It.map] at h1 h2
        rw [← h1] at h2
        cases h2; rfl
      | next k' t' =>
        rw [hs] at h1; rw [hs'] at h2
        simp only [It.map] at h1 h2
        rw [← h1] at h2
        cases h2
    | next k t =>
      cases hs' : m.iter s' with
      | exit c' =>
        rw [hs] at h1; rw [hs'] at h2
        simp only [It.map] at h1 h2
        rw [← h1] at h2
        cases h2
      | next k' t' =>
        rw [hs] at h1; rw [hs'] at h2
        simp only [It.map] at h1 h2
        rw [← h1] at h2
        have hk : k' = k := by injection h2
        have ht : R t' = R t := by injection h2
        subst hk
        simp only
        rw [ih t t' ht.symm]

/-- more fuel does not change a trace that has ended -/
theorem trace_mono (m : Machine σ Susp) :
    ∀ (n : Nat) (s : σ) (t : List Nat) (c : Int), trace m n s = (t, some c) →
      ∀ n', n ≤ n' → trace m n' s = (t, some c) := by
  intro n
  induction n with
  | zero => intro s t c h; simp [trace] at h
  | succ n ih =>
    intro s t c h n' hn
    obtain ⟨j, rfl⟩ : ∃ j, n' = j + 1 := ⟨n' - 1, by omega⟩
    unfold trace at h ⊢
    cases hs : m.iter s with
    | exit c' => rw [hs] at h; simpa using h
    | next k s' =>
      rw [hs] at h
      simp only at h ⊢
      obtain ⟨h2, h1⟩ := Prod.mk.inj h
      have := ih s' (trace m n s').1 c (Prod.ext rfl h1) j (by omega)
      rw [this]
      simp [h2]

/-- a cycle-limited run of the machine is `runSteps` on its trace: same cycles; it ends with the
trace's exit code exactly when `runSteps` leaves nothing; otherwise it stops in a state whose trace
is what `runSteps` left -/
theorem runIt_eq_runSteps (m : Machine σ Susp) :
    ∀ (fuel : Nat) (s : σ) (t : List Nat) (code : Int) (limit : Nat), trace m fuel s = (t, some code) →
      (runIt m fuel s limit).1 = (runSteps t limit).1 ∧
      (((runSteps t limit).2 = [] ∧ (runIt m fuel s limit).2 = .exited code) ∨
       ((runSteps t limit).2 ≠ [] ∧ ∃ s', (runIt m fuel s limit).2 = .out s' ∧
          trace m fuel s' = ((runSteps t limit).2, some code))) := by
  intro fuel
  induction fuel with
  | zero => intro s t code limit h; simp [trace] at h
  | succ n ih =>
    intro s t code limit h
    unfold trace at h
    unfold runIt
    cases hs : m.iter s with
    | exit c =>
      rw [hs] at h
      simp only [Prod.mk.injEq, Option.some.injEq] at h
      obtain ⟨rfl, rfl⟩ := h
      simp [runSteps]
    | next k s' =>
      rw [hs] at h
      simp only at h
      obtain ⟨h2, h1⟩ := Prod.mk.inj h
      have hs' : trace m n s' = ((trace m n s').1, some code) := Prod.ext rfl h1
      subst h2
      by_cases hk : k ≤ limit
      · simp only [hk, if_true]
        have := ih s' (trace m n s').1 code (limit - k) hs'
        obtain ⟨e1, e2⟩ := this
        have hr : runSteps (k :: (trace m n s').1) limit
            = (k + (runSteps (trace m n s').1 (limit - k)).1, (runSteps (trace m n s').1 (limit - k)).2) := by
          simp [runSteps, hk]
        rw [hr]
        refine ⟨by simp [e1], ?_⟩
        rcases e2 with ⟨a, b⟩ | ⟨a, s2, b, c⟩
        · exact Or.inl ⟨a, b⟩
        · refine Or.inr ⟨a, s2, b, ?_⟩
          exact trace_mono m n s2 _ code c (n + 1) (by omega)
      · simp only [hk, if_false]
        have hr : runSteps (k :: (trace m n s').1) limit = (0, k :: (trace m n s').1) := by
          simp [runSteps, hk]
        rw [hr]
        refine ⟨rfl, Or.inr ⟨by simp, s, rfl, ?_⟩⟩
        have : trace m (n + 1) s = (k :: (trace m n s').1, (trace m n s').2) := by
          simp only [trace, hs]
        rw [this, h1]

/-- `driveT` that ends reports the trace's exit code and its full cost -/
theorem driveT_total (code : Int) :
    ∀ (ls t : List Nat) (acc n : Nat) (c : Int), driveT code ls t acc = (n, some c) →
      c = code ∧ n = acc + t.sum := by
  intro ls
  induction ls with
  | nil => intro t acc n c h; simp [driveT] at h
  | cons l ls ih =>
    intro t acc n c h
    unfold driveT at h
    have hs := runSteps_sum t l
    by_cases he : (runSteps t l).2.isEmpty
    · simp only [he, if_true, Prod.mk.injEq, Option.some.injEq] at h
      obtain ⟨rfl, rfl⟩ := h
      have : (runSteps t l).2 = [] := by simpa using he
      rw [this] at hs
      simp at hs
      exact ⟨rfl, by omega⟩
    · simp only [he] at h
      have := ih (runSteps t l).2 (acc + (runSteps t l).1) n c (by simpa using h)
      obtain ⟨a, b⟩ := this
      exact ⟨a, by omega⟩

end CkbVerif.Sched
