import CkbVerif.Lemmas.SchedBook
import CkbVerif.Lemmas.SchedBookW
namespace CkbVerif.SchedBook
open CkbVerif.Gen.Cycles

theorem otherFd_otherFd (fd : Nat) : otherFd (otherFd fd) = fd := by
  unfold otherFd
  by_cases h : fd % 2 = 0
  · have : ¬ (fd + 1) % 2 = 0 := by omega
    simp [h, this]
  · have h1 : (fd - 1) % 2 = 0 := by omega
    simp [h, h1]; omega

theorem lookup_of_key {β : Type} (l : List (Nat × β)) (k : Nat) (h : k ∈ l.map (·.1)) :
    ∃ v, l.lookup k = some v ∧ (k, v) ∈ l := by
  induction l with
  | nil => cases h
  | cons q l ih =>
    obtain ⟨a, w⟩ := q
    by_cases e : k = a
    · subst e; exact ⟨w, by simp [List.lookup], List.mem_cons_self⟩
    · have hk : k ∈ l.map (·.1) := by
        simp only [List.map_cons, List.mem_cons] at h
        rcases h with h | h
        · exact absurd h e
        · exact h
      obtain ⟨v, h1, h2⟩ := ih hk
      have : (k == a) = false := by simp [e]
      exact ⟨v, by simp [List.lookup, this, h1], List.mem_cons_of_mem _ h2⟩

theorem mem_of_lookup {β : Type} (l : List (Nat × β)) (k : Nat) (v : β) (h : l.lookup k = some v) : (k, v) ∈ l := by
  induction l with
  | nil => simp [List.lookup] at h
  | cons q l ih =>
    obtain ⟨a, w⟩ := q
    by_cases e : k = a
    · subst e; simp [List.lookup] at h; subst h; exact List.mem_cons_self
    · have : (k == a) = false := by simp [e]
      simp only [List.lookup, this] at h
      exact List.mem_cons_of_mem _ (ih h)

theorem mem_openReads (s : Sch) (fd vm len : Nat) :
    (fd, (vm, len)) ∈ openReads s ↔ (vm, VmState.waitRead fd len) ∈ s.states ∧ mhas (otherFd fd) s.fds = true := by
  unfold openReads
  rw [List.mem_filterMap]
  constructor
  · rintro ⟨⟨x, st⟩, hm, hf⟩
    cases st with
    | waitRead fd' len' =>
      simp only at hf
      by_cases ho : mhas (otherFd fd') s.fds = true
      · simp only [ho, if_true, Option.some.injEq, Prod.mk.injEq] at hf
        obtain ⟨e1, e2, e3⟩ := hf
        subst e1 e2 e3
        exact ⟨hm, ho⟩
      · simp [ho] at hf
    | runnable => simp at hf
    | terminated => simp at hf
    | wait _ => simp at hf
    | waitWrite _ _ _ => simp at hf
  · rintro ⟨hm, ho⟩
    exact ⟨(vm, .waitRead fd len), hm, by simp [ho]⟩

/-- every write-wait of `l` is a write-wait of the same VM on the same fd in `S0` -/
def WFrom (S0 l : List (Nat × VmState)) : Prop :=
  ∀ x fd c len, (x, VmState.waitWrite fd c len) ∈ l → ∃ c0 len0, (x, VmState.waitWrite fd c0 len0) ∈ S0

theorem WFrom_runnable (S0 l : List (Nat × VmState)) (k : Nat) (h : WFrom S0 l) : WFrom S0 (minsert k .runnable l) := by
  intro x fd c len hm
  rcases mem_minsert_sub k _ l _ hm with e | e
  · cases e
  · exact h x fd c len e

theorem serveClosed_wfrom (S0 : List (Nat × VmState)) : ∀ (l : List Nat) (s t : Sch),
    serveClosed l s = .ok t → WFrom S0 s.states → WFrom S0 t.states := by
  intro l
  induction l with
  | nil => intro s t h hw; simp [serveClosed] at h; subst h; exact hw
  | cons vm rest ih =>
    intro s t h hw
    unfold serveClosed at h
    split at h
    · split at h
      · cases h
      · rename_i s1 he
        have hst : s1.states = s.states := (ensureInst_core he).2.2.2.1
        exact ih _ t h (by simp only [hst]; exact WFrom_runnable _ _ _ hw)
    · split at h
      · cases h
      · rename_i s1 he
        have hst : s1.states = s.states := (ensureInst_core he).2.2.2.1
        exact ih _ t h (by simp only [hst]; exact WFrom_runnable _ _ _ hw)
    · exact ih s t h hw

theorem servePairs_wfrom (S0 : List (Nat × VmState)) : ∀ (l : List Pair) (s t : Sch),
    (∀ p ∈ l, (p.writer, VmState.waitWrite p.wfd p.consumed p.wlen) ∈ S0) →
    servePairs l s = .ok t → WFrom S0 s.states → WFrom S0 t.states := by
  intro l
  induction l with
  | nil => intro s t _ h hw; simp [servePairs] at h; subst h; exact hw
  | cons p rest ih =>
    intro s t hp h hw
    unfold servePairs at h
    split at h
    · cases h
    · rename_i s1 he
      simp only at h
      have hst : s1.states = s.states := (ensureInst_core he).2.2.2.1
      have hrest : ∀ q ∈ rest, (q.writer, VmState.waitWrite q.wfd q.consumed q.wlen) ∈ S0 :=
        fun q hq => hp q (List.mem_cons_of_mem _ hq)
      have h1 : WFrom S0 (minsert p.reader VmState.runnable s1.states) := by rw [hst]; exact WFrom_runnable _ _ _ hw
      split at h
      · exact ih _ t hrest h (WFrom_runnable _ _ _ h1)
      · refine ih _ t hrest h ?_
        intro x fd c len hm
        rcases mem_minsert_sub _ _ _ _ hm with e | e
        · simp only [Prod.mk.injEq, VmState.waitWrite.injEq] at e
          obtain ⟨e1, e2, _, _⟩ := e
          subst e1 e2
          exact ⟨_, _, hp p List.mem_cons_self⟩
        · exact h1 x fd c len e

/-- after the second loop of `process_io` no reader of a served pair waits for a read any more -/
theorem servePairs_readers : ∀ (l : List Pair) (s t : Sch), KS s.states → servePairs l s = .ok t →
    ∀ p ∈ l, NotRead (mget p.reader t.states) := by
  intro l
  induction l with
  | nil => intro s t _ _ p hp; cases hp
  | cons q rest ih =>
    intro s t hk h p hp
    unfold servePairs at h
    split at h
    · cases h
    · rename_i s1 he
      simp only at h
      have hst : s1.states = s.states := (ensureInst_core he).2.2.2.1
      have hk1 : KS (minsert q.reader VmState.runnable s1.states) := by rw [hst]; exact KS_minsert _ _ _ hk
      -- the state after this pair: the reader does not wait for a read
      have hnr : ∀ (w : VmState), (∀ fd len, w ≠ .waitRead fd len) →
          NotRead (mget q.reader (minsert q.writer w (minsert q.reader VmState.runnable s1.states))) := by
        intro w hw fd len
        rw [mget_minsert]
        by_cases e : q.reader = q.writer
        · simp only [e, if_true]; intro hh; cases hh; exact hw fd len rfl
        · simp only [e, if_false, mget_minsert, if_true]; simp
      split at h
      · rcases List.mem_cons.mp hp with e | e
        · subst e
          exact (servePairs_post rest _ t (KS_minsert _ _ _ hk1) h).2 _ (hnr .runnable (by intro _ _ hh; cases hh))
        · exact ih _ t (KS_minsert _ _ _ hk1) h p e
      · rcases List.mem_cons.mp hp with e | e
        · subst e
          exact (servePairs_post rest _ t (KS_minsert _ _ _ hk1) h).2 _ (hnr _ (by intro _ _ hh; cases hh))
        · exact ih _ t (KS_minsert _ _ _ hk1) h p e

/-- a VM that waits for a read on an fd owns that fd -/
def OwnR (s : Sch) : Prop := ∀ x fd len, (x, VmState.waitRead fd len) ∈ s.states → mget fd s.fds = some x

/-- after `process_io` no read/write pair on one pipe is left waiting -/
theorem processIo_no_pair (s t : Sch) (hk : KS s.states) (hown : OwnR s) (h : processIo s = .ok t) :
    ioPairs t = [] := by
  have hio := processIo_ioStep s t h
  have hfd : t.fds = s.fds := hio.2.2.2.1
  have hproc := h
  unfold processIo at h
  simp only at h
  split at h
  · cases h
  · rename_i s1 he
    obtain ⟨a1, _, _⟩ := serveClosed_post _ _ s1 (show KS ({ s with log := Out.ioScan (closedReaders s ++ closedWriters s).length (ioPairs s).length :: s.log } : Sch).states from hk) he
    obtain ⟨b1, _⟩ := servePairs_post _ s1 t a1 h
    have w1 : WFrom s.states s1.states := serveClosed_wfrom s.states _ _ s1 he (fun x fd c len hm => ⟨c, len, hm⟩)
    have w2 : WFrom s.states t.states := servePairs_wfrom s.states _ s1 t (fun p hp => (ioPairs_open s p hp).2) h w1
    have rd := servePairs_readers _ s1 t a1 h
    apply List.eq_nil_iff_forall_not_mem.mpr
    intro p' hp'
    -- a pair of `t`: a writer on `fd` and a reader on the other end
    unfold ioPairs at hp'
    obtain ⟨⟨w, st⟩, hwm, hf⟩ := List.mem_filterMap.mp hp'
    cases st with
    | waitWrite fd c len =>
      simp only at hf
      by_cases ho : mhas (otherFd fd) t.fds = true
      · simp only [ho, if_true] at hf
        split at hf
        · rename_i r rlen hl
          -- the reader entry of `t`
          have hrm : (otherFd fd, (r, rlen)) ∈ openReads t := by
            have := mem_of_lookup _ _ _ hl   -- membership in the reversed list
            exact List.mem_reverse.mp this
          obtain ⟨hrt, hropen⟩ := (mem_openReads t _ _ _).mp hrm
          have hrs : (r, VmState.waitRead (otherFd fd) rlen) ∈ s.states := by
            rcases hio.2.2.2.2.2.2 _ hrt with e | e | ⟨_, _, _, e⟩
            · exact e
            · cases e
            · cases e
          -- some writer waits on `fd` in `s`
          obtain ⟨c0, len0, hys⟩ := w2 w fd c len hwm
          rw [hfd] at ho hropen
          -- the pair `process_io` built for that writer
          have hkey : otherFd fd ∈ (openReads s).reverse.map (·.1) := by
            have : (otherFd fd, (r, rlen)) ∈ (openReads s).reverse :=
              List.mem_reverse.mpr ((mem_openReads s _ _ _).mpr ⟨hrs, hropen⟩)
            exact List.mem_map_of_mem (f := (·.1)) this
          obtain ⟨⟨r', rlen'⟩, hl', hm'⟩ := lookup_of_key _ _ hkey
          have hr's : (r', VmState.waitRead (otherFd fd) rlen') ∈ s.states :=
            ((mem_openReads s _ _ _).mp (List.mem_reverse.mp hm')).1
          have hrr : r' = r := by
            have e1 := hown r' _ _ hr's
            have e2 := hown r _ _ hrs
            rw [e1] at e2; exact Option.some.inj e2
          subst hrr
          have hpair : (⟨r', rlen', w, fd, c0, len0⟩ : Pair) ∈ ioPairs s := by
            unfold ioPairs
            apply List.mem_filterMap.mpr
            refine ⟨(w, .waitWrite fd c0 len0), hys, ?_⟩
            simp only [ho, if_true, hl']
          exact rd _ hpair (otherFd fd) rlen (mget_of_mem _ b1 _ _ hrt)
        · cases hf
      · simp [ho] at hf
    | runnable => simp at hf
    | terminated => simp at hf
    | wait _ => simp at hf
    | waitRead _ _ => simp at hf

end CkbVerif.SchedBook
