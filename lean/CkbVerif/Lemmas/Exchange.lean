import CkbVerif.Model.Compact
import CkbVerif.Model.Frame
import CkbVerif.Model.Proto
/-! Helper lemmas for the BlockTransactions exchange (C16): `block_short_ids` has one entry per
body position, the `filter_map` over requested indexes, and the counting behind the uncle loop. -/
namespace CkbVerif.Compact

theorem blockShortIdsGo_length (pre sids : List Nat) (n i index : Nat) :
    (blockShortIdsGo pre sids n i index).length = n := by
  induction n generalizing i index with
  | zero => simp [blockShortIdsGo]
  | succ n ih =>
    unfold blockShortIdsGo
    split <;> simp [ih]

theorem blockShortIds_length (cb : CB) : (blockShortIds cb).length = txsLen cb := by
  unfold blockShortIds
  exact blockShortIdsGo_length _ _ _ _ _

theorem missingShortIds_isSome (bsi : List (Option Nat)) (idx : List Nat) (h : ∀ i ∈ idx, i < bsi.length) :
    (missingShortIds bsi idx).isSome = true := by
  induction idx with
  | nil => simp [missingShortIds]
  | cons i rest ih =>
    have hi : i < bsi.length := h i (by simp)
    have hrest := ih (fun j hj => h j (by simp [hj]))
    unfold missingShortIds
    have hg : bsi[i]? = some bsi[i] := by simp [hi]
    rw [hg]
    cases hb : bsi[i] with
    | none => simpa using hrest
    | some sid =>
      cases hm : missingShortIds bsi rest with
      | none => simp [hm] at hrest
      | some l => simp

theorem missingShortIds_none_of_oob (bsi : List (Option Nat)) (idx : List Nat) (i : Nat) (hi : i ∈ idx)
    (ho : bsi.length ≤ i) : missingShortIds bsi idx = none := by
  induction idx with
  | nil => simp at hi
  | cons j rest ih =>
    unfold missingShortIds
    rcases List.mem_cons.mp hi with e | hm
    · subst e
      have : bsi[i]? = none := by simp [ho]
      rw [this]
    · have hr := ih hm
      cases hg : bsi[j]? with
      | none => rfl
      | some o =>
        cases o with
        | none => simpa using hr
        | some sid => simp [hr]

/-- how many of the positions `i, i+1, …` of the remaining uncles are peer-supplied -/
def peerCount (fromPeer : List Nat) : Nat → Nat → Nat
  | 0, _ => 0
  | n + 1, i => (if fromPeer.contains i then 1 else 0) + peerCount fromPeer n (i + 1)

theorem unclesTake_isSome_iff (fromPeer received us : List Nat) (i pos : Nat) :
    (unclesTake fromPeer received us i pos).isSome = true ↔ pos + peerCount fromPeer us.length i ≤ received.length ∨ peerCount fromPeer us.length i = 0 := by
  induction us generalizing i pos with
  | nil => simp [unclesTake, peerCount]
  | cons u rest ih =>
    unfold unclesTake
    simp only [List.length_cons, peerCount]
    by_cases hc : fromPeer.contains i = true
    · simp only [hc, if_true]
      cases hg : received[pos]? with
      | none =>
        have : received.length ≤ pos := by simpa using hg
        simp
        omega
      | some r =>
        have hlt : pos < received.length := by
          rcases List.getElem?_eq_some_iff.mp hg with ⟨h, _⟩
          exact h
        simp only [Option.isSome_map]
        rw [ih (i + 1) (pos + 1)]
        constructor
        · rintro (h | h) <;> omega
        · rintro (h | h) <;> omega
    · simp only [hc, Bool.false_eq_true, if_false]
      rw [ih (i + 1) pos]
      constructor
      · rintro (h | h) <;> omega
      · rintro (h | h) <;> omega

theorem countP_lt_succ (idx : List Nat) (n : Nat) :
    idx.countP (fun j => decide (j < n + 1)) = idx.countP (fun j => decide (j < n)) + idx.countP (fun j => j == n) := by
  induction idx with
  | nil => simp
  | cons a l ih =>
    simp only [List.countP_cons, ih]
    by_cases h1 : a < n
    · have : ¬ a = n := by omega
      have h2 : a < n + 1 := by omega
      simp [h1, h2, this]
      omega
    · by_cases h3 : a = n
      · subst h3; simp
        omega
      · have h2 : ¬ a < n + 1 := by omega
        simp [h1, h2, h3]

theorem contains_le_countP (idx : List Nat) (n : Nat) :
    (if idx.contains n then 1 else 0) ≤ idx.countP (fun j => j == n) := by
  by_cases h : idx.contains n = true
  · simp only [h, if_true]
    have hm : n ∈ idx := by simpa using h
    exact List.countP_pos_iff.mpr ⟨n, hm, by simp⟩
  · have hm : ¬ n ∈ idx := by simpa using h
    simp [hm]

/-- the peer-supplied positions among the first `n` uncles are at most as many as the requested
indexes below `n` (with multiplicity) -/
theorem peerCount_le (idx : List Nat) (n : Nat) :
    ∀ k, k ≤ n → peerCount idx k (n - k) + idx.countP (fun j => decide (j < n - k)) ≤ idx.countP (fun j => decide (j < n)) := by
  intro k
  induction k with
  | zero => intro _; simp [peerCount]
  | succ k ih =>
    intro hk
    have ih' := ih (by omega)
    have e : n - k = (n - (k + 1)) + 1 := by omega
    have hs := countP_lt_succ idx (n - (k + 1))
    have hc := contains_le_countP idx (n - (k + 1))
    simp only [peerCount]
    rw [e] at ih'
    rw [← e] at ih'
    have e2 : n - (k + 1) + 1 = n - k := by omega
    rw [e2]
    rw [e2] at hs
    omega

theorem expectedUncles_length (uncles idx : List Nat) :
    (expectedUncles uncles idx).length = idx.countP (fun j => decide (j < uncles.length)) := by
  unfold expectedUncles
  induction idx with
  | nil => simp
  | cons a l ih =>
    by_cases h : a < uncles.length
    · have : uncles[a]? = some uncles[a] := by simp [h]
      simp [ih, h]
    · have : uncles[a]? = none := by simp; omega
      simp [ih, h]

end CkbVerif.Compact
