/-
Helper lemmas for `Model/Store.lean`: point-wise characterisation of the column writes.
-/
import CkbVerif.Model.Store
namespace CkbVerif.Store

@[simp] theorem upd_same {α β : Type} [DecidableEq α] (f : α → Option β) (k : α) (v : Option β) :
    upd f k v k = v := by simp [upd]

theorem upd_other {α β : Type} [DecidableEq α] (f : α → Option β) (k x : α) (v : Option β) (h : x ≠ k) :
    upd f k v x = f x := by simp [upd, h]

theorem putAll_apply {α β : Type} [DecidableEq α] (f : α → Option β) (v : Option β) (ks : List α) (x : α) :
    putAll f v ks x = if x ∈ ks then v else f x := by
  induction ks generalizing f with
  | nil => simp [putAll]
  | cons k ks ih =>
    simp only [putAll, ih, List.mem_cons]
    by_cases h1 : x ∈ ks
    · simp [h1]
    · by_cases h2 : x = k
      · simp [h2, upd]
      · simp [h1, h2, upd]

/-! ### cells -/

@[simp] theorem insertCells_txInfo (m : Main) (cs) : (insertCells m cs).txInfo = m.txInfo := by
  induction cs generalizing m with
  | nil => rfl
  | cons c cs ih => obtain ⟨o, row⟩ := c; simp [insertCells, ih]
@[simp] theorem insertCells_index (m : Main) (cs) : (insertCells m cs).index = m.index := by
  induction cs generalizing m with
  | nil => rfl
  | cons c cs ih => obtain ⟨o, row⟩ := c; simp [insertCells, ih]
@[simp] theorem insertCells_rindex (m : Main) (cs) : (insertCells m cs).rindex = m.rindex := by
  induction cs generalizing m with
  | nil => rfl
  | cons c cs ih => obtain ⟨o, row⟩ := c; simp [insertCells, ih]
@[simp] theorem insertCells_uncles (m : Main) (cs) : (insertCells m cs).uncles = m.uncles := by
  induction cs generalizing m with
  | nil => rfl
  | cons c cs ih => obtain ⟨o, row⟩ := c; simp [insertCells, ih]
@[simp] theorem insertCells_tip (m : Main) (cs) : (insertCells m cs).tip = m.tip := by
  induction cs generalizing m with
  | nil => rfl
  | cons c cs ih => obtain ⟨o, row⟩ := c; simp [insertCells, ih]
@[simp] theorem insertCells_curEpoch (m : Main) (cs) : (insertCells m cs).curEpoch = m.curEpoch := by
  induction cs generalizing m with
  | nil => rfl
  | cons c cs ih => obtain ⟨o, row⟩ := c; simp [insertCells, ih]

@[simp] theorem insertCells_epochNum (m : Main) (cs) : (insertCells m cs).epochNum = m.epochNum := by
  induction cs generalizing m with
  | nil => rfl
  | cons c cs ih => obtain ⟨o, row⟩ := c; simp [insertCells, ih]

@[simp] theorem deleteCells_epochNum (m : Main) (os) : (deleteCells m os).epochNum = m.epochNum := by
  induction os generalizing m with
  | nil => rfl
  | cons o os ih => simp [deleteCells, ih]

@[simp] theorem deleteCells_txInfo (m : Main) (os) : (deleteCells m os).txInfo = m.txInfo := by
  induction os generalizing m with
  | nil => rfl
  | cons o os ih => simp [deleteCells, ih]
@[simp] theorem deleteCells_index (m : Main) (os) : (deleteCells m os).index = m.index := by
  induction os generalizing m with
  | nil => rfl
  | cons o os ih => simp [deleteCells, ih]
@[simp] theorem deleteCells_rindex (m : Main) (os) : (deleteCells m os).rindex = m.rindex := by
  induction os generalizing m with
  | nil => rfl
  | cons o os ih => simp [deleteCells, ih]
@[simp] theorem deleteCells_uncles (m : Main) (os) : (deleteCells m os).uncles = m.uncles := by
  induction os generalizing m with
  | nil => rfl
  | cons o os ih => simp [deleteCells, ih]
@[simp] theorem deleteCells_tip (m : Main) (os) : (deleteCells m os).tip = m.tip := by
  induction os generalizing m with
  | nil => rfl
  | cons o os ih => simp [deleteCells, ih]
@[simp] theorem deleteCells_curEpoch (m : Main) (os) : (deleteCells m os).curEpoch = m.curEpoch := by
  induction os generalizing m with
  | nil => rfl
  | cons o os ih => simp [deleteCells, ih]

theorem deleteCells_cells (m : Main) (os : List OutPoint) (x : OutPoint) :
    (deleteCells m os).cells x = if x ∈ os then none else m.cells x := by
  induction os generalizing m with
  | nil => simp [deleteCells]
  | cons o os ih =>
    simp only [deleteCells, ih, List.mem_cons]
    by_cases h1 : x ∈ os
    · simp [h1]
    · by_cases h2 : x = o
      · simp [h2, upd]
      · simp [h1, h2, upd]

theorem insertCells_cells_not_mem (m : Main) (cs : List (OutPoint × CellRow)) (x : OutPoint)
    (h : x ∉ cs.map (·.1)) : (insertCells m cs).cells x = m.cells x := by
  induction cs generalizing m with
  | nil => rfl
  | cons c cs ih =>
    obtain ⟨o, row⟩ := c
    simp only [List.map_cons, List.mem_cons, not_or] at h
    simp only [insertCells]
    rw [ih _ h.2]
    simp [upd, h.1]

/-- if every row listed for key `x` is the same `row`, that is what ends up stored -/
theorem insertCells_cells_mem (m : Main) (cs : List (OutPoint × CellRow)) (x : OutPoint) (row : CellRow)
    (hall : ∀ p ∈ cs, p.1 = x → p.2 = row) (h : x ∈ cs.map (·.1)) :
    (insertCells m cs).cells x = some row := by
  induction cs generalizing m with
  | nil => simp at h
  | cons c cs ih =>
    obtain ⟨o, r⟩ := c
    simp only [insertCells]
    by_cases hin : x ∈ cs.map (·.1)
    · exact ih _ (fun p hp => hall p (List.mem_cons_of_mem _ hp)) hin
    · rw [insertCells_cells_not_mem _ _ _ hin]
      simp only [List.map_cons, List.mem_cons] at h
      have hx : x = o := by
        rcases h with h | h
        · exact h
        · exact absurd h hin
      have := hall (o, r) (List.mem_cons_self) hx.symm
      simp at this
      simp [upd, hx, this]

/-! ### membership in the row lists -/

theorem mem_outCells {blockId number : Nat} {epoch : Ep} {txIndex txId : Nat} {i : Nat} {outs : List Output}
    {p : OutPoint × CellRow} :
    p ∈ outCells blockId number epoch txIndex txId i outs ↔
      ∃ j out, outs[j]? = some out ∧ p = (⟨txId, i + j⟩, mkRow blockId number epoch txIndex out) := by
  induction outs generalizing i with
  | nil => simp [outCells]
  | cons o os ih =>
    simp only [outCells, List.mem_cons, ih]
    constructor
    · rintro (h | ⟨j, out, hj, hp⟩)
      · exact ⟨0, o, by simp, by simpa using h⟩
      · exact ⟨j + 1, out, by simpa using hj, by rw [hp]; simp; omega⟩
    · rintro ⟨j, out, hj, hp⟩
      cases j with
      | zero => left; simp at hj; subst hj; simpa using hp
      | succ j => right; exact ⟨j, out, by simpa using hj, by rw [hp]; simp; omega⟩

theorem mem_blockCells {b : Block} {i : Nat} {ts : List Tx} {p : OutPoint × CellRow} :
    p ∈ blockCells b i ts ↔
      ∃ k tx j out, ts[k]? = some tx ∧ tx.outputs[j]? = some out ∧
        p = (⟨tx.id, j⟩, mkRow b.id b.number b.epoch (i + k) out) := by
  induction ts generalizing i with
  | nil => simp [blockCells]
  | cons t ts ih =>
    simp only [blockCells, List.mem_append, mem_outCells, ih]
    constructor
    · rintro (⟨j, out, hj, hp⟩ | ⟨k, tx, j, out, hk, hj, hp⟩)
      · exact ⟨0, t, j, out, by simp, hj, by simpa using hp⟩
      · exact ⟨k + 1, tx, j, out, by simpa using hk, hj, by rw [hp, show i + 1 + k = i + (k + 1) by omega]⟩
    · rintro ⟨k, tx, j, out, hk, hj, hp⟩
      cases k with
      | zero => left; simp at hk; subst hk; exact ⟨j, out, hj, by simpa using hp⟩
      | succ k => right; exact ⟨k, tx, j, out, by simpa using hk, hj, by rw [hp, show i + 1 + k = i + (k + 1) by omega]⟩

theorem mem_outPointsOf {txId i : Nat} {outs : List Output} {o : OutPoint} :
    o ∈ outPointsOf txId i outs ↔ ∃ j, j < outs.length ∧ o = ⟨txId, i + j⟩ := by
  induction outs generalizing i with
  | nil => simp [outPointsOf]
  | cons x xs ih =>
    simp only [outPointsOf, List.mem_cons, ih, List.length_cons]
    constructor
    · rintro (h | ⟨j, hj, ho⟩)
      · exact ⟨0, by omega, by simpa using h⟩
      · exact ⟨j + 1, by omega, by rw [ho]; simp; omega⟩
    · rintro ⟨j, hj, ho⟩
      cases j with
      | zero => left; simpa using ho
      | succ j => right; exact ⟨j, by omega, by rw [ho]; simp; omega⟩

theorem mem_blockOutPoints {b : Block} {o : OutPoint} :
    o ∈ blockOutPoints b ↔ ∃ tx ∈ b.txs, o.tx = tx.id ∧ o.idx < tx.outputs.length := by
  simp only [blockOutPoints, List.mem_flatMap, mem_outPointsOf]
  constructor
  · rintro ⟨tx, htx, j, hj, ho⟩
    exact ⟨tx, htx, by rw [ho], by rw [ho]; simpa using hj⟩
  · rintro ⟨tx, htx, h1, h2⟩
    refine ⟨tx, htx, o.idx, h2, ?_⟩
    cases o; simp at h1 ⊢; exact h1

/-- the keys of the rows `attach_block_cell` inserts are the block's out-points -/
theorem mem_blockCells_keys {b : Block} {o : OutPoint} :
    o ∈ (blockCells b 0 b.txs).map (·.1) ↔ o ∈ blockOutPoints b := by
  rw [mem_blockOutPoints]
  simp only [List.mem_map, mem_blockCells]
  constructor
  · rintro ⟨p, ⟨k, tx, j, out, hk, hj, hp⟩, rfl⟩
    refine ⟨tx, List.mem_of_getElem? hk, by rw [hp], ?_⟩
    rw [hp]; simp
    exact (List.getElem?_eq_some_iff.mp hj).1
  · rintro ⟨tx, htx, h1, h2⟩
    obtain ⟨k, hk⟩ := List.getElem?_of_mem htx
    refine ⟨(⟨tx.id, o.idx⟩, mkRow b.id b.number b.epoch (0 + k) tx.outputs[o.idx]), ⟨k, tx, o.idx, _, hk, by simp [h2], rfl⟩, ?_⟩
    cases o; simp at h1 ⊢; exact h1.symm

/-! ### tx-info column -/

theorem putTxInfos_not_mem (b : Block) (f : Nat → Option TxInfo) (i : Nat) (ts : List Tx) (x : Nat)
    (h : x ∉ ts.map (·.id)) : putTxInfos b f i ts x = f x := by
  induction ts generalizing f i with
  | nil => rfl
  | cons t ts ih =>
    simp only [List.map_cons, List.mem_cons, not_or] at h
    simp only [putTxInfos]
    rw [ih _ _ h.2]
    simp [upd, h.1]

theorem putTxInfos_mem (b : Block) (f : Nat → Option TxInfo) (i : Nat) (ts : List Tx)
    (hnd : (ts.map (·.id)).Nodup) (k : Nat) (tx : Tx) (hk : ts[k]? = some tx) :
    putTxInfos b f i ts tx.id = some ⟨b.id, i + k, b.number, b.epoch⟩ := by
  induction ts generalizing f i k with
  | nil => simp at hk
  | cons t ts ih =>
    simp only [List.map_cons, List.nodup_cons] at hnd
    simp only [putTxInfos]
    cases k with
    | zero =>
      simp at hk; subst hk
      rw [putTxInfos_not_mem _ _ _ _ _ hnd.1]
      simp [upd]
    | succ k =>
      have := ih (upd f t.id (some ⟨b.id, i, b.number, b.epoch⟩)) (i + 1) hnd.2 k (by simpa using hk)
      rw [this]; congr 2; omega

/-! ### attach / detach leave the cell map alone, attachCell / detachCell leave the others alone -/

@[simp] theorem attach_cells (m : Main) (e) (b : Block) : (attach m e b).cells = m.cells := rfl
@[simp] theorem detach_cells (m : Main) (e) (b : Block) : (detach m e b).cells = m.cells := rfl
@[simp] theorem attach_tip (m : Main) (e) (b : Block) : (attach m e b).tip = m.tip := rfl
@[simp] theorem detach_tip (m : Main) (e) (b : Block) : (detach m e b).tip = m.tip := rfl
@[simp] theorem attach_curEpoch (m : Main) (e) (b : Block) : (attach m e b).curEpoch = m.curEpoch := rfl
@[simp] theorem detach_curEpoch (m : Main) (e) (b : Block) : (detach m e b).curEpoch = m.curEpoch := rfl

@[simp] theorem attachCell_txInfo (m : Main) (b : Block) : (attachCell m b).txInfo = m.txInfo := by simp [attachCell]
@[simp] theorem attachCell_index (m : Main) (b : Block) : (attachCell m b).index = m.index := by simp [attachCell]
@[simp] theorem attachCell_rindex (m : Main) (b : Block) : (attachCell m b).rindex = m.rindex := by simp [attachCell]
@[simp] theorem attachCell_uncles (m : Main) (b : Block) : (attachCell m b).uncles = m.uncles := by simp [attachCell]
@[simp] theorem attachCell_epochNum (m : Main) (b : Block) : (attachCell m b).epochNum = m.epochNum := by simp [attachCell]
@[simp] theorem detachCell_epochNum (m : Main) (r : Recs) (b : Block) : (detachCell m r b).epochNum = m.epochNum := by simp [detachCell]
@[simp] theorem attachCell_tip (m : Main) (b : Block) : (attachCell m b).tip = m.tip := by simp [attachCell]
@[simp] theorem attachCell_curEpoch (m : Main) (b : Block) : (attachCell m b).curEpoch = m.curEpoch := by simp [attachCell]
@[simp] theorem detachCell_txInfo (m : Main) (r : Recs) (b : Block) : (detachCell m r b).txInfo = m.txInfo := by simp [detachCell]
@[simp] theorem detachCell_index (m : Main) (r : Recs) (b : Block) : (detachCell m r b).index = m.index := by simp [detachCell]
@[simp] theorem detachCell_rindex (m : Main) (r : Recs) (b : Block) : (detachCell m r b).rindex = m.rindex := by simp [detachCell]
@[simp] theorem detachCell_uncles (m : Main) (r : Recs) (b : Block) : (detachCell m r b).uncles = m.uncles := by simp [detachCell]
@[simp] theorem detachCell_tip (m : Main) (r : Recs) (b : Block) : (detachCell m r b).tip = m.tip := by simp [detachCell]
@[simp] theorem detachCell_curEpoch (m : Main) (r : Recs) (b : Block) : (detachCell m r b).curEpoch = m.curEpoch := by simp [detachCell]

theorem Main.ext' {a b : Main} (h1 : a.cells = b.cells) (h2 : a.txInfo = b.txInfo) (h3 : a.index = b.index)
    (h4 : a.rindex = b.rindex) (h5 : a.uncles = b.uncles) (h8 : a.epochNum = b.epochNum) (h6 : a.tip = b.tip)
    (h7 : a.curEpoch = b.curEpoch) :
    a = b := by
  cases a; cases b; simp_all

end CkbVerif.Store
