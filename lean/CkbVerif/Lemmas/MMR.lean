import CkbVerif.Lemmas.MMRPos
/-!
# The positional MMR (`push`, `get_root` over a store map) refines the mountain list

`ms : List (Nat × α)` lists the mountains left to right (`(height, root)`), heights strictly
decreasing.  `Inv m ms`: the MMR object `m` has `mmr_size = szH (heights ms)` and its store holds
the mountain roots at the peak positions.  Nothing is assumed about any other store position.
-/
namespace CkbVerif.MMR

variable {α : Type}

def heights (ms : List (Nat × α)) : List Nat := ms.map (·.1)

/-- value of the topmost node produced by pushing `x` onto mountains `ms`
(`merge v_{t-1} (… (merge v_0 x))` over the trailing run) -/
def topR (merge : α → α → α) : List (Nat × α) → α → α
  | [], x => x
  | (h, v) :: r, x => if h = r.length then merge v (topR merge r x) else topR merge r x

/-- all elements produced by that push: the leaf, then one parent per merge -/
def elemsR (merge : α → α → α) : List (Nat × α) → α → List α
  | [], x => [x]
  | (h, v) :: r, x =>
    if h = r.length then elemsR merge r x ++ [merge v (topR merge r x)] else elemsR merge r x

/-- the mountains after pushing `x` (left to right) -/
def pushD (merge : α → α → α) : List (Nat × α) → α → List (Nat × α)
  | [], x => [(0, x)]
  | (h, v) :: r, x =>
    if h = r.length then [(h + 1, merge v (topR merge r x))] else (h, v) :: pushD merge r x

/-- the mountains of a leaf list — a function of the leaves only -/
def specD (merge : α → α → α) (leaves : List α) : List (Nat × α) :=
  leaves.foldl (pushD merge) []

/-- bagging: `root = mergePeaks (mergePeaks (… p_k …) p_2) p_1`, i.e. right to left -/
def bagD (merge : α → α → α) : List (Nat × α) → Option α
  | [] => none
  | (_, v) :: r =>
    match bagD merge r with
    | none => some v
    | some b => some (mergePeaks merge b v)

/-- the store holds the mountain roots at their peak positions (layout starting at `off`) -/
def StoreHas (st : Store α) : Nat → List (Nat × α) → Prop
  | _, [] => True
  | off, (h, v) :: r => st (off + 2 ^ (h + 1) - 2) = some v ∧ StoreHas st (off + (2 ^ (h + 1) - 1)) r

structure Inv (m : MMR α) (ms : List (Nat × α)) : Prop where
  desc : ∃ b, DescB b (heights ms)
  size : m.size = szH (heights ms)
  has : StoreHas m.store 0 ms

/-! ### store lemmas -/

theorem Store.append_lt (s : Store α) (p : Nat) (es : List α) (q : Nat) (h : q < p) :
    (s.append p es) q = s q := by
  induction es generalizing s p with
  | nil => rfl
  | cons e es ih =>
    simp only [Store.append]
    rw [ih _ _ (by omega)]
    simp [Store.set]; omega

theorem Store.append_ge (s : Store α) (p : Nat) (es : List α) (i : Nat) :
    (s.append p es) (p + i) = match es[i]? with | some e => some e | none => s (p + i) := by
  induction es generalizing s p i with
  | nil => simp [Store.append]
  | cons e es ih =>
    simp only [Store.append]
    cases i with
    | zero =>
      rw [Store.append_lt _ _ _ _ (by omega)]
      simp [Store.set]
    | succ i =>
      have : p + (i + 1) = p + 1 + i := by omega
      rw [this, ih]
      simp only [List.getElem?_cons_succ]
      cases es[i]? with
      | some e' => rfl
      | none => simp only [Store.set]; rw [if_neg (by omega)]

theorem StoreHas_congr {st st' : Store α} {off : Nat} {ms : List (Nat × α)}
    (hagree : ∀ q, q < off + szH (heights ms) → st' q = st q) (h : StoreHas st off ms) :
    StoreHas st' off ms := by
  induction ms generalizing off with
  | nil => trivial
  | cons m r ih =>
    obtain ⟨hh, v⟩ := m
    have p0 := Nat.two_pow_pos hh
    have p1 := two_pow_succ hh
    have e : szH (heights ((hh, v) :: r)) = 2 ^ (hh + 1) - 1 + szH (heights r) := rfl
    refine ⟨?_, ih (fun q hq => hagree q (by omega)) h.2⟩
    rw [hagree _ (by omega)]; exact h.1

/-! ### heights of `pushD` -/

theorem heights_pushD (merge : α → α → α) (ms : List (Nat × α)) (x : α) :
    heights (pushD merge ms x) = inc (heights ms) := by
  induction ms with
  | nil => rfl
  | cons m r ih =>
    obtain ⟨h, v⟩ := m
    simp only [pushD, heights, List.map, inc, List.length_map]
    split
    · rfl
    · simp only [List.map]; congr 1

theorem run_full {b : Nat} {hs : List Nat} (h : DescB b hs) (hl : hs.length = b) : run hs = b := by
  cases hs with
  | nil => simp at hl; simp [run, hl]
  | cons x r =>
    have := DescB_len h.2
    have := h.1
    simp at hl
    have hx : x = r.length := by omega
    simp [run, hx]; omega

theorem length_elemsR (merge : α → α → α) {b : Nat} (ms : List (Nat × α)) (hd : DescB b (heights ms))
    (x : α) :
    (elemsR merge ms x).length = run (heights ms) + 1 ∧
    (elemsR merge ms x)[run (heights ms)]? = some (topR merge ms x) := by
  induction ms generalizing b with
  | nil => simp [elemsR, run, heights, topR]
  | cons m r ih =>
    obtain ⟨h, v⟩ := m
    have hd2 : DescB h (heights r) := hd.2
    have ih' := ih hd2
    simp only [elemsR, topR, heights, List.map, run, List.length_map]
    split
    · rename_i hf
      have hr : run (heights r) = h := run_full hd2 (by simp [heights]; omega)
      have hlen : (elemsR merge r x).length = h + 1 := by rw [ih'.1, hr]
      constructor
      · simp [hlen]
      · rw [List.getElem?_append_right (by omega)]
        simp [hlen]
    · exact ih'

/-! ### the `push` loop -/

/-- the loop runs exactly `run (heights ms)` times and produces `elemsR` -/
theorem pushLoop_run (merge : α → α → α) (size : Nat) (st : Store α) (x : α) :
    ∀ (ms : List (Nat × α)) (b off : Nat), DescB b (heights ms) → size = off + szH (heights ms) →
      StoreHas st off ms → (∀ j, j < run (heights ms) → posHeightInTree (size + j + 1) > j) →
      ∀ f, pushLoop merge size st (f + run (heights ms)) size 0 [x] =
        pushLoop merge size st f (size + run (heights ms)) (run (heights ms)) (elemsR merge ms x) := by
  intro ms
  induction ms with
  | nil => intro b off _ _ _ _ f; simp [run, heights, elemsR]
  | cons m r ih =>
    obtain ⟨h, v⟩ := m
    intro b off hd hs hhas hcond f
    have hd2 : DescB h (heights r) := hd.2
    have p0 := Nat.two_pow_pos h
    have p1 := two_pow_succ h
    have hs' : size = off + (2 ^ (h + 1) - 1) + szH (heights r) := by
      simp only [heights, List.map, szH] at hs; simp only [heights]; omega
    by_cases hf : h = r.length
    · -- the whole list is the run `[h, …, 0]`
      have hlr : (heights r).length = h := by simp [heights]; omega
      have hr : run (heights r) = h := run_full hd2 hlr
      have hrun : run (heights ((h, v) :: r)) = h + 1 := by simp [heights, run, hf]
      have hfull := szH_full hd2 hlr
      rw [hrun] at hcond ⊢
      have ih' := ih h (off + (2 ^ (h + 1) - 1)) hd2 hs' hhas.2
        (fun j hj => hcond j (by omega)) (f + 1)
      rw [hr] at ih'
      have he : f + (h + 1) = f + 1 + h := by omega
      rw [he, ih']
      -- one more iteration
      have hc := hcond h (by omega)
      have hlen := length_elemsR merge r hd2 x
      rw [hr] at hlen
      have hleft : size + h + 1 - parentOffset h = off + 2 ^ (h + 1) - 2 := by
        simp only [parentOffset, Gen.MMR.PARENT_OFFSET_BASE]; omega
      have hright : off + 2 ^ (h + 1) - 2 + siblingOffset h = size + h := by
        simp only [siblingOffset, Gen.MMR.SIBLING_OFFSET_BASE]; omega
      have hfl : findElem size st (off + 2 ^ (h + 1) - 2) (elemsR merge r x) = some v := by
        have : ¬ (size ≤ off + 2 ^ (h + 1) - 2) := by omega
        simp only [findElem, this, if_false]
        exact hhas.1
      have hfr : findElem size st (size + h) (elemsR merge r x) = some (topR merge r x) := by
        have : size ≤ size + h := by omega
        simp only [findElem, this, if_true]
        have : size + h - size = h := by omega
        rw [this, hlen.2]
      simp only [pushLoop, hc, if_true, hleft, hright, hfl, hfr]
      have : elemsR merge ((h, v) :: r) x = elemsR merge r x ++ [merge v (topR merge r x)] := by
        simp [elemsR, hf]
      rw [this, show size + h + 1 = size + (h + 1) from by omega]
    · have hrun : run (heights ((h, v) :: r)) = run (heights r) := by
        simp only [heights, List.map, run, List.length_map]; simp [hf]
      have hel : elemsR merge ((h, v) :: r) x = elemsR merge r x := by simp [elemsR, hf]
      rw [hrun] at hcond ⊢
      rw [hel]
      exact ih h (off + (2 ^ (h + 1) - 1)) hd2 hs' hhas.2 hcond f

theorem StoreHas_pushD (merge : α → α → α) (st : Store α) (x : α) (size : Nat) :
    ∀ (ms : List (Nat × α)) (b off : Nat), DescB b (heights ms) → size = off + szH (heights ms) →
      StoreHas st off ms →
      (∀ (es : List α), es.length = run (heights ms) + 1 → es[run (heights ms)]? = some (topR merge ms x) →
        StoreHas (st.append size es) off (pushD merge ms x)) := by
  intro ms
  induction ms with
  | nil =>
    intro b off _ hs _ es hl hget
    simp only [heights, List.map, szH] at hs
    simp only [pushD, StoreHas, and_true]
    have : off + 2 ^ (0 + 1) - 2 = size + 0 := by simp; omega
    rw [this, Store.append_ge]
    simp only [run, heights, List.map, topR] at hget
    simp [hget]
  | cons m r ih =>
    obtain ⟨h, v⟩ := m
    intro b off hd hs hhas es hl hget
    have hd2 : DescB h (heights r) := hd.2
    have p0 := Nat.two_pow_pos h
    have p1 := two_pow_succ h
    have p2 := two_pow_succ (h + 1)
    have hs' : size = off + (2 ^ (h + 1) - 1) + szH (heights r) := by
      simp only [heights, List.map, szH] at hs; simp only [heights]; omega
    by_cases hf : h = r.length
    · have hlr : (heights r).length = h := by simp [heights]; omega
      have hfull := szH_full hd2 hlr
      have hrun : run (heights ((h, v) :: r)) = h + 1 := by simp [heights, run, hf]
      rw [hrun] at hget
      have htop : topR merge ((h, v) :: r) x = merge v (topR merge r x) := by simp [topR, hf]
      simp only [pushD, hf, if_true, StoreHas, and_true]
      rw [← hf]
      have : off + 2 ^ (h + 1 + 1) - 2 = size + (h + 1) := by omega
      rw [this, Store.append_ge, hget, htop]
    · have hrun : run (heights ((h, v) :: r)) = run (heights r) := by
        simp only [heights, List.map, run, List.length_map]; simp [hf]
      have htop : topR merge ((h, v) :: r) x = topR merge r x := by simp [topR, hf]
      rw [hrun] at hl hget
      rw [htop] at hget
      simp only [pushD, hf, if_false, StoreHas]
      refine ⟨?_, ih h _ hd2 hs' hhas.2 es hl hget⟩
      rw [Store.append_lt _ _ _ _ (by omega)]
      exact hhas.1

/-- **one push** on a state satisfying the invariant: succeeds, returns the old size as the leaf
position, re-establishes the invariant for `pushD ms x`, and leaves every position below the old
size untouched. The content of store positions `≥ m.size` before the push is irrelevant. -/
theorem push_inv (merge : α → α → α) (m : MMR α) (ms : List (Nat × α)) (x : α) (hinv : Inv m ms) :
    ∃ m', push merge m x = some (m', m.size) ∧ Inv m' (pushD merge ms x) ∧
      (∀ q, q < m.size → m'.store q = m.store q) ∧ m.size < m'.size := by
  obtain ⟨⟨b, hd⟩, hsize, hhas⟩ := hinv
  have hlen := length_elemsR merge ms hd x
  have hrl := run_le_length (heights ms)
  have hls := length_le_szH (heights ms)
  -- loop conditions from the position arithmetic
  have hcond : ∀ j, j < run (heights ms) → posHeightInTree (m.size + j + 1) > j := by
    intro j hj
    have := posHeight_spec hd (j := j + 1) (by omega)
    rw [hsize]
    have e : szH (heights ms) + j + 1 = szH (heights ms) + (j + 1) := by omega
    rw [e, this]; omega
  have hd' : DescB (max b ((heights ms).length + 1)) (inc (heights ms)) :=
    DescB_inc (DescB_mono hd (by omega)) (by omega)
  have hstop : ¬ (posHeightInTree (m.size + run (heights ms) + 1) > run (heights ms)) := by
    have := posHeight_spec hd' (j := 0) (by omega)
    rw [szH_inc hd] at this
    rw [hsize]
    simp at this
    omega
  have hloop := pushLoop_run merge m.size m.store x ms b 0 hd (by omega) hhas hcond
    (m.size + 2 - run (heights ms))
  have hfu : m.size + 2 - run (heights ms) + run (heights ms) = m.size + 2 := by omega
  rw [hfu] at hloop
  obtain ⟨f', hf'⟩ : ∃ f', m.size + 2 - run (heights ms) = f' + 1 := ⟨m.size + 1 - run (heights ms), by omega⟩
  rw [hf'] at hloop
  have hfin : pushLoop merge m.size m.store (m.size + 2) m.size 0 [x] =
      some (m.size + run (heights ms), elemsR merge ms x) := by
    rw [hloop]; simp only [pushLoop, hstop, if_false]
  refine ⟨{ size := m.size + run (heights ms) + 1, store := m.store.append m.size (elemsR merge ms x) }, ?_, ?_, ?_, ?_⟩
  · simp [push, hfin]
  · refine ⟨⟨_, by rw [heights_pushD]; exact hd'⟩, ?_, ?_⟩
    · rw [heights_pushD, szH_inc hd]; simp; omega
    · exact StoreHas_pushD merge m.store x m.size ms b 0 hd (by omega) hhas _ hlen.1 hlen.2
  · intro q hq
    exact Store.append_lt _ _ _ _ hq
  · simp; omega

/-! ### `get_root` -/

theorem bagRhsPeaks_cons (merge : α → α → α) (v : α) (vs : List α) :
    bagRhsPeaks merge (v :: vs) =
      match bagRhsPeaks merge vs with
      | none => some v
      | some b => some (mergePeaks merge b v) := by
  unfold bagRhsPeaks
  simp only [List.reverse_cons]
  cases hr : vs.reverse with
  | nil => simp
  | cons r rest => simp [List.foldl_append]

theorem mapMOpt_peaks (st : Store α) :
    ∀ (ms : List (Nat × α)) (off : Nat), StoreHas st off ms →
      mapMOpt st (peaksAt off (heights ms)) = some (ms.map (·.2)) := by
  intro ms
  induction ms with
  | nil => intro off _; rfl
  | cons m r ih =>
    obtain ⟨h, v⟩ := m
    intro off hh
    simp only [heights, List.map, peaksAt, mapMOpt, hh.1]
    have := ih _ hh.2
    simp only [heights] at this
    rw [this]

theorem bag_vals (merge : α → α → α) (ms : List (Nat × α)) :
    bagRhsPeaks merge (ms.map (·.2)) = bagD merge ms := by
  induction ms with
  | nil => rfl
  | cons m r ih =>
    obtain ⟨h, v⟩ := m
    simp only [List.map, bagRhsPeaks_cons, ih, bagD]

/-- **`get_root`** of a state satisfying the invariant is the bagging of the mountains. -/
theorem getRoot_inv (merge : α → α → α) (m : MMR α) (ms : List (Nat × α)) (hinv : Inv m ms)
    (hne : ms ≠ []) : getRoot merge m = bagD merge ms := by
  obtain ⟨⟨b, hd⟩, hsize, hhas⟩ := hinv
  cases ms with
  | nil => exact absurd rfl hne
  | cons m0 r =>
    obtain ⟨h, v⟩ := m0
    have p0 := Nat.two_pow_pos h
    have p1 := two_pow_succ h
    have hls := length_le_szH (heights r)
    have hsz : m.size = 2 ^ (h + 1) - 1 + szH (heights r) := by
      simpa [heights, szH] using hsize
    unfold getRoot
    have h0 : m.size ≠ 0 := by omega
    simp only [h0, if_false]
    by_cases h1 : m.size = 1
    · have hh : h = 0 := by
        cases h with
        | zero => rfl
        | succ h' => have := two_pow_succ h'; have := Nat.two_pow_pos h'; omega
      subst hh
      have hr : r = [] := by
        cases r with
        | nil => rfl
        | cons a t =>
          have : (heights (a :: t)).length = t.length + 1 := by simp [heights]
          omega
      subst hr
      have := hhas.1
      simp at this
      simp [h1, this, bagD]
    · simp only [h1, if_false]
      have hgp : getPeaks m.size = peaksAt 0 (heights ((h, v) :: r)) := by
        rw [hsize]; exact getPeaks_spec (K := h) (rest := heights r) hd
      rw [hgp, mapMOpt_peaks m.store _ 0 hhas]
      exact bag_vals merge _

end CkbVerif.MMR
