import CkbVerif.Lemmas.IndexerFollow

/-! Rollbacks of ANY depth in the key-value model (C18): the store that followed a history of appends
and rollbacks (rollbacks of any depth, any number of reorganisations) has the rows of the plain replay
of the surviving chain.

The actual store carries ConsumedOutPoint residue of abandoned blocks (`rollback` never deletes those
rows), so it is compared with the ideal store `append P b` (`P` = the actual store when `b` was
appended) on every row that is not a ConsumedOutPoint row and on the ConsumedOutPoint rows of numbers
up to the tip — the only ones a rollback of the tip block reads. -/
namespace CkbVerif.Indexer

/-- same rows except ConsumedOutPoint rows -/
def NcEq (S T : Store) : Prop := ∀ k : Key, (∀ bn op, k ≠ .consumed bn op) → get S k = get T k

theorem NcEq.refl (S : Store) : NcEq S S := fun _ _ => rfl
theorem NcEq.symm {S T : Store} (h : NcEq S T) : NcEq T S := fun k hk => (h k hk).symm
theorem NcEq.trans {A B C : Store} (h1 : NcEq A B) (h2 : NcEq B C) : NcEq A C :=
  fun k hk => (h1 k hk).trans (h2 k hk)

theorem NcEq.ansEq {S T : Store} (h : NcEq S T) : AnsEq S T :=
  fun k hk => h k (by intro bn op e; rw [e] at hk; cases hk)

theorem headerRows_ncEq {S T : Store} (hS : NodupKeys S) (hT : NodupKeys T) (h : NcEq S T) (r : HRow) :
    r ∈ headerRows S ↔ r ∈ headerRows T := by
  rw [mem_headerRows_iff, mem_headerRows_iff, mem_iff_get _ hS, mem_iff_get _ hT,
    h _ (by intro _ _ e; cases e)]

/-- the tip ROW (flag and transaction list included) only depends on the set of Header rows -/
theorem tipRow_congr (X Y : Store) (hX : NodupKeys X) (h : ∀ r, r ∈ headerRows X ↔ r ∈ headerRows Y) :
    tipRow X = tipRow Y := by
  rw [tipRow_eq, tipRow_eq]
  obtain ⟨x1, x2⟩ := fold_tipStep_spec (headerRows X) none
  obtain ⟨y1, y2⟩ := fold_tipStep_spec (headerRows Y) none
  cases hXf : (headerRows X).foldl tipStep none with
  | none =>
    cases hYf : (headerRows Y).foldl tipStep none with
    | none => rfl
    | some r2 =>
      obtain ⟨hm, _, _⟩ := y1 r2 hYf
      rcases hm with hm | hm
      · have := (h r2).mpr hm
        rw [(x2 hXf).1] at this
        cases this
      · cases hm
  | some r1 =>
    obtain ⟨hm1, hmax1, _⟩ := x1 r1 hXf
    have hm1' : r1 ∈ headerRows X := by
      rcases hm1 with hm | hm
      · exact hm
      · cases hm
    cases hYf : (headerRows Y).foldl tipStep none with
    | none =>
      have := (h r1).mp hm1'
      rw [(y2 hYf).1] at this
      cases this
    | some r2 =>
      obtain ⟨hm2, hmax2, _⟩ := y1 r2 hYf
      have hm2' : r2 ∈ headerRows Y := by
        rcases hm2 with hm | hm
        · exact hm
        · cases hm
      have hm2X : r2 ∈ headerRows X := (h r2).mpr hm2'
      have h12 := hmax1 r2 hm2X
      have h21 := hmax2 r1 ((h r1).mp hm1')
      rw [hdrLt_false_iff] at h12 h21
      obtain ⟨a1, a2, a3, a4⟩ := r1
      obtain ⟨b1, b2, b3, b4⟩ := r2
      have e1 : a1 = b1 := by simp only at h12 h21; omega
      have e2 : a2 = b2 := by simp only at h12 h21; omega
      have e3 : a3 = b3 := by
        simp only [fl] at h12 h21
        cases a3 <;> cases b3 <;> simp_all
      subst e1; subst e2; subst e3
      have g1 := (mem_iff_get _ hX _ _).mp ((mem_headerRows_iff X _).mp hm1')
      have g2 := (mem_iff_get _ hX _ _).mp ((mem_headerRows_iff X _).mp hm2X)
      simp only at g1 g2
      rw [g1] at g2
      cases g2
      rfl

/-- `rollback` reads: the Header rows, the OutPoint rows, the TxHash rows and the ConsumedOutPoint
rows OF THE TIP NUMBER; two stores that agree on those get the same batch -/
theorem rollbackOps_congr {S T : Store} (hS : NodupKeys S) (hT : NodupKeys T) (h : NcEq S T)
    (hc : ∀ tn th, tip T = some (tn, th) → ∀ op, get S (.consumed tn op) = get T (.consumed tn op)) :
    rollbackOps S = rollbackOps T := by
  have htr : tipRow S = tipRow T := tipRow_congr S T hS (headerRows_ncEq hS hT h)
  unfold rollbackOps
  rw [htr]
  cases hrow : tipRow T with
  | none => rfl
  | some r =>
    obtain ⟨bn, hh, f, l⟩ := r
    have htip : tip T = some (bn, hh) := by unfold tip; rw [hrow]; rfl
    dsimp only
    congr 1
    apply flatMap_congr'
    rintro ⟨e, pos⟩ _
    simp only
    rw [rbTxOps_eq, rbTxOps_eq]
    apply rbTxOpsCore_congr
    · intro op; exact h _ (by intro _ _ e; cases e)
    · intro op; exact hc bn hh htip op
    · exact h _ (by intro _ _ e; cases e)

theorem rollbackOps_no_consumed (S : Store) (o : BOp) (ho : o ∈ rollbackOps S) (bn : Nat) (op : OutPoint) :
    o.key ≠ .consumed bn op := by
  unfold rollbackOps at ho
  split at ho
  · cases ho
  · rename_i n hh f l _
    rw [List.mem_append] at ho
    rcases ho with ho | ho
    · rw [List.mem_flatMap] at ho
      obtain ⟨⟨e, pos⟩, _, ho⟩ := ho
      simp only [rbTxOps, List.mem_append, List.mem_flatMap, List.mem_range, List.mem_singleton] at ho
      rcases ho with (⟨oi, _, ho⟩ | ho) | rfl
      · unfold rbOutputOps at ho
        dsimp only at ho
        split at ho
        · cases ho
        · rename_i o' _
          simp only [List.mem_append, List.mem_cons, List.mem_nil_iff, or_false] at ho
          rcases ho with (((rfl | rfl) | ho) | rfl)
          · simp [BOp.key]
          · simp [BOp.key]
          · split at ho
            · simp only [List.mem_cons, List.mem_nil_iff, or_false] at ho
              rcases ho with rfl | rfl <;> simp [BOp.key]
            · cases ho
          · simp [BOp.key]
      · split at ho
        · cases ho
        · split at ho
          · rw [List.mem_flatMap] at ho
            obtain ⟨⟨op', ii⟩, _, ho⟩ := ho
            unfold rbInputOps at ho
            dsimp only at ho
            split at ho
            · rename_i c _
              simp only [List.mem_append, List.mem_cons, List.mem_nil_iff, or_false] at ho
              rcases ho with (((rfl | rfl) | ho) | rfl)
              · simp [BOp.key]
              · simp [BOp.key]
              · split at ho
                · simp only [List.mem_cons, List.mem_nil_iff, or_false] at ho
                  rcases ho with rfl | rfl <;> simp [BOp.key]
                · cases ho
              · simp [BOp.key]
            · cases ho
          · cases ho
      · simp [BOp.key]
    · simp only [List.mem_singleton] at ho
      subst ho
      simp [BOp.key]

/-- `rollback` never touches a ConsumedOutPoint row -/
theorem rollback_consumed (S : Store) (bn : Nat) (op : OutPoint) :
    get (rollback S) (.consumed bn op) = get S (.consumed bn op) :=
  get_commit_untouched _ _ _ (fun o ho => rollbackOps_no_consumed S o ho bn op)

/-- two stores that agree on what `rollback` reads agree after it on every row that is not a
ConsumedOutPoint row -/
theorem rollback_ncEq {S T : Store} (hS : NodupKeys S) (hT : NodupKeys T) (h : NcEq S T)
    (hc : ∀ tn th, tip T = some (tn, th) → ∀ op, get S (.consumed tn op) = get T (.consumed tn op)) :
    NcEq (rollback S) (rollback T) := by
  intro k hk
  unfold rollback
  rw [rollbackOps_congr hS hT h hc]
  exact get_commit_congr _ _ _ k (h k hk)

/-- `appendCore` only writes ConsumedOutPoint rows of the block's own number -/
theorem appendCore_consumed_other (s : Store) (b : Block) (bn : Nat) (op : OutPoint) (hne : bn ≠ b.number) :
    get (appendCore s b) (.consumed bn op) = get s (.consumed bn op) := by
  unfold appendCore
  apply get_commit_untouched
  intro o ho heq
  rw [appendOps_eq, List.mem_append] at ho
  rcases ho with ho | ho
  · have := txsOps_ok s b o ho
    rw [heq] at this
    simp only [appendKeyOk, beq_iff_eq] at this
    exact hne this
  · simp only [List.mem_singleton] at ho
    subst ho
    unfold headerOp at heq
    dsimp only at heq
    split at heq <;> simp [BOp.key] at heq

theorem appendCore_ncEq {S T : Store} (h : NcEq S T) (b : Block) : NcEq (appendCore S b) (appendCore T b) := by
  intro k hk
  unfold appendCore
  rw [appendOps_congr h.ansEq b]
  exact get_commit_congr _ _ _ k (h k hk)

theorem append_noprune (keep interval : Nat) (s : Store) (b : Block) (h : b.number % interval ≠ 0) :
    append keep interval s b = appendCore s b := by
  unfold append
  simp [h]


/-- the automatic prune does nothing while the tip is within `keep_num + 1` of the start -/
theorem prune_noop (s : Store) (keep tn th : Nat) (ht : tip s = some (tn, th)) (h : tn ≤ keep + 1) :
    prune s keep = s := by
  unfold prune pruneOps
  rw [ht]
  have : ¬ tn > keep + 1 := by omega
  simp only [this, if_false]
  rfl

/-- the prune step of `append` is absent or does nothing -/
def noPruneB (keep interval : Nat) (b : Block) : Bool :=
  decide (b.number % interval ≠ 0) || decide (b.number ≤ keep + 1)

theorem append_noprune' (keep interval : Nat) (s : Store) (b : Block) (wf : WFRollback2 s b)
    (h : noPruneB keep interval b = true) : append keep interval s b = appendCore s b := by
  simp only [noPruneB, Bool.or_eq_true, decide_eq_true_eq] at h
  rcases h with h | h
  · exact append_noprune keep interval s b h
  · unfold append
    dsimp only
    split
    · exact prune_noop _ keep b.number b.hash (tip_appendCore2 wf) h
    · rfl

/-- under `noPruneB`, `append` maps stores that agree outside the ConsumedOutPoint rows to such stores
(the first one is the actual store, for which the per-append checks were evaluated) -/
theorem append_ncEq_noprune (keep interval : Nat) {S C : Store} (hS : NodupKeys S) (hC : NodupKeys C)
    (h : NcEq S C) (b : Block) (wf : WFRollback2 S b) (hp : noPruneB keep interval b = true) :
    NcEq (append keep interval S b) (append keep interval C b) := by
  rw [append_noprune' keep interval S b wf hp]
  have hcore : NcEq (appendCore S b) (appendCore C b) := appendCore_ncEq h b
  have hC' : append keep interval C b = appendCore C b := by
    simp only [noPruneB, Bool.or_eq_true, decide_eq_true_eq] at hp
    rcases hp with hp | hp
    · exact append_noprune keep interval C b hp
    · unfold append
      dsimp only
      split
      · have ht : tip (appendCore C b) = some (b.number, b.hash) := by
          rw [tip_congr (appendCore C b) (appendCore S b)
            (headerRows_ncEq (nodup_commit _ _ hC) (nodup_commit _ _ hS) hcore.symm)]
          exact tip_appendCore2 wf
        exact prune_noop _ keep b.number b.hash ht hp
      · rfl
  rw [hC']
  exact hcore

/-! ## histories -/

/-- one step of the indexer's life: `append` of a block or `rollback` of the tip -/
inductive KvEv
  | app (b : Block)
  | rb

/-- the state of a history: the ACTUAL store and, for every block still on the chain (newest first),
the actual store it was appended to -/
abbrev KvState := Store × List (Store × Block)

def kvStep (keep interval : Nat) (σ : KvState) : KvEv → KvState
  | .app b => (append keep interval σ.1 b, (σ.1, b) :: σ.2)
  | .rb => (rollback σ.1, σ.2.tail)

def kvRun (keep interval : Nat) (σ : KvState) (evs : List KvEv) : KvState := evs.foldl (kvStep keep interval) σ

/-- the surviving chain, oldest first -/
def kvChain (st : List (Store × Block)) : List Block := (st.map (·.2)).reverse

/-- the decidable per-event checks, evaluated ON THE ACTUAL STORE (residue included): an appended
block passes `wfAppend2B` / `freshB2` and its automatic prune is absent or a no-op (`noPruneB`: the
number is not a multiple of the prune interval, or it is at most `keep_num + 1`); a rollback is applied
only while a block of the history is left -/
def kvOKB (keep interval : Nat) : KvState → List KvEv → Bool
  | _, [] => true
  | σ, .app b :: r =>
    wfAppend2B σ.1 b && freshB2 σ.1 b && noPruneB keep interval b &&
      kvOKB keep interval (kvStep keep interval σ (.app b)) r
  | σ, .rb :: r => !σ.2.isEmpty && kvOKB keep interval (kvStep keep interval σ .rb) r

/-- the ideal store the actual one is compared with -/
def topOf (B0 : Store) : List (Store × Block) → Store
  | [] => B0
  | (P, b) :: _ => appendCore P b

/-- the actual store `S` against the ideal `T`: same rows except ConsumedOutPoint rows, and the same
ConsumedOutPoint rows for every number up to the tip's -/
def Rel (S T : Store) : Prop :=
  NodupKeys S ∧ NodupKeys T ∧ NcEq S T ∧
    ∀ tn th, tip T = some (tn, th) → ∀ bn, bn ≤ tn → ∀ op, get S (.consumed bn op) = get T (.consumed bn op)

/-- `B0` = the store the history starts from, `c0` = the chain it is the store of -/
def Good (keep interval : Nat) (B0 : Store) (c0 : List Block) (S : Store) (st : List (Store × Block)) : Prop :=
  Rel S (topOf B0 st) ∧ NcEq S ((c0 ++ kvChain st).foldl (append keep interval) []) ∧
    AnsEq S ((c0 ++ kvChain st).foldl (append keep interval) []) ∧
    ChainOK2 keep interval [] (c0 ++ kvChain st) ∧ ChainOK3 keep interval [] (c0 ++ kvChain st) ∧
    ChainOK3T keep interval [] (c0 ++ kvChain st)

def StackInv (keep interval : Nat) (B0 : Store) (c0 : List Block) : List (Store × Block) → Prop
  | [] => True
  | (P, b) :: rest => WFRollback2 P b ∧ Good keep interval B0 c0 P rest ∧ StackInv keep interval B0 c0 rest

theorem tip_mem_headerRows (U : Store) (tn th : Nat) (h : tip U = some (tn, th)) :
    ∃ f l, (tn, th, f, l) ∈ headerRows U := by
  unfold tip at h
  cases hr : tipRow U with
  | none => rw [hr] at h; cases h
  | some r =>
    rw [hr] at h
    simp only [Option.map_some, Option.some.injEq, Prod.mk.injEq] at h
    rw [tipRow_eq] at hr
    obtain ⟨hm, _, _⟩ := (fold_tipStep_spec (headerRows U) none).1 r hr
    rcases hm with hm | hm
    · obtain ⟨a1, a2, a3, a4⟩ := r
      simp only at h
      obtain ⟨rfl, rfl⟩ := h
      exact ⟨a3, a4, hm⟩
    · cases hm

theorem kvChain_cons (P : Store) (b : Block) (st : List (Store × Block)) :
    kvChain ((P, b) :: st) = kvChain st ++ [b] := by
  simp [kvChain]

theorem kvChain_cons' (c0 : List Block) (P : Store) (b : Block) (st : List (Store × Block)) :
    c0 ++ kvChain ((P, b) :: st) = (c0 ++ kvChain st) ++ [b] := by
  rw [kvChain_cons, List.append_assoc]

theorem good_app (keep interval : Nat) (B0 : Store) (c0 : List Block) (S : Store) (st : List (Store × Block)) (b : Block)
    (g : Good keep interval B0 c0 S st) (ha : wfAppend2B S b = true) (hk : freshB2 S b = true)
    (hp : noPruneB keep interval b = true) :
    WFRollback2 S b ∧ Good keep interval B0 c0 (append keep interval S b) ((S, b) :: st) := by
  obtain ⟨rel, hnc, heq, c2, c3, c3t⟩ := g
  have li : LockInv S := lockInv_ansEq heq.symm (lockInv_chain2 keep interval _ [] lockInv_empty c2)
  have ti : TypeInv S := typeInv_ansEq heq.symm (typeInv_chain2 keep interval _ [] typeInv_empty c2)
  have wfr := wfRollback2_of_B2 S b ha hk li ti
  have wf := wfAppend2_ansEq heq b (wfAppend2_of_B S b ha)
  obtain ⟨f1, f2⟩ := freshTx_of_B2 S b hk
  refine ⟨wfr, ?_, ?_, ?_, ?_, ?_, ?_⟩
  · rw [append_noprune' keep interval S b wfr hp]
    have hnd : NodupKeys (appendCore S b) := nodup_commit _ _ rel.1
    exact ⟨hnd, hnd, NcEq.refl _, fun _ _ _ _ _ _ => rfl⟩
  · rw [kvChain_cons', List.foldl_append]
    exact append_ncEq_noprune keep interval rel.1 (nodup_chain keep interval _ [] trivial) hnc b wfr hp
  · rw [kvChain_cons', List.foldl_append]
    exact append_ansEq keep interval heq b
  · rw [kvChain_cons']; exact chainOK2_snoc keep interval _ b [] c2 wf
  · rw [kvChain_cons']
    exact chainOK3_snoc keep interval _ b [] c3 wf (fun sc txi io t => by rw [← heq _ rfl]; exact f1 sc txi io t)
  · rw [kvChain_cons']
    exact chainOK3T_snoc keep interval _ b [] c3t wf (fun sc txi io t => by rw [← heq _ rfl]; exact f2 sc txi io t)

theorem good_rb (keep interval : Nat) (B0 : Store) (c0 : List Block) (S P : Store) (b : Block) (rest : List (Store × Block))
    (g : Good keep interval B0 c0 S ((P, b) :: rest)) (wf : WFRollback2 P b) (gp : Good keep interval B0 c0 P rest) :
    Good keep interval B0 c0 (rollback S) rest := by
  obtain ⟨⟨hS, hT, hnc, hcons⟩, _, _, _, _, _⟩ := g
  obtain ⟨⟨hP, hU, hncP, hconsP⟩, hncC, heqP, c2, c3, c3t⟩ := gp
  have htipT : tip (appendCore P b) = some (b.number, b.hash) := tip_appendCore2 wf
  have h1 : NcEq (rollback S) (rollback (appendCore P b)) :=
    rollback_ncEq hS hT hnc (fun tn th ht op => hcons tn th ht tn (Nat.le_refl _) op)
  have h2 : NcEq (rollback (appendCore P b)) P := fun k hk => rollback_append_get2 wf k hk
  have h3 : NcEq (rollback S) P := h1.trans h2
  refine ⟨⟨nodup_rollback _ hS, hU, h3.trans hncP, ?_⟩, h3.trans hncC, h3.ansEq.trans heqP, c2, c3, c3t⟩
  intro tn th ht bn hbn op
  -- the tip of the ideal store below is a Header row of `P`, so below `b.number`
  obtain ⟨f, l, hmem⟩ := tip_mem_headerRows _ tn th ht
  have hmemP : (tn, th, f, l) ∈ headerRows P := (headerRows_ncEq hP hU hncP _).mpr hmem
  have hlt : tn < b.number := wf.hdrBelow _ (mem_headerRows P _ hmemP) tn th f rfl
  have hne : bn ≠ b.number := by omega
  rw [rollback_consumed, hcons b.number b.hash htipT bn (by omega) op]
  show get (appendCore P b) (.consumed bn op) = _
  rw [appendCore_consumed_other P b bn op hne]
  exact hconsP tn th ht bn hbn op

theorem kv_history_aux (keep interval : Nat) (B0 : Store) (c0 : List Block) (evs : List KvEv) (σ : KvState)
    (g : Good keep interval B0 c0 σ.1 σ.2) (si : StackInv keep interval B0 c0 σ.2)
    (h : kvOKB keep interval σ evs = true) :
    Good keep interval B0 c0 (kvRun keep interval σ evs).1 (kvRun keep interval σ evs).2 ∧
      StackInv keep interval B0 c0 (kvRun keep interval σ evs).2 := by
  induction evs generalizing σ with
  | nil => exact ⟨g, si⟩
  | cons e r ih =>
    obtain ⟨S, st⟩ := σ
    cases e with
    | app b =>
      simp only [kvOKB, Bool.and_eq_true] at h
      obtain ⟨⟨⟨ha, hk⟩, hp⟩, hr⟩ := h
      obtain ⟨wfr, g'⟩ := good_app keep interval B0 c0 S st b g ha hk hp
      exact ih (kvStep keep interval (S, st) (.app b)) g' ⟨wfr, g, si⟩ hr
    | rb =>
      simp only [kvOKB, Bool.and_eq_true, Bool.not_eq_true'] at h
      obtain ⟨hne, hr⟩ := h
      cases st with
      | nil => simp at hne
      | cons pb rest =>
        obtain ⟨P, b⟩ := pb
        obtain ⟨wf, gp, si'⟩ := si
        exact ih (kvStep keep interval (S, (P, b) :: rest) .rb) (good_rb keep interval B0 c0 S P b rest g wf gp) si' hr

theorem kvRun_apps_len (keep interval : Nat) (bs : List Block) (σ : KvState) :
    (kvRun keep interval σ (bs.map KvEv.app)).2.length = σ.2.length + bs.length := by
  induction bs generalizing σ with
  | nil => rfl
  | cons b r ih =>
    show (kvRun keep interval (kvStep keep interval σ (.app b)) (r.map KvEv.app)).2.length = _
    rw [ih]
    simp [kvStep]
    omega

theorem kvRun_rbs_len (keep interval : Nat) (n : Nat) (σ : KvState) :
    (kvRun keep interval σ (List.replicate n KvEv.rb)).2.length = σ.2.length - n := by
  induction n generalizing σ with
  | zero => rfl
  | succ m ih =>
    show (kvRun keep interval (kvStep keep interval σ .rb) (List.replicate m KvEv.rb)).2.length = _
    rw [ih]
    simp [kvStep]
    omega

theorem kvRun_apps_rbs_chain (keep interval : Nat) (bs : List Block) :
    kvChain (kvRun keep interval ([], []) (bs.map KvEv.app ++ List.replicate bs.length KvEv.rb)).2 = [] := by
  have : (kvRun keep interval ([], []) (bs.map KvEv.app ++ List.replicate bs.length KvEv.rb)).2 = [] := by
    apply List.eq_nil_of_length_eq_zero
    unfold kvRun
    rw [List.foldl_append]
    have h1 := kvRun_rbs_len keep interval bs.length (kvRun keep interval ([], []) (bs.map KvEv.app))
    have h2 := kvRun_apps_len keep interval bs ([], [])
    unfold kvRun at h1 h2
    rw [h1, h2]
    simp
  rw [this]
  rfl

/-- the start: the store of ANY chain `c0` satisfying the chain hypotheses (automatic prune included) -/
theorem good_start (keep interval : Nat) (c0 : List Block) (c2 : ChainOK2 keep interval [] c0)
    (c3 : ChainOK3 keep interval [] c0) (c3t : ChainOK3T keep interval [] c0) :
    Good keep interval (c0.foldl (append keep interval) []) c0 (c0.foldl (append keep interval) []) [] := by
  have hnd : NodupKeys (c0.foldl (append keep interval) []) := nodup_chain keep interval c0 [] trivial
  have e : c0 ++ kvChain [] = c0 := by simp [kvChain]
  refine ⟨⟨hnd, hnd, NcEq.refl _, fun _ _ _ _ _ _ => rfl⟩, ?_, ?_, ?_, ?_, ?_⟩
  · rw [e]; exact NcEq.refl _
  · rw [e]; exact fun _ _ => rfl
  · rw [e]; exact c2
  · rw [e]; exact c3
  · rw [e]; exact c3t

/-- the tip of the actual store is the last block of the surviving chain -/
theorem good_tip (keep interval : Nat) (B0 : Store) (c0 : List Block) (S : Store) (st : List (Store × Block))
    (g : Good keep interval B0 c0 S st) (si : StackInv keep interval B0 c0 st) :
    tip S = match (kvChain st).getLast? with
      | some b => some (b.number, b.hash)
      | none => tip B0 := by
  obtain ⟨⟨hS, hT, hnc, _⟩, _⟩ := g
  rw [tip_congr S _ (headerRows_ncEq hS hT hnc)]
  cases st with
  | nil => rfl
  | cons pb rest =>
    obtain ⟨P, b⟩ := pb
    rw [kvChain_cons, List.getLast?_append]
    simp only [List.getLast?_singleton, Option.some_or]
    exact tip_appendCore2 si.1

end CkbVerif.Indexer
