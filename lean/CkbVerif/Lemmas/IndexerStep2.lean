import CkbVerif.Lemmas.IndexerHistory

/-! `append` with SAME-BLOCK spends: the OutPoint and CellLockScript rows (C18).
Order matters here (a row is put by the creating transaction and deleted by a later one), handled by
splitting the batch at the spending transaction. -/
namespace CkbVerif.Indexer

/-- well-formedness of a block for a store, same-block spends allowed: an input may refer to an
output of an EARLIER transaction of the block; no out-point is spent twice -/
structure WFAppend2 (s : Store) (b : Block) : Prop where
  idInj : ∀ (i i' : Nat) (tx tx' : Tx), b.txs[i]? = some tx → b.txs[i']? = some tx' → tx.id = tx'.id → i = i'
  freshOut : ∀ tx ∈ b.txs, ∀ oi, get s (.outPoint ⟨tx.id, oi⟩) = none
  cellVal : ∀ (op : OutPoint) (v : Val), get s (.outPoint op) = some v → ∃ c, v = .cell c
  oldBn : ∀ (op : OutPoint) (c : Cell), get s (.outPoint op) = some (.cell c) → c.bn ≠ b.number
  order : ∀ (i : Nat) (tx : Tx), b.txs[i]? = some tx → ∀ op ∈ tx.inputs, ∀ (j : Nat) (tx' : Tx),
    b.txs[j]? = some tx' → tx'.id = op.tx → j < i

variable {s : Store} {b : Block}

/-- the cell an input resolves to: live in the store, or created by the block -/
def Res (s : Store) (b : Block) (op : OutPoint) (c : Cell) : Prop :=
  get s (.outPoint op) = some (.cell c) ∨ Created b op c

/-- `op` is spent by a non-cellbase transaction of the block (resolving to `c`) -/
def Spent2 (s : Store) (b : Block) (op : OutPoint) (c : Cell) : Prop :=
  ∃ (i : Nat) (tx : Tx) (ii : Nat), b.txs[i]? = some tx ∧ i ≠ 0 ∧ tx.inputs[ii]? = some op ∧ Res s b op c

theorem created_fresh2 (wf : WFAppend2 s b) (op : OutPoint) (c : Cell) (hc : Created b op c) :
    get s (.outPoint op) = none := by
  obtain ⟨i, tx, out, htx, hid, _, _⟩ := hc
  have := wf.freshOut tx (List.mem_of_getElem? htx) op.idx
  rw [hid] at this
  exact this

theorem created_unique (wf : WFAppend2 s b) (op : OutPoint) (c c' : Cell) (h : Created b op c)
    (h' : Created b op c') : c = c' := by
  obtain ⟨i, tx, out, htx, hid, hout, rfl⟩ := h
  obtain ⟨i', tx', out', htx', hid', hout', rfl⟩ := h'
  have := wf.idInj i i' tx tx' htx htx' (by rw [hid, hid'])
  subst this
  rw [htx] at htx'; cases htx'
  rw [hout] at hout'; cases hout'
  rfl

theorem res_unique (wf : WFAppend2 s b) (op : OutPoint) (c c' : Cell) (h : Res s b op c)
    (h' : Res s b op c') : c = c' := by
  rcases h with h | h <;> rcases h' with h' | h'
  · rw [h] at h'; cases h'; rfl
  · rw [created_fresh2 wf op c' h'] at h; cases h
  · rw [created_fresh2 wf op c h] at h'; cases h'
  · exact created_unique wf op c c' h h'

/-- `lookupInput` (store first, then the block's own transactions) computes `Res` -/
theorem lookupInput_iff (wf : WFAppend2 s b) (op : OutPoint) (c : Cell) :
    lookupInput s b op = some c ↔ Res s b op c := by
  unfold lookupInput
  cases hg : get s (.outPoint op) with
  | some v =>
    obtain ⟨c', rfl⟩ := wf.cellVal op v hg
    simp only [Option.some.injEq]
    constructor
    · rintro rfl; exact Or.inl hg
    · rintro (h | h)
      · rw [hg] at h; cases h; rfl
      · rw [created_fresh2 wf op c h] at hg; cases hg
  | none =>
    simp only
    constructor
    · intro h
      cases hf : b.txs.zipIdx.find? (fun p => p.1.id = op.tx) with
      | none => simp [hf] at h
      | some p =>
        obtain ⟨tx', j⟩ := p
        simp only [hf] at h
        have hmem := List.mem_of_find?_eq_some hf
        rw [List.mem_zipIdx_iff_getElem?] at hmem
        have hid := List.find?_some hf
        simp only [decide_eq_true_eq] at hid
        cases ho : tx'.outputs[op.idx]? with
        | none => simp [ho] at h
        | some o =>
          simp only [ho, Option.map_some, Option.some.injEq] at h
          exact Or.inr ⟨j, tx', o, hmem, hid, ho, h.symm⟩
    · rintro (h | h)
      · rw [hg] at h; cases h
      · obtain ⟨i, tx, out, htx, hid, hout, rfl⟩ := h
        cases hf : b.txs.zipIdx.find? (fun p => p.1.id = op.tx) with
        | none =>
          rw [List.find?_eq_none] at hf
          have := hf (tx, i) (by rw [List.mem_zipIdx_iff_getElem?]; exact htx)
          simp [hid] at this
        | some p =>
          obtain ⟨tx', j⟩ := p
          have hmem := List.mem_of_find?_eq_some hf
          rw [List.mem_zipIdx_iff_getElem?] at hmem
          have hid' := List.find?_some hf
          simp only [decide_eq_true_eq] at hid'
          have := wf.idInj j i tx' tx hmem htx (by rw [hid', hid])
          subst this
          rw [htx] at hmem; cases hmem
          simp [hout]

/-- the entries written by the transactions at positions `≥ lo` -/
def txsOpsFrom (s : Store) (b : Block) (lo : Nat) : List BOp :=
  (b.txs.zipIdx.drop lo).flatMap fun (tx, i) => txOps s b i tx

def txsOpsUpto (s : Store) (b : Block) (lo : Nat) : List BOp :=
  (b.txs.zipIdx.take lo).flatMap fun (tx, i) => txOps s b i tx

theorem txsOps_split (s : Store) (b : Block) (lo : Nat) :
    txsOps s b = txsOpsUpto s b lo ++ txsOpsFrom s b lo := by
  unfold txsOps txsOpsUpto txsOpsFrom
  rw [← List.flatMap_append, List.take_append_drop]

theorem mem_zipIdx_drop (l : List Tx) (lo : Nat) (tx : Tx) (i : Nat) :
    (tx, i) ∈ l.zipIdx.drop lo ↔ lo ≤ i ∧ l[i]? = some tx := by
  rw [List.mem_iff_getElem?]
  constructor
  · rintro ⟨n, hn⟩
    rw [List.getElem?_drop, List.getElem?_zipIdx] at hn
    cases h : l[lo + n]? with
    | none => simp [h] at hn
    | some a =>
      simp only [h, Option.map_some, Option.some.injEq, Prod.mk.injEq] at hn
      obtain ⟨rfl, rfl⟩ := hn
      exact ⟨by omega, by simpa using h⟩
  · rintro ⟨hle, h⟩
    refine ⟨i - lo, ?_⟩
    rw [List.getElem?_drop, List.getElem?_zipIdx]
    have : lo + (i - lo) = i := by omega
    simp [this, h]

/-- the shapes of the entries written from position `lo` on -/
theorem txsOpsFrom_shape (wf : WFAppend2 s b) (lo : Nat) (o : BOp) (ho : o ∈ txsOpsFrom s b lo) :
    (∃ (i : Nat) (tx : Tx) (ii : Nat) (op : OutPoint) (c : Cell), lo ≤ i ∧ b.txs[i]? = some tx ∧ i ≠ 0 ∧
        tx.inputs[ii]? = some op ∧ Res s b op c ∧ o ∈ consumeOps b.number i ii tx.id op c) ∨
    (∃ (i : Nat) (tx : Tx) (out : Output) (oi : Nat), lo ≤ i ∧ b.txs[i]? = some tx ∧
        tx.outputs[oi]? = some out ∧ o ∈ createOps b.number i tx.id oi out) ∨
    (∃ (i : Nat) (tx : Tx), lo ≤ i ∧ b.txs[i]? = some tx ∧ o = .put (.txHash tx.id) (.inputs tx.inputs)) := by
  unfold txsOpsFrom at ho
  rw [List.mem_flatMap] at ho
  obtain ⟨⟨tx, i⟩, hmem, ho⟩ := ho
  rw [mem_zipIdx_drop] at hmem
  obtain ⟨hle, htx⟩ := hmem
  simp only [txOps, List.mem_append] at ho
  rcases ho with (ho | ho) | ho
  · rw [mem_inputsOps] at ho
    obtain ⟨hi, op, ii, c, hop, hl, ho⟩ := ho
    rw [lookupInput_iff wf] at hl
    exact Or.inl ⟨i, tx, ii, op, c, hle, htx, hi, hop, hl, ho⟩
  · rw [mem_outputsOps] at ho
    obtain ⟨out, oi, hout, ho⟩ := ho
    exact Or.inr (Or.inl ⟨i, tx, out, oi, hle, htx, hout, ho⟩)
  · split at ho
    · simp at ho; exact Or.inr (Or.inr ⟨i, tx, hle, htx, ho⟩)
    · simp at ho

theorem txsOpsFrom_zero (s : Store) (b : Block) : txsOpsFrom s b 0 = txsOps s b := by
  unfold txsOpsFrom txsOps
  simp

theorem consume_mem_from (wf : WFAppend2 s b) (lo i : Nat) (tx : Tx) (ii : Nat) (op : OutPoint) (c : Cell)
    (hle : lo ≤ i) (htx : b.txs[i]? = some tx) (hi : i ≠ 0) (hop : tx.inputs[ii]? = some op)
    (hc : Res s b op c) (o : BOp) (ho : o ∈ consumeOps b.number i ii tx.id op c) :
    o ∈ txsOpsFrom s b lo := by
  unfold txsOpsFrom
  rw [List.mem_flatMap]
  refine ⟨(tx, i), (mem_zipIdx_drop _ _ _ _).mpr ⟨hle, htx⟩, ?_⟩
  simp only [txOps, List.mem_append]
  left; left
  rw [mem_inputsOps]
  exact ⟨hi, op, ii, c, hop, (lookupInput_iff wf op c).mpr hc, ho⟩

theorem create_mem_from (lo i : Nat) (tx : Tx) (out : Output) (oi : Nat)
    (hle : lo ≤ i) (htx : b.txs[i]? = some tx) (hout : tx.outputs[oi]? = some out) (o : BOp)
    (ho : o ∈ createOps b.number i tx.id oi out) : o ∈ txsOpsFrom s b lo := by
  unfold txsOpsFrom
  rw [List.mem_flatMap]
  refine ⟨(tx, i), (mem_zipIdx_drop _ _ _ _).mpr ⟨hle, htx⟩, ?_⟩
  simp only [txOps, List.mem_append]
  left; right
  rw [mem_outputsOps]
  exact ⟨out, oi, hout, ho⟩

/-- if from some position on every entry mentioning `k` deletes it (and one does), `k` is absent -/
theorem get_commit_suffix_del (P S : List BOp) (s : Store) (k : Key)
    (h1 : ∀ o ∈ S, o.key = k → o = .del k) (h2 : ∃ o ∈ S, o.key = k) :
    get (commit s (P ++ S)) k = none := by
  rw [commit_append]
  exact get_commit_all_del S _ k h1 h2

end CkbVerif.Indexer
