import CkbVerif.Model.IndexerPool
import CkbVerif.Lemmas.IndexerCellOrder

/-! The tx-pool overlay (`Model/IndexerPool.lean`): set laws of `Pool`, the overlay'd `get_cells` as a
filter of the plain one, its page walk, and the descending seek key (C18). -/
namespace CkbVerif.Indexer
open CkbVerif.Gen.Indexer

/-! ## `Pool` is a set with the expected membership laws -/

theorem Pool.mem_insert (p : Pool) (op x : OutPoint) : x ∈ Pool.insert p op ↔ x ∈ p ∨ x = op := by
  unfold Pool.insert
  by_cases h : p.contains op = true
  · simp only [h, if_true]
    constructor
    · exact Or.inl
    · rintro (h' | rfl)
      · exact h'
      · simpa using h
  · simp only [h]
    simp [or_comm]

theorem Pool.mem_remove (p : Pool) (op x : OutPoint) : x ∈ Pool.remove p op ↔ x ∈ p ∧ x ≠ op := by
  simp [Pool.remove]

theorem Pool.nodup_insert (p : Pool) (op : OutPoint) (h : p.Nodup) : (Pool.insert p op).Nodup := by
  unfold Pool.insert
  by_cases hc : p.contains op = true
  · rw [if_pos hc]; exact h
  · rw [if_neg hc]
    refine List.nodup_cons.mpr ⟨?_, h⟩
    simpa using hc

theorem Pool.nodup_remove (p : Pool) (op : OutPoint) (h : p.Nodup) : (Pool.remove p op).Nodup :=
  List.Pairwise.filter _ h

theorem Pool.mem_newTx_aux (l : List OutPoint) (p : Pool) (x : OutPoint) :
    x ∈ l.foldl Pool.insert p ↔ x ∈ p ∨ x ∈ l := by
  induction l generalizing p with
  | nil => simp
  | cons a r ih =>
    rw [List.foldl_cons, ih, Pool.mem_insert]
    simp only [List.mem_cons]
    constructor
    · rintro ((h | h) | h)
      · exact Or.inl h
      · exact Or.inr (Or.inl h)
      · exact Or.inr (Or.inr h)
    · rintro (h | h | h)
      · exact Or.inl (Or.inl h)
      · exact Or.inl (Or.inr h)
      · exact Or.inr h

theorem Pool.mem_removeTx_aux (l : List OutPoint) (p : Pool) (x : OutPoint) :
    x ∈ l.foldl Pool.remove p ↔ x ∈ p ∧ x ∉ l := by
  induction l generalizing p with
  | nil => simp
  | cons a r ih =>
    rw [List.foldl_cons, ih, Pool.mem_remove]
    simp only [List.mem_cons, not_or]
    constructor
    · rintro ⟨⟨h1, h2⟩, h3⟩
      exact ⟨h1, h2, h3⟩
    · rintro ⟨h1, h2, h3⟩
      exact ⟨⟨h1, h2⟩, h3⟩

theorem Pool.mem_newTx (p : Pool) (tx : Tx) (x : OutPoint) : x ∈ p.newTx tx ↔ x ∈ p ∨ x ∈ tx.inputs :=
  Pool.mem_newTx_aux tx.inputs p x

theorem Pool.mem_removeTx (p : Pool) (tx : Tx) (x : OutPoint) :
    x ∈ p.removeTx tx ↔ x ∈ p ∧ x ∉ tx.inputs :=
  Pool.mem_removeTx_aux tx.inputs p x

theorem Pool.mem_committed (txs : List Tx) (p : Pool) (x : OutPoint) :
    x ∈ p.committed txs ↔ x ∈ p ∧ ∀ tx ∈ txs, x ∉ tx.inputs := by
  induction txs generalizing p with
  | nil => simp [Pool.committed]
  | cons t r ih =>
    have : Pool.committed p (t :: r) = Pool.committed (p.removeTx t) r := rfl
    rw [this, ih, Pool.mem_removeTx]
    simp only [List.mem_cons, forall_eq_or_imp]
    constructor
    · rintro ⟨⟨h1, h2⟩, h3⟩
      exact ⟨h1, h2, h3⟩
    · rintro ⟨h1, h2, h3⟩
      exact ⟨⟨h1, h2⟩, h3⟩

theorem Pool.nodup_newTx (p : Pool) (tx : Tx) (h : p.Nodup) : (p.newTx tx).Nodup := by
  unfold Pool.newTx
  generalize tx.inputs = l
  induction l generalizing p with
  | nil => exact h
  | cons a r ih => exact ih _ (Pool.nodup_insert p a h)

theorem Pool.nodup_removeTx (p : Pool) (tx : Tx) (h : p.Nodup) : (p.removeTx tx).Nodup := by
  unfold Pool.removeTx
  generalize tx.inputs = l
  induction l generalizing p with
  | nil => exact h
  | cons a r ih => exact ih _ (Pool.nodup_remove p a h)

theorem Pool.nodup_committed (txs : List Tx) (p : Pool) (h : p.Nodup) : (p.committed txs).Nodup := by
  induction txs generalizing p with
  | nil => exact h
  | cons t r ih => exact ih _ (Pool.nodup_removeTx p t h)

theorem Pool.consumed_iff (p : Pool) (op : OutPoint) : p.consumed op = true ↔ op ∈ p := by
  simp [Pool.consumed]

/-! ## the overlay'd `get_cells` -/

/-- the empty overlay is no overlay -/
theorem cellRowsP_nil (s : Store) (ls : Bool) (q : Script) (exact : Bool) (f : Filter) (li : Bool)
    (rows : List (Key × Val)) : cellRowsP s [] ls q exact f li rows = cellRows s ls q exact f li rows := by
  unfold cellRowsP cellRows
  simp only [Pool.consumed, List.contains_nil, Bool.false_eq_true, if_false]
  rfl

/-- the answer of one scanned row under the overlay -/
def cellAnsOfP (s : Store) (pool : Pool) (pre : List Nat) (exact : Bool) (f : Filter) (ls li : Bool)
    (e : Key × Val) : Option CellAns :=
  if pool.consumed ⟨valTx e.2, e.1.io⟩ then none else cellAnsOf s pre exact f ls li e

theorem cellAnsOfP_key (s : Store) (pool : Pool) (pre : List Nat) (exact : Bool) (f : Filter) (ls li : Bool)
    (e : Key × Val) (a : CellAns) (h : cellAnsOfP s pool pre exact f ls li e = some a) : a.key = e.1.bytes := by
  unfold cellAnsOfP at h
  split at h
  · cases h
  · exact cellAnsOf_key _ _ _ _ _ _ e a h

theorem cellAnsOf_op (s : Store) (pre : List Nat) (exact : Bool) (f : Filter) (ls li : Bool)
    (e : Key × Val) (a : CellAns) (h : cellAnsOf s pre exact f ls li e = some a) :
    a.op = ⟨valTx e.2, e.1.io⟩ := by
  unfold cellAnsOf at h
  split at h
  · cases h
  · split at h
    · split at h
      · cases h; rfl
      · cases h
    · cases h

/-- under the overlay, a row that is dead is skipped BEFORE the OutPoint lookup; when every other
row resolves, the answer is the `filterMap` of `cellAnsOfP` -/
theorem cellRowsP_eq_filterMap (s : Store) (pool : Pool) (ls : Bool) (q : Script) (exact : Bool) (f : Filter)
    (li : Bool) (rows : List (Key × Val))
    (H : ∀ e ∈ rows, ¬ (exact && e.1.bytes.length ≠ (cellPrefix ls q).length + 16) = true →
      pool.consumed ⟨valTx e.2, e.1.io⟩ = false →
      ∃ c, get s (.outPoint ⟨valTx e.2, e.1.io⟩) = some (.cell c)) :
    cellRowsP s pool ls q exact f li rows =
      some (rows.filterMap (cellAnsOfP s pool (cellPrefix ls q) exact f ls li)) := by
  induction rows with
  | nil => rfl
  | cons e r ih =>
    have ihr := ih (fun e' he' => H e' (by simp [he']))
    unfold cellRowsP at ihr ⊢
    simp only [List.foldr_cons]
    have hpre : ((if ls = true then KP_CELL_LOCK_SCRIPT else KP_CELL_TYPE_SCRIPT) :: scriptRaw q) =
        cellPrefix ls q := rfl
    simp only [hpre] at ihr ⊢
    rw [ihr]
    simp only [List.filterMap_cons, cellAnsOfP, cellAnsOf]
    have hiff : ((exact && decide (e.1.bytes.length ≠ (cellPrefix ls q).length + 16)) = true) ↔
        (exact = true ∧ ¬ e.1.bytes.length = (cellPrefix ls q).length + 16) := by simp
    by_cases hex : exact = true ∧ ¬ e.1.bytes.length = (cellPrefix ls q).length + 16
    · by_cases hd : pool.consumed ⟨valTx e.2, e.1.io⟩ = true <;> simp [hex, hd]
    · by_cases hd : pool.consumed ⟨valTx e.2, e.1.io⟩ = true
      · simp [hex, hd]
      · obtain ⟨c, hc⟩ := H e (by simp) (by rw [hiff]; exact hex) (by simpa using hd)
        by_cases hp : cellPasses f ls li c = true
        · simp [hex, hd, hc, hp]
        · simp [hex, hd, hc, hp]

/-- **the overlay only removes rows**: `filterMap` of the overlay'd row answer = the plain answers
without those whose out-point is dead in the overlay -/
theorem filterMap_cellAnsOfP (s : Store) (pool : Pool) (pre : List Nat) (exact : Bool) (f : Filter) (ls li : Bool)
    (rows : List (Key × Val)) :
    rows.filterMap (cellAnsOfP s pool pre exact f ls li) =
      (rows.filterMap (cellAnsOf s pre exact f ls li)).filter (fun a => !pool.consumed a.op) := by
  induction rows with
  | nil => rfl
  | cons e r ih =>
    simp only [List.filterMap_cons, cellAnsOfP]
    by_cases hd : pool.consumed ⟨valTx e.2, e.1.io⟩ = true
    · simp only [hd, if_true]
      cases ha : cellAnsOf s pre exact f ls li e with
      | none => simpa using ih
      | some a =>
        have := cellAnsOf_op _ _ _ _ _ _ e a ha
        simp only [List.filter_cons, this, hd, Bool.not_true]
        simpa using ih
    · simp only [hd]
      cases ha : cellAnsOf s pre exact f ls li e with
      | none => simpa using ih
      | some a =>
        have := cellAnsOf_op _ _ _ _ _ _ e a ha
        simp only [List.filter_cons, this]
        simp only [Bool.not_eq_true] at hd
        simp [hd, ih]

/-- `CellsResolvable` (every scanned row has its OutPoint row) gives the overlay's hypothesis -/
theorem getCellsAt_eq (s : Store) (pool : Pool) (ls : Bool) (q : Script) (exact : Bool) (f : Filter)
    (H : CellsResolvable s ls q exact) (desc : Bool) (limit : Nat) (cursor : Option (List Nat)) :
    getCellsAt s pool ls q exact f desc limit cursor =
      let page := ((afterCursor (scan s (cellPrefix ls q)) desc cursor).filterMap
        (cellAnsOfP s pool (cellPrefix ls q) exact f ls false)).take limit
      some (page, lastKey (·.key) page) := by
  unfold getCellsAt lastKey
  simp only
  rw [cellRowsP_eq_filterMap s pool ls q exact f false _
    (fun e he h1 _ => H e (afterCursor_subset _ _ _ e he) h1)]
  simp only
  generalize List.take limit _ = page
  cases page.getLast? <;> rfl

theorem getCellsPagesP_eq_walk (s : Store) (pool : Pool) (ls : Bool) (q : Script) (exact : Bool) (f : Filter)
    (H : CellsResolvable s ls q exact) (desc : Bool) (limit : Nat) (fuel : Nat)
    (cursor : Option (List Nat)) :
    getCellsPagesP s pool ls q exact f desc limit fuel cursor =
      some (walk (cellAnsOfP s pool (cellPrefix ls q) exact f ls false) (·.key)
        (scan s (cellPrefix ls q)) desc limit fuel cursor) := by
  induction fuel generalizing cursor with
  | zero => rfl
  | succ fuel ih =>
    unfold getCellsPagesP walk
    rw [getCellsAt_eq s pool ls q exact f H]
    simp only
    split
    · rfl
    · rw [ih]

/-- the page walk under the overlay: the pages concatenate to the plain unlimited answer without the
dead cells, in the requested direction, and the walk ends with an empty page -/
theorem getCellsPagesP_concat (s : Store) (pool : Pool) (ls : Bool) (q : Script) (exact : Bool) (f : Filter)
    (H : CellsResolvable s ls q exact) (hs : (scan s (cellPrefix ls q)).Pairwise rowLt)
    (desc : Bool) (limit : Nat) (hl : 1 ≤ limit) (fuel : Nat) (hf : s.length < fuel) :
    ∃ pages, getCellsPagesP s pool ls q exact f desc limit fuel none = some pages ∧
      pages.flatten = (dirList (cellAnswers s ls q exact f) desc).filter (fun a => !pool.consumed a.op) ∧
      pages.getLast? = some [] := by
  refine ⟨_, getCellsPagesP_eq_walk s pool ls q exact f H desc limit fuel none, ?_⟩
  have := walk_flatten_start (cellAnsOfP s pool (cellPrefix ls q) exact f ls false) (·.key)
    (fun e a h => cellAnsOfP_key _ _ _ _ _ _ _ e a h) (scan s (cellPrefix ls q)) desc hs limit hl fuel
    (Nat.lt_of_le_of_lt (length_scan_le _ _) hf)
  rw [filterMap_cellAnsOfP, filterMap_dirRows] at this
  exact this

/-! ## the descending seek key -/

/-- a byte string of at most `n` bytes, each `≤ 255`, is not above `0xff × n` -/
theorem not_lt_replicate (n : Nat) (r : List Nat) (hl : r.length ≤ n) (hb : ∀ x ∈ r, x ≤ 255) :
    bytesLt (List.replicate n 255) r = false := by
  induction r generalizing n with
  | nil => cases n <;> simp [bytesLt, List.replicate]
  | cons x t ih =>
    obtain ⟨m, rfl⟩ : ∃ m, n = m + 1 := ⟨n - 1, by simp at hl; omega⟩
    have hx : x ≤ 255 := hb x (by simp)
    have := ih m (by simp at hl; omega) (fun y hy => hb y (by simp [hy]))
    simp only [List.replicate_succ, bytesLt]
    by_cases h1 : 255 < x
    · omega
    · by_cases h2 : x < 255
      · simp [h1, h2]
      · simp [h1, h2, this]

theorem not_lt_append (pre a b : List Nat) (h : bytesLt a b = false) : bytesLt (pre ++ a) (pre ++ b) = false := by
  induction pre with
  | nil => simpa using h
  | cons x r ih => simp [bytesLt, ih]

theorem isPrefix_split (pre k : List Nat) (h : isPrefix pre k = true) : ∃ r, k = pre ++ r := by
  induction pre generalizing k with
  | nil => exact ⟨k, rfl⟩
  | cons x r ih =>
    cases k with
    | nil => simp [isPrefix] at h
    | cons y t =>
      simp only [isPrefix, Bool.and_eq_true, decide_eq_true_eq] at h
      obtain ⟨r', hr'⟩ := ih t h.2
      exact ⟨r', by rw [h.1, hr']; rfl⟩

/-- **the descending seek key is above every row of the search** as long as the rows' keys continue
the prefix with at most `maxPre − argsLen` bytes (script args of at most `MAX_PREFIX_SEARCH_SIZE − 17`
bytes in total): a descending walk then sees every row -/
theorem descView_eq (maxPre : Nat) (s : Store) (pre : List Nat) (argsLen : Nat)
    (hk : ∀ e ∈ s, ∀ r, e.1.bytes = pre ++ r → r.length ≤ maxPre - argsLen ∧ ∀ x ∈ r, x ≤ 255) :
    descView maxPre s pre argsLen = s := by
  unfold descView
  rw [List.filter_eq_self]
  intro e he
  by_cases hp : isPrefix pre e.1.bytes = true
  · obtain ⟨r, hr⟩ := isPrefix_split pre e.1.bytes hp
    obtain ⟨hlen, hb⟩ := hk e he r hr
    have h1 : bytesLt (descSeekKey maxPre pre argsLen) e.1.bytes = false := by
      rw [hr]
      unfold descSeekKey
      exact not_lt_append _ _ _ (not_lt_replicate _ r hlen hb)
    simp [h1]
  · simp [hp]

end CkbVerif.Indexer
