/-
The chain-service step of `Model/Store.lean` (`process`, whose inlined walk `walkBack` /
`mainBlocks` is what the `store` stream of C02 is compared with) computes the same detached /
attached lists as the statement-by-statement model of `find_fork` (`Model/Fork.lean`).
-/
import CkbVerif.Lemmas.ForkStore
namespace CkbVerif.C02
open CkbVerif.Store

/-- the records `process` hands to `commitBest` for a new best block `b` -/
def recsBest (r : Recs) (b : Block) : Recs :=
  let r0 := insertBlock r b
  let r1 := insertBlockEpoch r0 b
  let r2 := if b.isHead then insertEpochExt r1 b.epochRec else r1
  putExt r2 b.id (freshExt r0 b)

theorem recsBest_bodies (r : Recs) (b : Block) :
    (recsBest r b).bodies = Store.upd r.bodies b.id (some b) := by
  unfold recsBest
  by_cases h : b.isHead = true <;> simp [h, putExt, insertEpochExt, insertBlockEpoch, insertBlock]

/-- element `i` of `ancList K` is `anc (K-1-i)` -/
theorem ancList_getElem (s : Fork.Store) (x : Nat) :
    ∀ (K i : Nat) (h : i < (Fork.ancList s x K).length),
      (Fork.ancList s x K)[i] = Fork.anc s x (K - 1 - i) := by
  intro K
  induction K with
  | zero => intro i h; simp [Fork.ancList] at h
  | succ K ih =>
    intro i h
    cases i with
    | zero => simp [Fork.ancList]
    | succ i =>
      simp only [Fork.ancList, List.getElem_cons_succ]
      rw [ih i (by simpa [Fork.ancList] using h)]
      congr 1
      have : i < K := by simpa [Fork.ancList, Fork.ancList_length] using h
      omega

/-- `walkBack` from the `k`-th ancestor of the new tip: it conses the ancestors down to (not
including) the latest common ancestor and reports its height -/
theorem walkBack_spec (m : Main) (r : Recs) (body : Nat → Block) (s : Fork.Store) (cur x c : Nat)
    (hpar : ∀ y, s.parent y = (body y).parent) (hnum : ∀ y, s.number y = (body y).number)
    (hbn : ∀ k, k ≤ s.number x → s.number (Fork.anc s x k) = s.number x - k)
    (hidx : m.index = Fork.mainIndex s cur)
    (hst : ∀ k, 1 ≤ k → k ≤ s.number x → r.bodies (Fork.anc s x k) = some (body (Fork.anc s x k)))
    (hc : c < s.number x) (hcc : c ≤ cur)
    (hcom : Fork.ancAt s x c = s.mainAt c) (hno : Fork.NoCommonAbove s x cur c) :
    ∀ (j k : Nat), 1 ≤ k → k + j = s.number x - c → ∀ fuel acc, j + 1 ≤ fuel →
      walkBack m r fuel (Fork.anc s x k) acc =
        (((Fork.ancList s x (s.number x - c)).take j).map body ++ acc, some c) := by
  intro j
  induction j with
  | zero =>
    intro k hk1 hkj fuel acc hf
    obtain ⟨fuel, rfl⟩ : ∃ f, fuel = f + 1 := ⟨fuel - 1, by omega⟩
    have hk : k = s.number x - c := by omega
    have hnk : (body (Fork.anc s x k)).number = c := by
      rw [← hnum, hbn k (by omega)]; omega
    simp only [walkBack, hst k hk1 (by omega), hnk, hidx, Fork.mainIndex, hcc, if_true]
    have : s.mainAt c = Fork.anc s x k := by rw [← hcom, Fork.ancAt, hk]
    simp [this]
  | succ j ih =>
    intro k hk1 hkj fuel acc hf
    obtain ⟨fuel, rfl⟩ : ∃ f, fuel = f + 1 := ⟨fuel - 1, by omega⟩
    have hkN : k < s.number x - c := by omega
    have hnk : (body (Fork.anc s x k)).number = s.number x - k := by
      rw [← hnum, hbn k (by omega)]
    have hne : m.index (s.number x - k) ≠ some (Fork.anc s x k) := by
      rw [hidx]
      simp only [Fork.mainIndex]
      by_cases hle : s.number x - k ≤ cur
      · simp only [hle, if_true]
        intro h
        have h' : s.mainAt (s.number x - k) = Fork.anc s x k := Option.some.inj h
        apply hno (s.number x - k) (by omega) hle (by omega)
        rw [Fork.ancAt]
        have : s.number x - (s.number x - k) = k := by omega
        rw [this, h']
      · simp [hle]
    simp only [walkBack, hst k hk1 (by omega), hnk, hne, if_false]
    have hp : (body (Fork.anc s x k)).parent = Fork.anc s x (k + 1) := by rw [← hpar]; rfl
    rw [hp, ih (k + 1) (by omega) (by omega) fuel _ (by omega)]
    congr 1
    -- take (j+1) = take j ++ [element j], and element j of ancList (N-c) is anc k
    have hlen : j < (Fork.ancList s x (s.number x - c)).length := by
      rw [Fork.ancList_length]; omega
    rw [List.take_succ_eq_append_getElem hlen, ancList_getElem s x _ j hlen]
    have : s.number x - c - 1 - j = k := by omega
    rw [this]
    simp

/-- `mainBlocks` lists the main chain's blocks of heights `lo+1 ..= lo+n` -/
theorem mainBlocks_spec (m : Main) (r : Recs) (body : Nat → Block) (s : Fork.Store) (cur : Nat)
    (hidx : m.index = Fork.mainIndex s cur)
    (hst : ∀ n, n ≤ cur → r.bodies (s.mainAt n) = some (body (s.mainAt n)))
    (lo n : Nat) (h : lo + n ≤ cur) :
    mainBlocks m r lo n = (Fork.mainSeg s (lo + 1) n).map body := by
  induction n with
  | zero => rfl
  | succ n ih =>
    have e : lo + 1 + n = lo + n + 1 := by omega
    rw [Fork.mainSeg_concat, List.map_append, ← ih (by omega), e]
    simp only [mainBlocks, hidx, Fork.mainIndex]
    have : lo + n + 1 ≤ cur := by omega
    simp [this, hst (lo + n + 1) this]

/-- **`process` runs `find_fork`.**  On a view whose number → hash index is the main chain
`s.mainAt 0 ..= cur`, whose tip is `s.mainAt cur`, and whose record store holds the main chain's
blocks and the new block's ancestors (`body`), the step the `store` stream is compared with commits
a new best block through exactly the lists of `Fork.findFork`. -/
theorem process_eq_commitBest_findFork (v : View) (b : Block) (body : Nat → Block) (s : Fork.Store) (cur : Nat)
    (hpar : ∀ y, s.parent y = (body y).parent) (hnum : ∀ y, s.number y = (body y).number)
    (hb : body b.id = b)
    (wf : Fork.WF s cur b.id)
    (hidx : v.m.index = Fork.mainIndex s cur)
    (htip : v.m.tip = some (s.mainAt cur))
    (hanc : ∀ k, 1 ≤ k → k ≤ s.number b.id → v.r.bodies (Fork.anc s b.id k) = some (body (Fork.anc s b.id k)))
    (hmain : ∀ n, n ≤ cur → v.r.bodies (s.mainAt n) = some (body (s.mainAt n)))
    (hbest : (freshExt (insertBlock v.r b) b).td > tdOf (insertBlock v.r b) (v.m.tip.getD 0)) :
    process v b = commitBest ⟨v.m, recsBest v.r b⟩ b
      ((Fork.findFork s cur b.id).detached.map body) ((Fork.findFork s cur b.id).attached.map body) := by
  obtain ⟨c, d, sp⟩ := Fork.findFork_spec s cur b.id wf
  have hN : s.number b.id = b.number := by rw [hnum, hb]
  -- bodies of the records handed to commitBest
  have hbod : ∀ y, v.r.bodies y = some (body y) → (recsBest v.r b).bodies y = some (body y) := by
    intro y hy
    rw [recsBest_bodies]
    by_cases hyb : y = b.id
    · subst hyb; simp [Store.upd, hb]
    · simp [Store.upd, hyb, hy]
  have hanc' : ∀ k, 1 ≤ k → k ≤ s.number b.id →
      (recsBest v.r b).bodies (Fork.anc s b.id k) = some (body (Fork.anc s b.id k)) :=
    fun k h1 h2 => hbod _ (hanc k h1 h2)
  have hmain' : ∀ n, n ≤ cur → (recsBest v.r b).bodies (s.mainAt n) = some (body (s.mainAt n)) :=
    fun n h => hbod _ (hmain n h)
  -- the walk
  have hK1 : 1 ≤ s.number b.id - c := by have := sp.c_lt; omega
  have hwalk := walkBack_spec v.m (recsBest v.r b) body s cur b.id c hpar hnum wf.branch_num hidx hanc'
    sp.c_lt sp.c_le_cur sp.common sp.latest (s.number b.id - c - 1) 1 (Nat.le_refl _) (by omega)
    (b.number + 1) [] (by omega)
  have hp1 : Fork.anc s b.id 1 = b.parent := by show s.parent b.id = _; rw [hpar, hb]
  rw [hp1] at hwalk
  -- the detached side
  have htipn : numberOf (recsBest v.r b) (v.m.tip.getD 0) = cur := by
    rw [htip]
    simp only [Option.getD_some, numberOf, hmain' cur (Nat.le_refl _)]
    rw [← hnum]; exact wf.main_num cur (Nat.le_refl _)
  have hdet := mainBlocks_spec v.m (recsBest v.r b) body s cur hidx hmain' c (cur - c) (by have := sp.c_le_cur; omega)
  -- unfold the step
  have hstep : process v b = commitBest ⟨v.m, recsBest v.r b⟩ b
      (mainBlocks v.m (recsBest v.r b) c (cur - c))
      (((Fork.ancList s b.id (s.number b.id - c)).take (s.number b.id - c - 1)).map body ++ [] ++ [b]) := by
    have hdec : decide ((freshExt (insertBlock v.r b) b).td > tdOf (insertBlock v.r b) (v.m.tip.getD 0)) = true :=
      decide_eq_true hbest
    unfold process
    simp only [hdec, if_true]
    show commitBest ⟨v.m, recsBest v.r b⟩ b _ _ = _
    have hw : walkBack v.m (recsBest v.r b) (b.number + 1) b.parent [] = _ := hwalk
    simp only [recsBest] at hw htipn ⊢
    rw [hw]
    simp only [Option.getD_some, htipn]
  rw [hstep, hdet, sp.detached, sp.attached]
  congr 1
  -- ancList K = take (K-1) ++ [anc 0]
  obtain ⟨K, hK⟩ : ∃ K, s.number b.id - c = K + 1 := ⟨s.number b.id - c - 1, by omega⟩
  rw [hK]
  have : K + 1 - 1 = K := by omega
  rw [this, List.append_nil]
  have hlen : K < (Fork.ancList s b.id (K + 1)).length := by rw [Fork.ancList_length]; omega
  have h1 : Fork.ancList s b.id (K + 1) = (Fork.ancList s b.id (K + 1)).take K ++ [Fork.anc s b.id 0] := by
    have h2 := List.take_succ_eq_append_getElem hlen
    rw [ancList_getElem s b.id (K + 1) K hlen] at h2
    have e : K + 1 - 1 - K = 0 := by omega
    rw [e] at h2
    rw [← h2, List.take_of_length_le (by rw [Fork.ancList_length]; omega)]
  conv => rhs; rw [h1]
  simp [Fork.anc, hb]


/-! ### what `find_fork` reads from a replayed store: index, tip, bodies -/

theorem attachOne_index (v : View) (x : Block) :
    (attachOne v x).m.index = Store.upd v.m.index x.number (some x.id) := by
  show (attachOneM v.m x).index = _
  simp [attachOneM, attach]

theorem attachOne_tip (v : View) (x : Block) : (attachOne v x).m.tip = some x.id := rfl

/-- attaching blocks numbered `k, k+1, …` writes exactly those index rows -/
theorem attachAll_index (bs : List Block) : ∀ (v : View) (k : Nat),
    (∀ i (h : i < bs.length), bs[i].number = k + i) →
    ∀ n, (attachAll v bs).m.index n =
      if k ≤ n ∧ n < k + bs.length then some (bs.getD (n - k) default).id else v.m.index n := by
  induction bs with
  | nil =>
    intro v k _ n
    simp only [attachAll, List.length_nil, Nat.add_zero]
    rw [if_neg (by omega)]
  | cons x xs ih =>
    intro v k hn n
    have hx : x.number = k := by
      have := hn 0 (by simp)
      simp only [List.getElem_cons_zero, Nat.add_zero] at this
      exact this
    have hxs : ∀ i (h : i < xs.length), xs[i].number = (k + 1) + i := by
      intro i h
      have := hn (i + 1) (by simp; omega)
      simp only [List.getElem_cons_succ] at this
      omega
    simp only [attachAll]
    rw [ih (attachOne v x) (k + 1) hxs n, attachOne_index, hx]
    by_cases h1 : k + 1 ≤ n ∧ n < k + 1 + xs.length
    · have h2 : k ≤ n ∧ n < k + (x :: xs).length := by simp; omega
      simp only [h1, h2, and_self, if_true]
      obtain ⟨t, ht⟩ : ∃ t, n - k = t + 1 := ⟨n - k - 1, by omega⟩
      have : n - (k + 1) = t := by omega
      rw [ht, this]
      simp [List.getD]
    · simp only [h1, if_false]
      by_cases hnk : n = k
      · subst hnk
        simp [Store.upd, List.getD]
      · have h2 : ¬ (k ≤ n ∧ n < k + (x :: xs).length) := by simp at h1 ⊢; omega
        rw [if_neg h2]
        simp [Store.upd, hnk]

theorem attachAll_tip (bs : List Block) : ∀ (v : View), bs ≠ [] →
    (attachAll v bs).m.tip = some (bs.getD (bs.length - 1) default).id := by
  induction bs with
  | nil => intro v h; exact absurd rfl h
  | cons x xs ih =>
    intro v _
    simp only [attachAll]
    cases xs with
    | nil => simp [attachAll, attachOne_tip, List.getD]
    | cons y ys =>
      rw [ih (attachOne v x) (by simp)]
      simp [List.getD]

theorem attachAll_bodies {v : View} {bs : List Block} (hv : ValidChain v bs) :
    ∀ blk ∈ bs, (attachAll v bs).r.bodies blk.id = some blk := by
  induction hv with
  | nil v => intro blk h; simp at h
  | cons hx hrest ih =>
    rename_i v x xs
    intro blk hblk
    simp only [attachAll]
    rcases List.mem_cons.mp hblk with rfl | hmem
    · have h0 : (attachOne v blk).r.bodies blk.id = some blk := by
        show (attachOneR v.r blk).bodies blk.id = some blk
        rw [attachOneR_bodies]; simp [Store.upd]
      exact (recsLe_attachAll hrest).bodies _ _ h0
    · exact ih blk hmem

theorem init_index (g : Block) : (init g).m.index = Store.upd (fun _ => none) g.number (some g.id) := by
  show (attachOneM Main.empty g).index = _
  simp [attachOneM, attach, Main.empty]

theorem init_bodies (g : Block) : (init g).r.bodies g.id = some g := by
  show (putExt (attachOneR Recs.empty g) g.id _).bodies g.id = some g
  simp [putExt, Store.upd]

/-- the number → hash index of a replayed chain numbered from 0 is the chain -/
theorem replay_index (body : Nat → Block) (g : Block) (rest : List Block) (ver : Nat → Bool)
    (hnum : ∀ n (h : n < (g :: rest).length), ((g :: rest)[n]).number = n) :
    (replay (g :: rest)).m.index = Fork.mainIndex (forkStore body (g :: rest) ver) rest.length := by
  funext n
  have hg : g.number = 0 := by
    have := hnum 0 (by simp)
    simp only [List.getElem_cons_zero] at this
    exact this
  have hrest : ∀ i (h : i < rest.length), rest[i].number = 1 + i := by
    intro i h
    have := hnum (i + 1) (by simp; omega)
    simp only [List.getElem_cons_succ] at this
    omega
  simp only [replay, Fork.mainIndex, forkStore]
  rw [attachAll_index rest (init g) 1 hrest n, init_index, hg]
  by_cases h1 : 1 ≤ n ∧ n < 1 + rest.length
  · have h2 : n ≤ rest.length := by omega
    simp only [h1, and_self, if_true, h2]
    obtain ⟨t, ht⟩ : ∃ t, n = t + 1 := ⟨n - 1, by omega⟩
    subst ht
    simp [List.getD]
  · simp only [h1, if_false]
    by_cases hn0 : n = 0
    · subst hn0; simp [Store.upd, List.getD]
    · have : ¬ n ≤ rest.length := by omega
      simp [Store.upd, hn0, this]

theorem replay_tip (body : Nat → Block) (g : Block) (rest : List Block) (ver : Nat → Bool) :
    (replay (g :: rest)).m.tip = some ((forkStore body (g :: rest) ver).mainAt rest.length) := by
  simp only [replay, forkStore]
  cases rest with
  | nil => simp [attachAll, init, attachOne_tip, List.getD]
  | cons y ys =>
    rw [attachAll_tip (y :: ys) (init g) (by simp)]
    simp [List.getD]

theorem replay_bodies (g : Block) (rest : List Block) (hv : ValidChain (init g) rest) :
    ∀ blk ∈ g :: rest, (replay (g :: rest)).r.bodies blk.id = some blk := by
  intro blk hblk
  simp only [replay]
  rcases List.mem_cons.mp hblk with rfl | hmem
  · exact (recsLe_attachAll hv).bodies _ _ (init_bodies blk)
  · exact attachAll_bodies hv blk hmem

end CkbVerif.C02
