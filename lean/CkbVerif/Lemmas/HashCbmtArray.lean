import CkbVerif.Lemmas.HashCbmt
/-!
# `build_merkle_root` computes the root of the ARRAY-form complete binary merkle tree (C15)

The CBMT over `n` leaves is the array `nodes[0 .. 2n-2]` with `nodes[n-1+j] = leaf j` and
`nodes[i] = merge nodes[2i+1] nodes[2i+2]` for `i < n-1` (RFC 0006; `build_merkle_tree` of
merkle-cbt fills exactly this array).  `build_merkle_root` never materialises the array: it runs a
queue.  This file proves the queue returns `nodes[0]`: leaf order, odd-count handling and the
left/right orientation of every merge are those of the array form.
-/
namespace CkbVerif.Hash

section
variable {α : Type} (merge : α → α → α) (zero : α) (leaves : List α)

/-- `nodes[i]` of the array-form tree -/
def nodeAt (i : Nat) : α :=
  if leaves.length - 1 ≤ i then leaves.getD (i - (leaves.length - 1)) zero
  else merge (nodeAt (2 * i + 1)) (nodeAt (2 * i + 2))
termination_by 2 * leaves.length - i
decreasing_by all_goals omega

theorem nodeAt_leaf (i : Nat) (h : leaves.length - 1 ≤ i) :
    nodeAt merge zero leaves i = leaves.getD (i - (leaves.length - 1)) zero := by
  rw [nodeAt]; simp [h]

theorem nodeAt_inner (i : Nat) (h : i < leaves.length - 1) :
    nodeAt merge zero leaves i = merge (nodeAt merge zero leaves (2 * i + 1)) (nodeAt merge zero leaves (2 * i + 2)) := by
  rw [nodeAt]; simp [Nat.not_le.mpr h]

end

section
variable {α : Type} (merge : α → α → α)

/-- the first loop on a list given by an index function -/
theorem rchunks_range : ∀ (m : Nat) (g : Nat → α),
    (rchunks merge ((List.range m).map g)).1 = (List.range (m / 2)).map (fun j => merge (g (2 * j + 1)) (g (2 * j))) ∧
    (rchunks merge ((List.range m).map g)).2 = if m % 2 = 1 then some (g (m - 1)) else none
  | 0, g => by simp [rchunks]
  | 1, g => by simp [rchunks]
  | m + 2, g => by
    have ih := rchunks_range m (fun t => g (t + 2))
    have e : (List.range (m + 2)).map g = g 0 :: g 1 :: (List.range m).map (fun t => g (t + 2)) := by
      rw [List.range_succ_eq_map, List.map_cons, List.map_map, List.range_succ_eq_map, List.map_cons, List.map_map]
      rfl
    rw [e]
    simp only [rchunks]
    constructor
    · rw [ih.1]
      have : (m + 2) / 2 = m / 2 + 1 := by omega
      rw [this, List.range_succ_eq_map, List.map_cons, List.map_map]
      simp only [List.cons.injEq, true_and]
      apply List.map_congr_left
      intro j _
      simp only [Function.comp]
      congr 2
    · rw [ih.2]
      have : (m + 2) % 2 = m % 2 := by omega
      rw [this]
      by_cases h : m % 2 = 1
      · simp only [h, if_true]
        congr 2
        omega
      · simp [h]

theorem reverse_eq_map_range (zero : α) (l : List α) :
    l.reverse = (List.range l.length).map (fun t => l.getD (l.length - 1 - t) zero) := by
  apply List.ext_getElem
  · simp
  · intro i h1 h2
    simp only [List.length_reverse] at h1
    simp only [List.getElem_reverse, List.getElem_map, List.getElem_range, List.getD_eq_getElem?_getD]
    rw [List.getElem?_eq_getElem (by omega)]
    rfl

/-- the queue `[nodes[2·lo], nodes[2·lo-1], …, nodes[lo]]` reduces to `nodes[0]` -/
theorem reduceQ_band (zero : α) (leaves : List α) : ∀ (lo f : Nat), lo ≤ f → lo ≤ leaves.length - 1 →
    reduceQ merge f ((List.range (lo + 1)).map (fun j => nodeAt merge zero leaves (2 * lo - j))) =
      some (nodeAt merge zero leaves 0)
  | 0, f, _, _ => by cases f <;> simp [reduceQ]
  | lo + 1, 0, h, _ => by omega
  | lo + 1, f + 1, hf, hn => by
    have e : (List.range (lo + 1 + 1)).map (fun j => nodeAt merge zero leaves (2 * (lo + 1) - j)) =
        nodeAt merge zero leaves (2 * lo + 2) :: nodeAt merge zero leaves (2 * lo + 1) ::
          (List.range lo).map (fun j => nodeAt merge zero leaves (2 * lo - j)) := by
      rw [List.range_succ_eq_map, List.map_cons, List.map_map, List.range_succ_eq_map, List.map_cons, List.map_map]
      simp only [List.cons.injEq]
      refine ⟨?_, ?_, ?_⟩
      · exact congrArg _ (by omega)
      · exact congrArg _ (by show 2 * (lo + 1) - (0 + 1) = 2 * lo + 1; omega)
      apply List.map_congr_left
      intro j _
      simp only [Function.comp]
      congr 1
      omega
    rw [e]
    simp only [reduceQ]
    have hm : merge (nodeAt merge zero leaves (2 * lo + 1)) (nodeAt merge zero leaves (2 * lo + 2)) =
        nodeAt merge zero leaves lo := (nodeAt_inner merge zero leaves lo (by omega)).symm
    rw [hm]
    have e2 : (List.range lo).map (fun j => nodeAt merge zero leaves (2 * lo - j)) ++ [nodeAt merge zero leaves lo] =
        (List.range (lo + 1)).map (fun j => nodeAt merge zero leaves (2 * lo - j)) := by
      rw [List.range_succ, List.map_append]
      simp only [List.map_cons, List.map_nil, List.append_cancel_left_eq, List.cons.injEq, and_true]
      congr 1
      omega
    rw [e2]
    exact reduceQ_band zero leaves lo f (by omega) (by omega)

/-- the queue after the first loop is the band `[nodes[2·lo] … nodes[lo]]` with `lo = (n-1)/2` -/
theorem initQueue_band (zero : α) (leaves : List α) (hne : leaves ≠ []) :
    initQueue merge leaves =
      (List.range ((leaves.length - 1) / 2 + 1)).map (fun j => nodeAt merge zero leaves (2 * ((leaves.length - 1) / 2) - j)) := by
  have hn : 0 < leaves.length := List.length_pos_iff.mpr hne
  have hr := rchunks_range merge leaves.length (fun t => leaves.getD (leaves.length - 1 - t) zero)
  rw [← reverse_eq_map_range zero leaves] at hr
  -- each pushed merge is an inner node
  have hq : (rchunks merge leaves.reverse).1 = (List.range (leaves.length / 2)).map (fun j => nodeAt merge zero leaves (leaves.length - 2 - j)) := by
    rw [hr.1]
    apply List.map_congr_left
    intro j hj
    have hj' : j < leaves.length / 2 := List.mem_range.mp hj
    rw [nodeAt_inner merge zero leaves (leaves.length - 2 - j) (by omega),
      nodeAt_leaf merge zero leaves (2 * (leaves.length - 2 - j) + 1) (by omega),
      nodeAt_leaf merge zero leaves (2 * (leaves.length - 2 - j) + 2) (by omega)]
    congr 2 <;> omega
  unfold initQueue
  rw [hr.2, hq]
  by_cases hodd : leaves.length % 2 = 1
  · simp only [hodd, if_true]
    have e1 : (leaves.length - 1) / 2 = leaves.length / 2 := by omega
    rw [e1, List.range_succ_eq_map, List.map_cons, List.map_map]
    simp only [List.cons.injEq]
    constructor
    · rw [nodeAt_leaf merge zero leaves _ (by omega)]
      congr 1; omega
    · apply List.map_congr_left
      intro j hj
      have hj' : j < leaves.length / 2 := List.mem_range.mp hj
      simp only [Function.comp]
      congr 1; omega
  · simp only [hodd, if_false]
    have e1 : (leaves.length - 1) / 2 + 1 = leaves.length / 2 := by omega
    rw [e1]
    apply List.map_congr_left
    intro j hj
    have hj' : j < leaves.length / 2 := List.mem_range.mp hj
    congr 1; omega

/-- **`build_merkle_root` = `nodes[0]` of the array-form complete binary merkle tree** -/
theorem cbmtRoot_eq_nodeAt (zero : α) (leaves : List α) (hne : leaves ≠ []) :
    cbmtRoot merge zero leaves = nodeAt merge zero leaves 0 := by
  have h1 := cbmtRoot_eq_reduce merge zero leaves hne
  rw [initQueue_band merge zero leaves hne,
    reduceQ_band merge zero leaves ((leaves.length - 1) / 2) leaves.length (by omega) (by omega)] at h1
  exact (Option.some.inj h1).symm

end

end CkbVerif.Hash
