import CkbVerif.Model.HashView
import CkbVerif.Lemmas.HashBody
/-!
# View-layer lemmas (C15): every constructor establishes, and every builder path preserves,
"cached hashes equal recomputation"; reset paths make the header commit to the body.
-/
namespace CkbVerif.Hash
open CkbVerif.Molecule

section zips
variable {D : Type}

theorem zipTx_map (ds : List Bytes) (f g : Bytes → D) :
    zipTx ds (ds.map f) (ds.map g) = ds.map (fun d => { data := d, hash := f d, witnessHash := g d }) := by
  induction ds with
  | nil => rfl
  | cons d ds ih => simp [zipTx, ih]

theorem zipUncle_map (us : List Uncle) (f : Uncle → D) :
    zipUncle us (us.map f) = us.map (fun u => { data := u, hash := f u }) := by
  induction us with
  | nil => rfl
  | cons u us ih => simp [zipUncle, ih]

theorem zipTx_getElem? : ∀ (ds : List Bytes) (hs ws : List D) (i : Nat),
    (zipTx ds hs ws)[i]? =
      match ds[i]?, hs[i]?, ws[i]? with
      | some d, some h, some w => some { data := d, hash := h, witnessHash := w }
      | _, _, _ => none
  | [], _, _, i => by simp [zipTx]
  | _ :: _, [], _, i => by cases i <;> simp [zipTx]
  | _ :: _, _ :: _, [], i => by
      cases i with
      | zero => simp [zipTx]
      | succ i => simp only [zipTx, List.getElem?_nil]; split <;> simp_all
  | d :: ds, h :: hs, w :: ws, i => by
      cases i with
      | zero => simp [zipTx]
      | succ i => simp only [zipTx, List.getElem?_cons_succ]; exact zipTx_getElem? ds hs ws i

end zips

section
variable {D : Type} (A : HashAlg D)

/-! ### constructors establish the invariant -/

theorem txIntoView_ok (tx : Bytes) : (txIntoView A tx).Ok A := ⟨rfl, rfl⟩
theorem uncleIntoView_ok (u : Uncle) : (uncleIntoView A u).Ok A := rfl
theorem headerBuild_ok (h : HeaderBuilder D) : (h.build A).Ok A := rfl

theorem intoViewWithoutReset_consistent (b : BlockData D) : (intoViewWithoutReset A b).Consistent A :=
  ⟨rfl, rfl, rfl, rfl⟩

theorem intoViewWithoutReset_data (b : BlockData D) : (intoViewWithoutReset A b).data = b := rfl

theorem resetHeader_committed (b : BlockData D) : (resetHeader A b).Committed A := ⟨rfl, rfl, rfl⟩

theorem resetHeader_keeps (b : BlockData D) :
    (resetHeader A b).body = b.body ∧ (resetHeader A b).lit = b.lit ∧ (resetHeader A b).uncles = b.uncles :=
  ⟨rfl, rfl, rfl⟩

/-- with the hashes of the block's own transactions, `reset_header_with_hashes` is `reset_header` -/
theorem resetHeaderWithHashes_own (b : BlockData D) :
    resetHeaderWithHashes A b (b.txs.map (txHash A)) (b.txs.map (witnessHash A)) = resetHeader A b := rfl

theorem intoView_consistent (b : BlockData D) : (intoView A b).Consistent A := ⟨rfl, rfl, rfl, rfl⟩

theorem intoView_committed (b : BlockData D) : (intoView A b).data.Committed A := ⟨rfl, rfl, rfl⟩

theorem intoView_keeps (b : BlockData D) :
    (intoView A b).data.body = b.body ∧ (intoView A b).data.lit = b.lit ∧ (intoView A b).data.uncles = b.uncles :=
  ⟨rfl, rfl, rfl⟩

/-! ### accessors of a consistent view return recomputed hashes -/

theorem header_ok (v : BlockView D) (hc : v.Consistent A) : v.header.Ok A := hc.1

theorem transactions_ok (v : BlockView D) (hc : v.Consistent A) :
    v.transactions = v.data.txs.map (txIntoView A) := by
  unfold BlockView.transactions
  rw [hc.2.2.1, hc.2.2.2, zipTx_map]
  rfl

theorem uncles_ok (v : BlockView D) (hc : v.Consistent A) : v.uncles = v.data.uncles.map (uncleIntoView A) := by
  unfold BlockView.uncles
  rw [hc.2.1, zipUncle_map]
  rfl

end

/-- the single-index accessor agrees with the list accessor (no hypothesis: both read the same caches) -/
theorem transaction_eq_transactions_get {D : Type} (v : BlockView D) (i : Nat) :
    v.transaction i = v.transactions[i]? := by
  unfold BlockView.transaction BlockView.transactions
  rw [zipTx_getElem?]
  cases v.data.txs[i]? <;> cases v.txHashes[i]? <;> cases v.txWitnessHashes[i]? <;> rfl

section
variable {D : Type} (A : HashAlg D)

theorem transaction_ok (v : BlockView D) (hc : v.Consistent A) (i : Nat) :
    v.transaction i = (v.data.txs[i]?).map (txIntoView A) := by
  rw [transaction_eq_transactions_get, transactions_ok A v hc, List.getElem?_map]

/-! ### builders -/

theorem buildInternal_body (b : BlockBuilder D) (r : Bool) :
    (b.buildInternal A r).data.body =
      { txs := b.transactions.map (·.data), proposals := b.proposals,
        uncles := b.uncles.map (·.data.header), extension := b.extension } := by
  simp [BlockBuilder.buildInternal, BlockData.body, HeaderBuilder.build, List.map_map, Function.comp_def]

theorem buildInternal_lit (b : BlockBuilder D) (r : Bool) : (b.buildInternal A r).data.lit = b.header.lit := rfl

theorem buildUnchecked_fields (b : BlockBuilder D) : (b.buildUnchecked A).data.fields = b.header.fields := rfl

/-- a build from parts whose caches are right is consistent (reset or not) -/
theorem buildInternal_consistent (b : BlockBuilder D) (r : Bool)
    (ht : ∀ t ∈ b.transactions, t.Ok A) (hu : ∀ u ∈ b.uncles, u.Ok A) : (b.buildInternal A r).Consistent A := by
  refine ⟨rfl, ?_, ?_, ?_⟩
  · simp only [BlockBuilder.buildInternal, List.map_map]
    exact List.map_congr_left (fun u hm => hu u hm)
  · simp only [BlockBuilder.buildInternal, List.map_map]
    exact List.map_congr_left (fun t hm => (ht t hm).1)
  · simp only [BlockBuilder.buildInternal, List.map_map]
    exact List.map_congr_left (fun t hm => (ht t hm).2)

/-- … and `build()` (reset) makes the header commit to the NEW body -/
theorem build_committed (b : BlockBuilder D) (ht : ∀ t ∈ b.transactions, t.Ok A) :
    (b.build A).data.Committed A := by
  have h1 : b.transactions.map (·.hash) = (b.transactions.map (·.data)).map (txHash A) := by
    rw [List.map_map]; exact List.map_congr_left (fun t hm => (ht t hm).1)
  have h2 : b.transactions.map (·.witnessHash) = (b.transactions.map (·.data)).map (witnessHash A) := by
    rw [List.map_map]; exact List.map_congr_left (fun t hm => (ht t hm).2)
  refine ⟨?_, rfl, ?_⟩
  · show merkleRoot A [merkleRoot A (b.transactions.map (·.hash)), merkleRoot A (b.transactions.map (·.witnessHash))] = _
    rw [h1, h2]; rfl
  · show extraHash A (unclesHash A ((b.uncles.map (·.data)).map (·.header))) (extensionHash A b.extension) = _
    simp [resetFields, BlockData.body, BlockBuilder.build, BlockBuilder.buildInternal, HeaderBuilder.build, List.map_map,
      Function.comp_def]

theorem view_asAdvancedBuilder_ok (v : BlockView D) (hc : v.Consistent A) :
    (∀ t ∈ v.asAdvancedBuilder.transactions, t.Ok A) ∧ (∀ u ∈ v.asAdvancedBuilder.uncles, u.Ok A) := by
  constructor
  · intro t hm
    have : v.asAdvancedBuilder.transactions = v.data.txs.map (txIntoView A) := transactions_ok A v hc
    rw [this] at hm
    obtain ⟨d, _, rfl⟩ := List.mem_map.mp hm
    exact txIntoView_ok A d
  · intro u hm
    have : v.asAdvancedBuilder.uncles = v.data.uncles.map (uncleIntoView A) := uncles_ok A v hc
    rw [this] at hm
    obtain ⟨d, _, rfl⟩ := List.mem_map.mp hm
    exact uncleIntoView_ok A d

theorem packed_asAdvancedBuilder_ok (b : BlockData D) :
    (∀ t ∈ (b.asAdvancedBuilder A).transactions, t.Ok A) ∧ (∀ u ∈ (b.asAdvancedBuilder A).uncles, u.Ok A) := by
  constructor
  · intro t hm
    obtain ⟨d, _, rfl⟩ := List.mem_map.mp hm
    exact txIntoView_ok A d
  · intro u hm
    obtain ⟨d, _, rfl⟩ := List.mem_map.mp hm
    exact uncleIntoView_ok A d

/-- `as_advanced_builder().build_unchecked()` of a consistent view is the view itself -/
theorem rebuild_unchecked_identity (v : BlockView D) (hc : v.Consistent A) :
    v.asAdvancedBuilder.buildUnchecked A = v := by
  obtain ⟨⟨lit, fields, uncles, txs, props, ext⟩, hash, uh, th, wh⟩ := v
  obtain ⟨h1, h2, h3, h4⟩ := hc
  simp only at h1 h2 h3 h4
  subst h1 h2 h3 h4
  simp [BlockBuilder.buildUnchecked, BlockBuilder.buildInternal, BlockView.asAdvancedBuilder, HeaderBuilder.build,
    zipTx_map, zipUncle_map, List.map_map, Function.comp_def]

/-- `as_advanced_builder().build()` of a consistent view whose header commits to its body is the view itself -/
theorem rebuild_identity (v : BlockView D) (hc : v.Consistent A) (hm : v.data.Committed A) :
    v.asAdvancedBuilder.build A = v := by
  obtain ⟨⟨lit, ⟨tr, ph, xh⟩, uncles, txs, props, ext⟩, hash, uh, th, wh⟩ := v
  obtain ⟨h1, h2, h3, h4⟩ := hc
  obtain ⟨m1, m2, m3⟩ := hm
  simp only [resetFields, BlockData.body] at h1 h2 h3 h4 m1 m2 m3
  subst h1 h2 h3 h4 m1 m2 m3
  simp [BlockBuilder.build, BlockBuilder.buildInternal, BlockView.asAdvancedBuilder, HeaderBuilder.build,
    zipTx_map, zipUncle_map, List.map_map, Function.comp_def, transactionsRoot, rawTransactionsRoot, witnessesRoot]

theorem newUnchecked_consistent (header : HeaderView D) (uncles : List Uncle) (uncleHashes : List D)
    (body : List (TxView D)) (proposals : List Bytes) (extension : Option Bytes)
    (hh : header.Ok A) (hu : uncleHashes = uncles.map (fun u => A.hb u.header)) (hb : ∀ t ∈ body, t.Ok A) :
    (newUnchecked header uncles uncleHashes body proposals extension).Consistent A := by
  refine ⟨hh, hu, ?_, ?_⟩
  · simp only [newUnchecked, List.map_map]; exact List.map_congr_left (fun t hm => (hb t hm).1)
  · simp only [newUnchecked, List.map_map]; exact List.map_congr_left (fun t hm => (hb t hm).2)

/-- two consistent views whose headers commit to their (well-formed) bodies have the same block
hash iff they have the same literal header fields and the same body -/
theorem view_hash_eq_iff (cf : CollisionFree A) (v1 v2 : BlockView D) (c1 : v1.Consistent A) (c2 : v2.Consistent A)
    (m1 : v1.data.Committed A) (m2 : v2.data.Committed A) (w1 : v1.data.body.WF) (w2 : v2.data.body.WF) :
    v1.hash = v2.hash ↔ (v1.data.lit = v2.data.lit ∧ v1.data.body = v2.data.body) := by
  rw [c1.1, c2.1]
  constructor
  · intro h
    have := cf.hm_inj _ _ _ _ h
    simp only [List.cons.injEq, and_true] at this
    refine ⟨this.1, resetFields_inj cf _ _ w1 w2 ?_ ?_ ?_⟩
    · rw [← m1.1, ← m2.1]; exact this.2.1
    · rw [← m1.2.1, ← m2.2.1]; exact this.2.2.1
    · rw [← m1.2.2, ← m2.2.2]; exact this.2.2.2
  · rintro ⟨hl, hb⟩
    have f1 : v1.data.fields = v2.data.fields := by
      obtain ⟨a1, a2, a3⟩ := m1
      obtain ⟨b1, b2, b3⟩ := m2
      cases hf1 : v1.data.fields; cases hf2 : v2.data.fields
      simp only [hf1, hf2, hb] at a1 a2 a3 b1 b2 b3
      rw [a1, a2, a3, b1, b2, b3]
    rw [hl, f1]

end

end CkbVerif.Hash
