import CkbVerif.Lemmas.MoleculeBasic
/-! Offsets ↔ slices: the arithmetic heart of the dynvec / table layout. -/
namespace CkbVerif.Molecule

def slicesFrom (bs : Bytes) : Nat → List Nat → List Bytes
  | _, [] => []
  | a, b :: rest => slice bs a b :: slicesFrom bs b rest

def monotoneFrom : Nat → List Nat → Bool
  | _, [] => true
  | a, b :: rest => decide (a ≤ b) && monotoneFrom b rest

/-- end offset of every item when the first starts at `p` -/
def endsFrom : Nat → List Bytes → List Nat
  | _, [] => []
  | p, x :: xs => (p + x.length) :: endsFrom (p + x.length) xs

theorem slices_cons (bs : Bytes) (a : Nat) (rest : List Nat) : slices bs (a :: rest) = slicesFrom bs a rest := by
  induction rest generalizing a with
  | nil => simp [slices, slicesFrom]
  | cons b rest ih => simp [slices, slicesFrom, ih]

theorem monotone_cons (a : Nat) (rest : List Nat) : monotone (a :: rest) = monotoneFrom a rest := by
  induction rest generalizing a with
  | nil => simp [monotone, monotoneFrom]
  | cons b rest ih => simp [monotone, monotoneFrom, ih]

theorem slicesFrom_length (bs : Bytes) (a : Nat) (rest : List Nat) : (slicesFrom bs a rest).length = rest.length := by
  induction rest generalizing a with
  | nil => simp [slicesFrom]
  | cons b rest ih => simp [slicesFrom, ih]

theorem offsetsFrom_ends (p : Nat) (items : List Bytes) :
    offsetsFrom p items ++ [p + items.flatten.length] = p :: endsFrom p items := by
  induction items generalizing p with
  | nil => simp [offsetsFrom, endsFrom]
  | cons x xs ih =>
    simp only [offsetsFrom, endsFrom, List.flatten_cons, List.length_append, List.cons_append]
    rw [← ih (p + x.length)]
    simp [Nat.add_assoc]

theorem offsetsFrom_length (p : Nat) (items : List Bytes) : (offsetsFrom p items).length = items.length := by
  induction items generalizing p with
  | nil => simp [offsetsFrom]
  | cons x xs ih => simp [offsetsFrom, ih]

theorem endsFrom_length (p : Nat) (items : List Bytes) : (endsFrom p items).length = items.length := by
  induction items generalizing p with
  | nil => simp [endsFrom]
  | cons x xs ih => simp [endsFrom, ih]

/-- builder → reader: slicing an encoding at the builder's offsets gives back the items -/
theorem slicesFrom_ends (pre : Bytes) (items : List Bytes) (suf : Bytes) :
    slicesFrom (pre ++ (items.flatten ++ suf)) pre.length (endsFrom pre.length items) = items := by
  induction items generalizing pre with
  | nil => simp [endsFrom, slicesFrom]
  | cons x xs ih =>
    simp only [endsFrom, slicesFrom, List.flatten_cons, List.append_assoc]
    have h1 : slice (pre ++ (x ++ (xs.flatten ++ suf))) pre.length (pre.length + x.length) = x := by
      simp [slice]
    rw [h1]
    have h2 := ih (pre ++ x)
    simp only [List.length_append, List.append_assoc] at h2
    rw [h2]

theorem monotoneFrom_endsFrom (p : Nat) (items : List Bytes) : monotoneFrom p (endsFrom p items) = true := by
  induction items generalizing p with
  | nil => simp [endsFrom, monotoneFrom]
  | cons x xs ih => simp [endsFrom, monotoneFrom, ih]

/-- the last offset of a monotone list bounds every offset -/
theorem monotoneFrom_le_last (a : Nat) (rest : List Nat) (h : monotoneFrom a rest = true) :
    a ≤ (a :: rest).getLast (by simp) := by
  induction rest generalizing a with
  | nil => simp
  | cons b rest ih =>
    simp only [monotoneFrom, Bool.and_eq_true, decide_eq_true_eq] at h
    have := ih b h.2
    simp only [List.getLast_cons_cons]
    omega

theorem slice_length (bs : Bytes) (a b : Nat) (h : b ≤ bs.length) : (slice bs a b).length = b - a := by
  simp [slice, List.length_take, List.length_drop]
  omega

theorem slice_append (bs : Bytes) (a b c : Nat) (hab : a ≤ b) (hbc : b ≤ c) :
    slice bs a b ++ slice bs b c = slice bs a c := by
  simp only [slice]
  have e1 : c - a = (b - a) + (c - b) := by omega
  have e2 : List.drop b bs = List.drop (b - a) (List.drop a bs) := by
    rw [List.drop_drop]
    congr 1
    omega
  rw [e1, e2, List.take_add]

/-- reader → builder: for monotone offsets ending inside `bs`, the slices are contiguous … -/
theorem slicesFrom_flatten (bs : Bytes) (a : Nat) (rest : List Nat) (h : monotoneFrom a rest = true) :
    (slicesFrom bs a rest).flatten = slice bs a ((a :: rest).getLast (by simp)) := by
  induction rest generalizing a with
  | nil => simp [slicesFrom, slice]
  | cons b rest ih =>
    simp only [monotoneFrom, Bool.and_eq_true, decide_eq_true_eq] at h
    simp only [slicesFrom, List.flatten_cons, List.getLast_cons_cons]
    rw [ih b h.2]
    exact slice_append bs a b _ h.1 (monotoneFrom_le_last b rest h.2)

/-- … and the builder would write exactly these offsets again -/
theorem endsFrom_slicesFrom (bs : Bytes) (a : Nat) (rest : List Nat) (h : monotoneFrom a rest = true)
    (hl : (a :: rest).getLast (by simp) ≤ bs.length) : endsFrom a (slicesFrom bs a rest) = rest := by
  induction rest generalizing a with
  | nil => simp [slicesFrom, endsFrom]
  | cons b rest ih =>
    simp only [monotoneFrom, Bool.and_eq_true, decide_eq_true_eq] at h
    simp only [List.getLast_cons_cons] at hl
    have hb : b ≤ bs.length := Nat.le_trans (monotoneFrom_le_last b rest h.2) hl
    simp only [slicesFrom, endsFrom]
    rw [slice_length bs a b hb]
    have : a + (b - a) = b := by omega
    rw [this, ih b h.2 hl]

end CkbVerif.Molecule
